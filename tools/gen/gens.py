"""Input generators.  Every random choice comes from one random.Random so cases replay exactly.

G_sql   - the verification grammar: scripts as lists of atoms with explicit whitespace slots,
          rendered under a layout (so C11's respellings are two renderings of one script)
G_junk  - token soup: fragments of keywords, openers without closers, operators, quotes, tags
G_uni   - arbitrary code points weighted towards the boundary characters of the lexer's atoms
G_proc  - the procedural grammar of C17
"""
import random

# ------------------------------------------------------------------------------------------------
# atoms of a rendered script:  (kind, text)
#   kind: 'kw' keyword (may be re-cased), 'name', 'lit', 'op', 'punct', 'comment',
#         'ws1' mandatory whitespace slot, 'ws0' optional whitespace slot
# ------------------------------------------------------------------------------------------------

WS_CHOICES = [' ', ' ', ' ', '\n', '\t', '  ', '\r\n', ' \n ', '\n\n', '\t ', '   ', '\r']
NAMES = ['a', 'b', 'c', 'x', 'y', 'foo', 'bar', 't1', 't2', 'col', 'tbl', 'users', 'orders', 'id',
         'price', 'qty', 'u', 'o', 'total', 'cnt', 'f', 'g', 'v', 'n', 'm', 'emp', 'dept', '_z',
         'Über', 'naïve', 'x1', 'my_table', 'schema1', 'k2', 'val']
FUNCS = ['count', 'sum', 'max', 'min', 'coalesce', 'f', 'my_func', 'lower', 'nvl', 'substr', 'abs']
TYPES = ['int', 'integer', 'varchar', 'text', 'numeric', 'date', 'float', 'bigint', 'boolean']
JOINS = ['JOIN', 'INNER JOIN', 'LEFT JOIN', 'LEFT OUTER JOIN', 'RIGHT JOIN', 'RIGHT OUTER JOIN',
         'FULL OUTER JOIN', 'CROSS JOIN', 'NATURAL JOIN', 'FULL JOIN', 'LEFT INNER JOIN',
         'STRAIGHT JOIN']
CMP_OPS = ['=', '<', '>', '<=', '>=', '<>', '!=', 'LIKE', 'NOT LIKE', 'ILIKE', '~', '!~~', '~~',
           'NOT ILIKE', 'RLIKE', 'REGEXP']
ARITH_OPS = ['+', '-', '*', '/', '||', '%', '&', '|', '^', '->', '->>', '#>', '@>', '<@']
WORD_OPS = ['DIV', 'MOD']


def kw(s):
    return ('kw', s)


def nm(s):
    return ('name', s)


WS1 = ('ws1', ' ')
WS0 = ('ws0', '')


class SqlGen:
    def __init__(self, rng, comments=True, max_depth=3):
        self.r = rng
        self.comments = comments
        self.max_depth = max_depth

    # ---- lexical pieces
    def ident_plain(self):
        return self.r.choice(NAMES)

    def ident(self):
        r = self.r.random()
        n = self.ident_plain()
        if r < 0.70:
            return [nm(n)]
        if r < 0.82:
            return [nm('"' + n.replace('"', '') + self.r.choice(['', ' x', ';', "'", '--', '\\"z', '\\"b  \r\n c', '""q', ' \n d']) + '"')]
        if r < 0.90:
            return [nm('`' + n + self.r.choice(['', ' y', ';', '"']) + '`')]
        if r < 0.95:
            return [nm('[' + n + ']')]
        return [nm(self.r.choice(['@', '#', '##']) + n + 'x')]

    def qualified(self):
        out = self.ident()
        if self.r.random() < 0.3:
            out = self.ident() + [('punct', '.')] + out
            if self.r.random() < 0.15:
                out = self.ident() + [('punct', '.')] + out
        return out

    def string(self):
        body = self.r.choice(['', 'a', 'it''s', 'x;y', 'a--b', '/* c */', 'sel ect', 'é', '%s', 'a\nb',
                              'long string literal here', '(', ')', 'END', '$$', '"q"', '`'])
        return [('lit', "'" + body.replace("'", "''") + "'")]

    def number(self):
        return [('lit', self.r.choice(['0', '1', '2', '42', '1.5', '.5', '1.', '1e10', '6.67E-8',
                                        '0xFF', '100', '-1', '3.14']))]

    def dollar(self):
        tag = self.r.choice(['', 'tag', 'A', '_x', 'fn', 'q1', 'body2', 'T_9'])
        body = self.r.choice(['', 'body', 'select 1; select 2', "it's", '$ x $', 'BEGIN x; END;',
                              '\n line \n'])
        return [('lit', f'${tag}${body}${tag}$')]

    def placeholder(self):
        return [nm(self.r.choice(['?', '%s', ':name', ':1', '$1', '%(foo)s', '$a']))]

    def literal(self):
        r = self.r.random()
        if r < 0.4:
            return self.number()
        if r < 0.8:
            return self.string()
        if r < 0.86:
            return self.dollar()
        if r < 0.93:
            return self.placeholder()
        return [kw(self.r.choice(['NULL', 'TRUE', 'FALSE', 'CURRENT_DATE', 'CURRENT_TIMESTAMP']))]

    def typed_literal(self):
        r = self.r.random()
        if r < 0.4:
            return [kw('DATE'), WS1, ('lit', "'2020-01-01'")]
        if r < 0.7:
            return [kw('TIMESTAMP'), WS1, ('lit', "'2020-01-01 00:00:00'")]
        out = [kw('INTERVAL'), WS1, ('lit', self.r.choice(["'1 day'", "'6'", "'2 hours'"]))]
        if self.r.random() < 0.5:
            out += [WS1, kw(self.r.choice(['DAY', 'HOUR', 'MINUTE', 'MONTH', 'SECOND', 'YEAR']))]
        return out

    def comment(self):
        r = self.r.random()
        if r < 0.35:
            return [('comment', '/* ' + self.r.choice(['c', 'x; y', "don't", 'select', '* /', '']) + ' */')]
        if r < 0.45:
            return [('comment', '/*+ hint */')]
        if r < 0.85:
            return [('comment', '-- ' + self.r.choice(['c', 'x; y', "it's", 'from', '']) +
                     self.r.choice(['\n', '\n', '\r\n', '\r']))]
        if r < 0.92:
            return [('comment', '--+ hint\n')]
        return [('comment', '# ' + self.r.choice(['c', 'note']) + '\n')]

    # ---- expressions
    def expr(self, d=0):
        r = self.r.random()
        if d >= self.max_depth:
            r = r * 0.45
        if r < 0.22:
            return self.qualified()
        if r < 0.40:
            return self.literal()
        if r < 0.45:
            return self.typed_literal()
        if r < 0.58:
            op = self.r.choice(ARITH_OPS + WORD_OPS)
            if op in WORD_OPS:       # infix word operators: DIV is lexed as Operator, MOD as Keyword
                return self.expr(d + 1) + [WS1, kw(op), WS1] + self.expr(d + 1)
            return self.expr(d + 1) + [WS0, ('op', op), WS0] + self.expr(d + 1)
        if r < 0.66:
            return self.funcall(d)
        if r < 0.72:
            return [('punct', '('), WS0] + self.expr(d + 1) + [WS0, ('punct', ')')]
        if r < 0.78:
            return self.case(d)
        if r < 0.83:
            return [('punct', '('), WS0] + self.select(d + 1) + [WS0, ('punct', ')')]
        if r < 0.88:
            return self.qualified() + [('punct', '::')] + [nm(self.r.choice(TYPES))]
        if r < 0.92:
            return self.qualified() + [('punct', '['), WS0] + self.number() + [WS0, ('punct', ']')]
        if r < 0.96:
            return self.cond(d + 1)
        return [('op', '*')]

    def funcall(self, d):
        out = [nm(self.r.choice(FUNCS)), ('punct', '('), WS0]
        n = self.r.choice([0, 1, 1, 2, 2, 3])
        if n == 0 and self.r.random() < 0.5:
            out += [('op', '*')]
        for i in range(n):
            if i:
                out += [WS0, ('punct', ','), WS0]
            out += self.expr(d + 1)
        out += [WS0, ('punct', ')')]
        if self.r.random() < 0.12:
            out += [WS1, kw('OVER'), WS0, ('punct', '('), WS0, kw('PARTITION BY'), WS1] + \
                self.qualified() + [WS0, ('punct', ')')]
        return out

    def case(self, d):
        out = [kw('CASE')]
        if self.r.random() < 0.3:
            out += [WS1] + self.qualified()
        for _ in range(self.r.choice([1, 1, 2, 3])):
            out += [WS1, kw('WHEN'), WS1] + self.cond(d + 1) + [WS1, kw('THEN'), WS1] + self.expr(d + 1)
        if self.r.random() < 0.5:
            out += [WS1, kw('ELSE'), WS1] + self.expr(d + 1)
        out += [WS1, kw('END')]
        return out

    def cond(self, d=0):
        r = self.r.random()
        if d >= self.max_depth:
            r *= 0.6
        if r < 0.55:
            op = self.r.choice(CMP_OPS)
            sep = WS1 if op[0].isalpha() else WS0
            return self.expr(d + 1) + [sep, ('op', op) if not op[0].isalpha() else kw(op), sep] + \
                self.expr(d + 1)
        if r < 0.62:
            return self.qualified() + [WS1, kw('IS'), WS1] + \
                ([kw('NOT NULL')] if self.r.random() < 0.5 else [kw('NULL')])
        if r < 0.70:
            return self.qualified() + [WS1, kw('BETWEEN'), WS1] + self.expr(d + 1) + \
                [WS1, kw('AND'), WS1] + self.expr(d + 1)
        if r < 0.78:
            return self.qualified() + [WS1, kw('IN'), WS0, ('punct', '('), WS0] + \
                self.expr(d + 1) + [WS0, ('punct', ','), WS0] + self.expr(d + 1) + [WS0, ('punct', ')')]
        if r < 0.90:
            return self.cond(d + 1) + [WS1, kw(self.r.choice(['AND', 'OR'])), WS1] + self.cond(d + 1)
        if r < 0.95:
            return [kw('EXISTS'), WS0, ('punct', '('), WS0] + self.select(d + 1) + [WS0, ('punct', ')')]
        return [('punct', '('), WS0] + self.cond(d + 1) + [WS0, ('punct', ')')]

    # ---- queries
    def alias(self):
        r = self.r.random()
        if r < 0.5:
            return []
        if r < 0.8:
            return [WS1, kw('AS'), WS1] + self.ident()
        return [WS1] + self.ident()

    def select_item(self, d):
        if self.r.random() < 0.1:
            return [('op', '*')]
        return self.expr(d + 1) + self.alias()

    def table_ref(self, d):
        if self.r.random() < 0.15 and d < self.max_depth:
            return [('punct', '('), WS0] + self.select(d + 1) + [WS0, ('punct', ')')] + \
                [WS1] + self.ident()
        return self.qualified() + self.alias()

    def select(self, d=0):
        out = [kw('SELECT')]
        if self.r.random() < 0.1:
            out += [WS1, kw('DISTINCT')]
        out += [WS1]
        n = self.r.choice([1, 1, 2, 3, 4])
        for i in range(n):
            if i:
                out += [WS0, ('punct', ','), WS0]
            out += self.select_item(d)
        if self.r.random() < 0.9:
            out += [WS1, kw('FROM'), WS1] + self.table_ref(d)
            for _ in range(self.r.choice([0, 0, 0, 1, 2])):
                if self.r.random() < 0.35:
                    out += [WS0, ('punct', ','), WS0] + self.table_ref(d)
                else:
                    out += [WS1, kw(self.r.choice(JOINS)), WS1] + self.table_ref(d)
                    if self.r.random() < 0.8:
                        out += [WS1, kw('ON'), WS1] + self.cond(d + 1)
            if self.r.random() < 0.6:
                out += [WS1, kw('WHERE'), WS1] + self.cond(d + 1)
            if self.r.random() < 0.25:
                out += [WS1, kw('GROUP BY'), WS1] + self.qualified()
                if self.r.random() < 0.4:
                    out += [WS0, ('punct', ','), WS0] + self.qualified()
                if self.r.random() < 0.4:
                    out += [WS1, kw('HAVING'), WS1] + self.cond(d + 1)
            if self.r.random() < 0.3:
                out += [WS1, kw('ORDER BY'), WS1] + self.qualified()
                if self.r.random() < 0.5:
                    out += [WS1, kw(self.r.choice(['ASC', 'DESC', 'DESC NULLS LAST', 'ASC NULLS FIRST']))]
                if self.r.random() < 0.3:
                    out += [WS0, ('punct', ','), WS0] + self.qualified()
            if self.r.random() < 0.2:
                out += [WS1, kw('LIMIT'), WS1] + self.number()
        if self.r.random() < 0.12 and d < self.max_depth:
            out += [WS1, kw(self.r.choice(['UNION', 'UNION ALL', 'EXCEPT', 'INTERSECT'])), WS1] + \
                self.select(d + 1)
        return out

    def with_select(self, d=0):
        out = [kw('WITH'), WS1]
        for i in range(self.r.choice([1, 1, 2, 3])):
            if i:
                out += [WS0, ('punct', ','), WS0]
            out += [nm(self.ident_plain()), WS1, kw('AS'), WS0, ('punct', '('), WS0] + \
                self.select(d + 1) + [WS0, ('punct', ')')]
        dml = self.r.random()
        if dml < 0.7:
            out += [WS1] + self.select(d + 1)
        elif dml < 0.85:
            out += [WS1] + self.insert(d + 1)
        else:
            out += [WS1] + self.delete(d + 1)
        return out

    def insert(self, d=0):
        out = [kw('INSERT'), WS1, kw('INTO'), WS1] + self.qualified()
        if self.r.random() < 0.6:
            out += [WS0, ('punct', '('), WS0] + self.ident() + [WS0, ('punct', ','), WS0] + \
                self.ident() + [WS0, ('punct', ')')]
        if self.r.random() < 0.7:
            out += [WS1, kw('VALUES'), WS0]
            for i in range(self.r.choice([1, 1, 2])):
                if i:
                    out += [WS0, ('punct', ','), WS0]
                out += [('punct', '('), WS0] + self.literal() + [WS0, ('punct', ','), WS0] + \
                    self.literal() + [WS0, ('punct', ')')]
        else:
            out += [WS1] + self.select(d + 1)
        return out

    def update(self, d=0):
        out = [kw('UPDATE'), WS1] + self.qualified() + [WS1, kw('SET'), WS1]
        for i in range(self.r.choice([1, 2])):
            if i:
                out += [WS0, ('punct', ','), WS0]
            out += self.ident() + [WS0, ('op', '='), WS0] + self.expr(d + 1)
        if self.r.random() < 0.7:
            out += [WS1, kw('WHERE'), WS1] + self.cond(d + 1)
        if self.r.random() < 0.15:
            out += [WS1, kw('RETURNING'), WS1] + self.qualified()
        return out

    def delete(self, d=0):
        out = [kw('DELETE'), WS1, kw('FROM'), WS1] + self.qualified()
        if self.r.random() < 0.8:
            out += [WS1, kw('WHERE'), WS1] + self.cond(d + 1)
        return out

    def create_table(self, d=0):
        out = [kw(self.r.choice(['CREATE', 'CREATE', 'CREATE OR REPLACE'])), WS1,
               kw(self.r.choice(['TABLE', 'TABLE', 'VIEW']))]
        is_view = out[-1][1] == 'VIEW'
        out += [WS1] + self.qualified()
        if is_view or self.r.random() < 0.2:
            out += [WS1, kw('AS'), WS1] + self.select(d + 1)
            return out
        out += [WS0, ('punct', '('), WS0]
        for i in range(self.r.choice([1, 2, 3])):
            if i:
                out += [WS0, ('punct', ','), WS0]
            out += self.ident() + [WS1, nm(self.r.choice(TYPES))]
            if self.r.random() < 0.3:
                out += [('punct', '('), ('lit', '10'), ('punct', ')')]
            if self.r.random() < 0.3:
                out += [WS1, kw('NOT NULL')]
            if self.r.random() < 0.2:
                out += [WS1, kw('PRIMARY KEY')]
            if self.r.random() < 0.2:
                out += [WS1, kw('DEFAULT'), WS1] + self.literal()
        out += [WS0, ('punct', ')')]
        return out

    def misc_ddl(self, d=0):
        r = self.r.random()
        if r < 0.4:
            return [kw('DROP'), WS1, kw(self.r.choice(['TABLE', 'VIEW', 'INDEX'])), WS1] + \
                ([kw('IF'), WS1, kw('EXISTS'), WS1] if self.r.random() < 0.4 else []) + self.qualified()
        if r < 0.7:
            return [kw('ALTER'), WS1, kw('TABLE'), WS1] + self.qualified() + \
                [WS1, kw('ADD'), WS1, kw('COLUMN'), WS1] + self.ident() + [WS1, nm(self.r.choice(TYPES))]
        return [kw('CREATE'), WS1, kw('INDEX'), WS1] + self.ident() + [WS1, kw('ON'), WS1] + \
            self.qualified() + [WS0, ('punct', '('), WS0] + self.ident() + [WS0, ('punct', ')')]

    def statement(self, d=0):
        r = self.r.random()
        if r < 0.45:
            return self.select(d)
        if r < 0.55:
            return self.with_select(d)
        if r < 0.65:
            return self.insert(d)
        if r < 0.75:
            return self.update(d)
        if r < 0.82:
            return self.delete(d)
        if r < 0.92:
            return self.create_table(d)
        return self.misc_ddl(d)

    def separator(self, last=False):
        out = [WS0, ('punct', ';')]
        r = self.r.random()
        if last:
            if r < 0.4:
                return [] if self.r.random() < 0.5 else out
            return out + [WS0]
        out += [WS0]
        if self.comments and r < 0.15:
            out += [('comment', '-- sep' + self.r.choice(['\n', '\r\n'])), WS0]
        return out

    def script(self, nstmts=None):
        n = nstmts if nstmts is not None else self.r.choice([1, 1, 2, 2, 3, 4])
        out = []
        stmts = []
        if self.r.random() < 0.2:
            out += [WS1]
        for i in range(n):
            s = self.statement()
            stmts.append(s)
            out += s + self.separator(last=(i == n - 1))
        return out


def render(atoms, rng=None, layout='canon', comments=0.0, recase=None):
    """Render atoms to text.
    layout: 'canon' -> every ws1 is one blank, ws0 empty;  'random' -> random whitespace.
    comments: probability of putting a comment into a whitespace slot (needs rng).
    recase: None | 'upper' | 'lower' | 'random' for keyword atoms."""
    out = []
    g = SqlGen(rng) if rng is not None else None
    for kind, text in atoms:
        if kind == 'ws1':
            if layout == 'canon':
                s = ' '
            else:
                s = rng.choice(WS_CHOICES)
            if comments and rng.random() < comments:
                c = g.comment()[0][1]
                s = s + c + (rng.choice(WS_CHOICES) if rng.random() < 0.5 else '')
                if not s[-1].isspace() and not c.endswith('*/'):
                    s += '\n'
                if c.endswith('*/') and not s[-1].isspace():
                    s += ' '
            out.append(s)
        elif kind == 'ws0':
            if layout == 'canon':
                s = ''
            else:
                s = rng.choice(['', '', ''] + WS_CHOICES)
            if comments and rng.random() < comments / 2:
                # never glue a comment opener to the previous token: `+--`, `/` + `/*`, `x#` lex as one token
                s = (s if s and s[-1].isspace() else s + ' ') + g.comment()[0][1]
            out.append(s)
        elif kind == 'kw':
            if recase == 'upper':
                out.append(text.upper())
            elif recase == 'lower':
                out.append(text.lower())
            elif recase == 'random':
                out.append(''.join(ch.upper() if rng.random() < 0.5 else ch.lower() for ch in text))
            else:
                out.append(text)
        else:
            # two atoms must never fuse into a comment opener: `-` + `-1` -> `--1`, `/` + `*`
            prev = next((o for o in reversed(out) if o), '')
            if prev and text and ((prev[-1] == '-' and text[0] == '-') or (prev[-1] == '/' and text[0] == '*')):
                out.append(' ')
            out.append(text)
    return ''.join(out)


# ------------------------------------------------------------------------------------------------
JUNK = ['select', 'SELECT', 'from', 'where', 'case', 'when', 'then', 'else', 'end', 'END IF', 'if',
        'for', 'end loop', 'begin', 'BEGIN', 'create', 'or replace', 'declare', 'as', 'AS', 'in',
        'values', 'using', 'join', 'left', 'outer', 'inner join', 'union', 'all', 'union all',
        'order', 'by', 'order by', 'group  by', 'not', 'null', 'not null', 'like', 'not like',
        'asc', 'desc', 'nulls', 'first', 'last', 'go', 'GO 2', 'go\n', 'handler for', 'double',
        'precision', 'primary key', 'at time zone', "'utc'", 'lateral view explode', 'with',
        'insert', 'into', 'update', 'set', 'delete', 'over', 'partition by', 'having', 'limit',
        'returning', 'except', 'while', 'loop', 'end while', 'foreach', 'timestamp', 'date',
        'interval', 'day', 'table', 'view', 'function', 'procedure', 'trigger', 'language',
        '(', ')', '[', ']', ',', ';', '.', ':', '::', ':=', '*', '+', '-', '/', '=', '<', '>', '<=',
        '<>', '!=', '||', '->', '->>', '#>', '@>', '<@', '?', '?|', '?&', '#-', '~', '%', '&', '|',
        '^', '@', '#', '##', '$', '$$', '$a$', '$tag$', '$1', ':1', ':x', '%s', '%(x)s', '\\', '\\d',
        "'", "''", '"', '""', '`', '``', '´', '--', '-- ', '--+', '# ', '#', '/*', '*/', '/*+', '/',
        ' ', ' ', ' ', '  ', '\n', '\r\n', '\r', '\t', 'a', 'b', 'x', 'foo', 'bar', 't', 'f', 'x1',
        '_a', 'é', 'À', 'Ü', 'ß', '1', '0', '12', '1.5', '.5', '1.', '1e5', '0x1F', '-1', '1e', 'e1',
        'a.b', 'a . b', 'f(', 'x(', 'count(*)', '[a]', 'a[1]', '@v', '#t', '##g', 'v$name',
        '\x00', 'K', 'ſ', 'İ', '\x85', ' ', '\x1c', '\ud800', '\U0001f600',
        '\xa0', '　', 'ﬁrst', 'ſelect', 'KelvinK']

JUNK += [
    # prefixed strings, continuation backslash, soft hyphen inside a word, dotless-i keywords, NFD text, vendor constructs
    "U&'d\\0061t'", 'U&"d\\0061t"', "E'a\\'b'", "N'x'", "X'1F'", "B'01'", "e'\\n'", '\\\n', ';\\\n', 'identi\xadfier', 'ıf',
    'end ıf', 'begın', 'é', '한', 'merge', 'pivot', 'lateral view', 'filter (where a)',
    'within group (order by a)', 'connect by', 'start with', 'on conflict', 'window w as (partition by a)',
    'rows between 1 preceding and current row', 'a[1:2]', "a->'b'", "a#>>'{b}'", '%(n)s', ':1', '$1', '@@x',
    '/* a /* b */ c */', '1e-5', '0xFF', '.5e+3', 'x::int[]', 'mod', 'div', 'while', 'end loop', 'at time zone', ':=']


def junk(rng, n=None):
    n = n if n is not None else rng.choice([1, 2, 3, 5, 8, 12, 20, 30])
    return ''.join(rng.choice(JUNK) for _ in range(n))


BOUNDARY_CPS = [0, 9, 10, 11, 12, 13, 28, 29, 30, 31, 32, 33, 34, 35, 36, 37, 39, 40, 41, 42, 43, 44,
                45, 46, 47, 48, 57, 58, 59, 60, 61, 62, 63, 64, 65, 69, 70, 75, 83, 88, 90, 91, 92,
                93, 94, 95, 96, 97, 101, 107, 115, 120, 122, 124, 126, 127, 0x85, 0xa0, 0xaa, 0xb4,
                0xb5, 0xba, 0xbf, 0xc0, 0xd7, 0xdc, 0xdd, 0xdf, 0xe0, 0xfc, 0xfd, 0xff, 0x130, 0x131,
                0x17f, 0x1c5, 0x345, 0x3c2, 0x3c3, 0x660, 0x1680, 0x2000, 0x2028, 0x2029, 0x202f,
                0x205f, 0x212a, 0x212b, 0x3000, 0xd7ff, 0xd800, 0xdbff, 0xdc00, 0xdfff, 0xe000,
                0xfb01, 0xfeff, 0xff10, 0xffff, 0x10000, 0x1d7ce, 0x1f600, 0x10ffff,
                # soft hyphen, combining marks, NFD/NFC-unstable letters (jamo, Ohm, Greek oxia, CJK compatibility), zero width,
                # fullwidth letters, superscript digit, Roman numeral
                0xad, 0x300, 0x301, 0x308, 0x1112, 0x1161, 0x11ab, 0x2126, 0x1f71, 0xf9dc, 0x200b, 0x200d, 0x2060,
                0xff53, 0xff25, 0xb2, 0x2163, 0x1e9e, 0x390, 0x1f88]


# multi-code-point sequences a pre-processing step could rewrite as a unit: surrogate pairs (high, low), CR LF, base +
# combining marks (NFC-composable), emoji ZWJ sequence, Persian word with ZWNJ, BOM + letter, decomposed jamo
UNI_SEQS = [[0xd800, 0xdc00], [0xdbff, 0xdfff], [0xd83d, 0xde00], [0xd800, 0xdfff, 0xdc00], [13, 10], [0x65, 0x301],
            [0x41, 0x30a], [0x1f468, 0x200d, 0x1f469], [0x645, 0x6cc, 0x200c, 0x62e], [0xfeff, 0x61], [0x1112, 0x1161, 0x11ab],
            [0x61, 0xad, 0x62], [0x2060, 0x27], [0x200b, 0x3b]]


def uni(rng, n=None):
    n = n if n is not None else rng.choice([1, 2, 3, 5, 8, 13, 21, 40])
    out = []
    for _ in range(n):
        r = rng.random()
        if r < 0.08:
            out.extend(rng.choice(UNI_SEQS))
        elif r < 0.55:
            out.append(rng.choice(BOUNDARY_CPS))
        elif r < 0.8:
            out.append(rng.randrange(32, 127))
        elif r < 0.9:
            out.append(rng.randrange(0, 0x3000))
        else:
            out.append(rng.randrange(0, 0x110000))
    return ''.join(map(chr, out))


def mixed_text(rng):
    """One text from the mix used by lexer-level checks."""
    r = rng.random()
    if r < 0.40:
        g = SqlGen(rng)
        return render(g.script(), rng, layout=rng.choice(['canon', 'random']),
                      comments=rng.choice([0, 0, 0.1, 0.3]),
                      recase=rng.choice([None, 'upper', 'lower', 'random'])), 'sql'
    if r < 0.70:
        return junk(rng), 'junk'
    if r < 0.85:
        return uni(rng), 'uni'
    # sql with junk spliced in
    g = SqlGen(rng)
    s = render(g.script(), rng, layout='random', comments=0.2, recase='random')
    k = rng.randrange(0, len(s) + 1)
    return s[:k] + junk(rng, rng.choice([1, 2, 3])) + s[k:], 'sql+junk'


# ------------------------------------------------------------------------------------------------
# procedural grammar (C17)
class ProcGen(SqlGen):
    def __init__(self, rng, full=True, max_depth=2):
        super().__init__(rng, max_depth=max_depth)
        self.full = full       # include the productions outside G17' (FOR..LOOP, CASE stmt, DECLARE before BEGIN)

    def simple_stmt(self):
        r = self.r.random()
        if r < 0.3:
            return self.select(2)
        if r < 0.5:
            return self.update(2)
        if r < 0.6:
            return self.insert(2)
        if r < 0.7:
            return [nm(self.ident_plain()), WS0, ('op', ':='), WS0] + self.expr(2)
        if r < 0.8:
            # a qualified name whose last part is a block keyword (NEW.end, r.begin, slot.loop): a Name after the period
            return [nm(self.ident_plain()), WS0, ('op', ':='), WS0, nm(self.r.choice(['NEW', 'r', 'slot'])), ('punct', '.'),
                    nm(self.r.choice(['end', 'begin', 'loop', 'if', 'case', 'declare', 'END', 'while']))]
        if r < 0.9:
            return [kw('RETURN'), WS1] + self.expr(2)
        return [kw('RAISE'), WS1, kw('NOTICE'), WS1] + self.string()

    def items(self, d):
        out = []
        for _ in range(self.r.choice([1, 1, 2, 3])):
            out += self.item(d) + [WS1]
        return out

    def item(self, d):
        r = self.r.random()
        if d >= 3:
            r *= 0.4
        semi = [WS0, ('punct', ';')]
        if r < 0.45:
            return self.simple_stmt() + semi
        if r < 0.55:
            return [kw('BEGIN'), WS1] + self.items(d + 1) + [kw('END')] + semi
        if r < 0.70:
            out = [kw('IF'), WS1] + self.cond(2) + [WS1, kw('THEN'), WS1] + self.items(d + 1)
            if self.r.random() < 0.3:
                out += [kw('ELSIF'), WS1] + self.cond(2) + [WS1, kw('THEN'), WS1] + self.items(d + 1)
            if self.r.random() < 0.4:
                out += [kw('ELSE'), WS1] + self.items(d + 1)
            return out + [kw('END IF')] + semi
        if r < 0.78:
            return [kw('WHILE'), WS1] + self.cond(2) + [WS1, kw('DO'), WS1] + self.items(d + 1) + \
                [kw('END WHILE')] + semi
        if r < 0.84:
            return [kw('LOOP'), WS1] + self.items(d + 1) + [kw('END LOOP')] + semi
        if not self.full:
            return self.simple_stmt() + semi
        if r < 0.92:
            head = [kw('FOR'), WS1, nm('i'), WS1, kw('IN'), WS1, ('lit', '1'), ('punct', '.'), ('punct', '.'),
                    ('lit', '10')] if self.r.random() < 0.5 else [kw('WHILE'), WS1] + self.cond(2)
            return head + [WS1, kw('LOOP'), WS1] + self.items(d + 1) + [kw('END LOOP')] + semi
        out = [kw('CASE')]
        for _ in range(self.r.choice([1, 2])):
            out += [WS1, kw('WHEN'), WS1] + self.cond(2) + [WS1, kw('THEN'), WS1] + self.items(d + 1)
        return out + [kw('END'), WS1, kw('CASE')] + semi

    def create(self):
        out = [kw(self.r.choice(['CREATE', 'CREATE OR REPLACE'])), WS1,
               kw(self.r.choice(['FUNCTION', 'PROCEDURE', 'TRIGGER'])), WS1, nm(self.ident_plain()),
               ('punct', '('), ('punct', ')')]
        if self.r.random() < 0.5:
            out += [WS1, kw('RETURNS'), WS1, nm('int')]
        if self.r.random() < 0.3:
            out += [WS1, kw('AS')]
        if self.full and self.r.random() < 0.25:
            out += [WS1, kw('DECLARE'), WS1, nm('x'), WS1, nm('int'), ('punct', ';')]
        out += [WS1, kw('BEGIN'), WS1]
        if self.r.random() < 0.3:
            out += [kw('DECLARE'), WS1, nm('y'), WS1, nm('int'), ('punct', ';'), WS1]
        out += self.items(1) + [kw('END'), WS0, ('punct', ';')]
        return out

    def script_with_create(self):
        pre = []
        for _ in range(self.r.choice([0, 1, 2])):
            pre += self.statement() + [WS0, ('punct', ';'), WS1]
        post = []
        for _ in range(self.r.choice([0, 1, 2])):
            post += [WS1] + self.statement() + [WS0, ('punct', ';')]
        return pre, self.create(), post


# ------------------------------------------------------------------------------------------------
# long tokens / long runs: size thresholds (buffers, windows, caps) are a classic place for a regression; these inputs are
# used by the direct oracles only (the model is not run on megabyte inputs)
def long_cases(quick=True):
    """[(kind, text, (start, end) of the long region or None)]"""
    sizes = [70000] if quick else [70000, 300000, 1100000]
    out = []
    for n in sizes:
        body = ('abc;def ghi -- /* ' * (n // 18 + 1))[:n]
        for kind, l, r in (('long-string', "'", "'"), ('long-dq-name', '"', '"'), ('long-backtick', '`', '`'),
                           ('long-block-comment', '/*', '*/'), ('long-dollar', '$b$', '$b$')):
            b = body.replace(r[0], '_') if kind != 'long-block-comment' else body.replace('*/', '* ')
            pre = 'select 1; update t set c = '
            text = pre + l + b + r + ' where x = 1; select 2;'
            out.append((kind, text, (len(pre), len(pre) + len(l + b + r))))
        out.append(('long-line-comment', 'select 1 -- ' + body.replace('\n', ' ') + '\nfrom t; select 2;', None))
        out.append(('long-name', 'select ' + 'n' * n + ' from t; select 2;', None))
        out.append(('long-number', 'select ' + '7' * n + ' from t; select 2;', None))
        out.append(('long-ws', 'select' + ' ' * n + '1; select 2;', None))
    out.append(('long-error-run', 'select 1;' + '\x00' * 9000 + ' select 2;', None))
    out.append(('long-error-run', '{' * 20000, None))
    out.append(('many-statements', 'select 1;' * (3000 if quick else 40000), None))
    out.append(('many-items', 'select ' + ', '.join('c%d' % i for i in range(400 if quick else 5000)) + ' from t', None))
    return out


def threshold_cases(quick=True):
    """Inputs beyond the size thresholds a `hardening` change is likely to introduce (nesting depth > 100, more than 10000 tokens
    in one statement): [(kind, text, meta)].  All of them are handled correctly by the unchanged library."""
    out = []
    for n in ([101, 140] if quick else [101, 140, 220]):
        out.append(('deep-paren-case', '(' * n + 'CASE WHEN a THEN b END' + ')' * n, {'depth': n}))
        out.append(('deep-paren-if', '(' * n + 'IF a THEN b END IF' + ')' * n, {'depth': n}))
        out.append(('deep-bracket', 'a' + '[a' * (n - 1) + '[(1)' + ']' * n, {'depth': n}))
        q = 'select a.b c from t'
        for i in range(n):
            q = 'select * from (' + q + ') s%d' % i
        out.append(('deep-subquery-alias', q, {'depth': n, 'ident': 'a.b c', 'alias': 'c', 'real': 'b', 'parent': 'a'}))
        out.append(('deep-function', 'select ' + 'f(' * n + 'x, 1' + ')' * n + ' from t', {'depth': n}))
    m = 3400 if quick else 9000
    cols = ', '.join('c%d' % i for i in range(m))
    out.append(('many-tokens-select', 'select ' + cols + ' from t where ( a = 1 ) order by b',
                {'where': 'where ( a = 1 ) ', 'items': m}))
    mq = 1300 if quick else 3000
    out.append(('many-qualified-aliased', 'select ' + ', '.join('q.c%d AS a%d' % (i, i) for i in range(mq)) + ' from q',
                {'items': mq, 'probe': [0, mq // 2, mq - 1]}))
    rows = ', '.join('(%d, %d)' % (i, i) for i in range(1400 if quick else 4000))
    out.append(('many-tokens-cte-insert', 'with src as (select 1 from u) insert into t (id, v) values ' + rows, {'type': 'INSERT'}))
    out.append(('many-tokens-in-list', 'update t set a = 1 where a in (' + ', '.join(map(str, range(3600 if quick else 9000))) +
                ') and ( b = 2 ) returning a', {'type': 'UPDATE', 'where_prefix': 'where a in ('}))
    return out
