"""Random option dictionaries for sqlparse.format (option slice, C07)."""
import re
import os

DOCUMENTED_FALLBACK = ['keyword_case', 'identifier_case', 'strip_comments', 'truncate_strings', 'truncate_char',
                       'reindent', 'reindent_aligned', 'use_space_around_operators', 'indent_tabs', 'indent_width',
                       'wrap_after', 'compact', 'output_format', 'comma_first']
UNDOCUMENTED = ['strip_whitespace', 'indent_columns', 'indent_after_first', 'indent_char', 'right_margin']


def documented():
    p = os.path.join(os.environ.get('VERIF_REPO', '/repo'), 'docs', 'source', 'api.rst')
    try:
        with open(p, encoding='utf-8') as f:
            txt = f.read()
        i = txt.find('.. _formatting:')
        names = re.findall(r'^``(\w+)``', txt[i:], re.M) if i >= 0 else []
        return names or DOCUMENTED_FALLBACK
    except OSError:
        return DOCUMENTED_FALLBACK


GOOD = {
    'keyword_case': ['upper', 'lower', 'capitalize', None],
    'identifier_case': ['upper', 'lower', 'capitalize', None],
    'output_format': ['sql', 'python', 'php', None],
    'truncate_strings': [None, 2, 3, 5, 10, 1000, '7', 3.0, ' 12 '],
    'truncate_char': ['[...]', '', '…', '.'],
    'indent_width': [1, 2, 3, 4, 8, '4'],
    'wrap_after': [0, 1, 20, 80],
    'right_margin': [None],
}
BOOLS = [True, False, True, False, 1, 0, 1.0, 0.0]
DIGITS = ['0', '1', '2', '7', '9', '٣', '१', '５']
SPACES = [' ', '\t', '\n', '\x0b', '\x0c', '\r', '\x85', '\xa0', ' ', '　', '\x1c', '\x1f']


def weird_value(r):
    k = r.randrange(14)
    if k == 0:
        return r.choice([None, True, False])
    if k == 1:
        return r.choice([0, 1, 2, -1, 9, 10, 11, 79, -5, 3, 10 ** 9, 2 ** 64, -(2 ** 70)])
    if k == 2:       # around the int->str digit limit (the model computes 10**4300 for these: keep them rare)
        if r.random() < 0.12:
            return r.choice([10 ** 4299, 10 ** 4300, -(10 ** 4300), 10 ** 4300 - 1, -(10 ** 4299)])
        return r.choice([10 ** 5200, -(10 ** 5200), 2 ** 12000, 10 ** 100, -(10 ** 50)])
    if k == 3:
        return r.choice([1.0, 0.0, -0.0, 2.0, 10.0, 11.0, -1.0, 1e300, 2.0 ** 70])
    if k == 4:
        return r.choice([2.5, 0.5, -0.5, 1.5, 9.99, 10.5, -2.5, 1e-9, 1.9999999, 0.999, -0.999])
    if k == 5:
        return r.choice([float('inf'), float('-inf'), float('nan')])
    if k == 6:       # numeric strings
        s = ''.join(r.choice(SPACES) for _ in range(r.randrange(3)))
        s += r.choice(['', '', '+', '-'])
        n = r.randrange(1, 5)
        s += ''.join(r.choice(DIGITS) + r.choice(['', '', '', '_']) for _ in range(n))
        if r.random() < 0.5:
            s = s.rstrip('_')
        s += ''.join(r.choice(SPACES) for _ in range(r.randrange(3)))
        return s
    if k == 7:
        return r.choice(['', 'x', '2', '10', '3.5', '1e3', '0x10', ' ', 'None', 'True', '1_0', '_1', '1__0', '--1',
                         '9' * 4300, '9' * 4301, '0' * 4400 + '1', '3\x00', '\ud800'])
    if k == 8:
        return r.choice(['upper', 'lower', 'capitalize', 'UPPER', 'Upper', 'title', 'sql', 'python', 'php', 'PHP',
                         'Python', 'java', 'ΣQL', 'PHPİ'])
    if k == 9:
        return r.choice([[], [1], (), (0,), {}, {'a': 1}, set(), object(), frozenset()])
    if k == 10:
        return ''.join(chr(r.choice([r.randrange(32, 127), r.randrange(0x80, 0x3000), r.randrange(0x10000, 0x10400)]))
                       for _ in range(r.randrange(0, 6)))
    if k == 11:
        return r.randrange(-3, 100)
    if k == 12:
        return float(r.randrange(-3, 30)) + r.choice([0.0, 0.25])
    return r.choice(['\t', ' ', '[...]'])


def random_options(r, keys=None):
    """(dict, kind): kind in valid / mostly-valid / soup"""
    doc = keys or documented()
    allk = doc + UNDOCUMENTED
    kind = r.choice(['valid', 'valid', 'mostly', 'mostly', 'soup', 'single'])
    d = {}
    if kind == 'single':
        k = r.choice(allk + ['unknown', ''])
        d[k] = weird_value(r)
        return d, kind
    pool = doc if r.random() < 0.5 else allk
    for k in r.sample(pool, r.randint(0, min(len(pool), 9))):
        if kind == 'valid':
            d[k] = r.choice(GOOD.get(k, BOOLS))
        elif kind == 'mostly':
            d[k] = r.choice(GOOD.get(k, BOOLS)) if r.random() < 0.85 else weird_value(r)
        else:
            d[k] = weird_value(r)
    if r.random() < 0.1:
        d[r.choice(['unknown_option', '', 'Keyword_Case', 'reindent ', 'é'])] = weird_value(r)
    return d, kind
