"""Generators for the token-filter slice of C08: texts rich in keywords / identifiers / string
literals with non-ASCII case behaviour, option triples, and raw (not lexer-produced) token lists."""
import gens

# characters whose case mappings are not one-to-one / context dependent / not idempotent
SPECIAL = ['ß', 'ẞ', 'İ', 'ı', 'ǅ', 'ǆ', 'Ǆ', 'Σ', 'σ', 'ς', 'ŉ', 'ﬁ', 'ﬂ', 'ﬆ', 'ﬃ', 'ſ', 'K', 'ͅ',
           '̇', 'ʼ', 'ǰ', 'ΐ', 'ᾳ', 'ᾈ', 'ᾷ', 'Ա', 'ﬓ', 'À', 'Ü', 'é', '­', 'ʰ', "'", '.', ':',
           'Ⅷ', 'ⓐ', '𐐀', '𐐨', 'Ꭰ', 'ꭰ', 'ᲀ', 'Ა', 'ა']
WORDS = ['ſelect', 'ﬁrst', 'ınsert', 'İnsert', 'straße', 'ΟΔΟΣ', 'ΣΑΣ', 'ΑΣ.', "ΑΣ'Α", 'Σ', 'ΣΣ', 'aΣ', 'İstanbul',
         'ǅemal', 'ǆ', 'ŉ', 'ŉa', 'ŉA', 'xŉ', 'ﬃ', 'ﬆart', 'laſt', 'naïve', 'Über', 'ÀB', '@Àb', '#Üx',
         'uſing', 'caſe', 'aK', 'Kelvin', 'ǰ', 'ΐx', 'ᾳb', 'ᾷ', 'Աբ', 'ﬓ', 'ⅷ', '𐐨𐐀']
STRINGS = ["'abc'", "'abcdefghij'", "''", "'a'", "'ab''cd'", "'ab''cdef'", "''abcdef''", "'''abc'''", "''''",
           "'''abcdefgh'''", "'a\\'bcdef'", "'x\ny\nzzzz'", "'ΣΑΣ straße'", "'😀😀😀😀😀'", "'ab", "ab'", "'abc''",
           "'aaaaaaaaaaaaaaaaaaaaaaaaaaaaaaaaaaaaaaaaaa'", "'[...]'", "'ab[...]'", "'abcd[...]'", "'....'",
           "E'abcdef'", "N'abcdef'", "x'ABCDEF'", "'1234567'", "'--abcdef'", "'/*abcd*/'", "';;;;;;'",
           # decomposed text: combining marks directly at / after typical cut positions
           "'Andre\u0301 Gide'", "'ab\u0301\u0308cdefgh'", "'a\u0301b\u0301c\u0301d\u0301e\u0301'", "'abcde\u0301'",
           "'\u1112\u1161\u11ab\u1100\u1173\u11af abc'", "'e\u0301'", "'ab\u200dcd\u200befgh'", "'👍🏽👍🏽👍🏽'"]
QNAMES = ['"Quoted"', '"a""b"', '" Lead"', '""', '"ŉ"', '`Back`', '`ŉx`', '´Acute´', '[Br Name]', '[ŉ]', ' "x"',
          '"abc', 'abc"', '"a\\"b"', '[a]', 'x[Idx]', '@Var', '##Tmp', '#T1', ':Ph', '$1', '%s', '%(Nm)s', '?']
KWS = ["at time zone 'Europe/Berlin'", "AT TIME ZONE 'utc'", "with' time zone 'X'", "timestamp with time zone 'Europe/Berlin xyz'",
       "WITH TIME ZONE 'utc time'", 'Order  By', 'group\tby',
       'Not\nNull', 'union all', 'LEFT outer Join', 'end if', 'END   LOOP', 'Nulls First', 'desc nulls last',
       'go 2', 'Create Or Replace', 'primary key', 'handler for', 'lateral view explode', 'Double Precision',
       'not like', 'NOT  ILIKE', 'regexp', 'Case', 'when', 'In', 'values', 'Using', 'from', 'As', 'Int', 'varchar',
       'Sysdate', 'Select', 'INSERT', 'uPdAtE', 'Null', 'true', 'Count(', 'Foo.', '.Bar', 'a.B', 'Schema . Tbl']
SEPS = [' ', ' ', ' ', '\n', '\t', ',', ';', '(', ')', '.', '=', '', '  ', '\r\n', '::', '||', '\x1c', '\xa0', ' ']


def case_text(rng, n=None):
    """Text for str.upper/lower/capitalize: special characters, ASCII letters, separators."""
    n = n if n is not None else rng.choice([0, 1, 1, 2, 3, 4, 6, 9, 14])
    out = []
    for _ in range(n):
        r = rng.random()
        if r < 0.45:
            out.append(rng.choice(SPECIAL))
        elif r < 0.60:
            out.append(rng.choice('abcxyzABCXYZsS iI'))
        elif r < 0.70:
            out.append(rng.choice(WORDS))
        elif r < 0.80:
            out.append(rng.choice(SEPS))
        elif r < 0.93:
            out.append(chr(rng.choice(gens.BOUNDARY_CPS)))
        else:
            out.append(chr(rng.randrange(0, 0x110000)))
    return ''.join(out)


def filter_text(rng):
    """SQL-ish text dense in the tokens the three filters edit."""
    r = rng.random()
    if r < 0.25:
        s, kind = gens.mixed_text(rng)
        return s, kind
    n = rng.choice([1, 2, 3, 4, 6, 9, 14])
    out = []
    for _ in range(n):
        q = rng.random()
        if q < 0.22:
            out.append(rng.choice(WORDS))
        elif q < 0.42:
            out.append(rng.choice(STRINGS))
        elif q < 0.55:
            out.append(rng.choice(QNAMES))
        elif q < 0.72:
            out.append(rng.choice(KWS))
        elif q < 0.80:
            out.append(rng.choice(gens.NAMES + gens.FUNCS + gens.TYPES))
        elif q < 0.86:
            out.append(case_text(rng, rng.choice([1, 2, 3])))
        elif q < 0.92:
            out.append(rng.choice(gens.JUNK))
        else:
            # a random single-quoted literal
            body = ''.join(rng.choice(["a", "b", "''", "\\'", " ", "\n", "Σ", "ß", "[", ".", "x", "'"]) for _ in range(rng.randrange(0, 12)))
            out.append("'" + body + "'")
        out.append(rng.choice(SEPS))
    if r < 0.40:
        g = gens.SqlGen(rng)
        s = gens.render(g.script(), rng, layout=rng.choice(['canon', 'random']), comments=rng.choice([0, 0.1]),
                        recase=rng.choice([None, 'upper', 'lower', 'random']))
        k = rng.randrange(0, len(s) + 1)
        return s[:k] + ' ' + ''.join(out) + s[k:], 'sql+filterdense'
    return ''.join(out), 'filterdense'


CONVS = ['upper', 'lower', 'capitalize']
CHARS = ['[...]', '[...]', '', '…', "'", "''x", '.', '..', "'xyz", 'ß', '\n', ' ']


def options(rng, valid_only=True):
    """(kw, id, tr) in the driver's spelling; tr = '<w>:<cps>' with w > 1 when valid_only."""
    kw = rng.choice(['-'] + CONVS)
    idc = rng.choice(['-'] + CONVS)
    if rng.random() < 0.3:
        tr = '-'
    else:
        w = rng.choice([2, 2, 3, 3, 4, 5, 6, 8, 10, 20, 50]) if valid_only else rng.choice([-3, -1, 0, 0, 1, 1, 2, 3, 5, 9])
        c = rng.choice(CHARS)
        tr = '%d:%s' % (w, ','.join(str(ord(x)) for x in c) if c else '-')
    if kw == idc == tr == '-':
        kw = 'upper'
    return kw, idc, tr


RAW_TYPES = ['Keyword', 'Keyword.DML', 'Keyword.DDL', 'Keyword.TZCast', 'Keyword.Order', 'Name', 'Name', 'Name',
             'Name.Builtin', 'Name.Placeholder', 'Literal.String.Symbol', 'Literal.String.Symbol',
             'Literal.String.Single', 'Literal.String.Single', 'Literal.String.Single', 'Literal.String',
             'Literal', 'Text.Whitespace', 'Text.Whitespace.Newline', 'Punctuation', 'Operator.Comparison',
             'Error', 'Comment.Single', 'Literal.Number.Integer', '', 'Keyword.CTE', 'Wildcard']
RAW_VALUES = ['', ' ', '  \n', '\x1c', '\xa0 ', '"', ' "', ' "a" ', '"abc"', 'a"', ' a', "'", "''", "'''", "''''", "'a'",
              "a'bcdef", "abcdef", "'abcdefgh'", "''abcdefgh''", "''abcdefg'", "'''abcdefgh'''", "ab", "abc", "abcd",
              "'ab''cdef'", 'x']


def raw_tokens(rng):
    n = rng.choice([0, 1, 1, 2, 3, 5, 8])
    toks = []
    for _ in range(n):
        ty = rng.choice(RAW_TYPES)
        r = rng.random()
        if r < 0.45:
            v = rng.choice(RAW_VALUES)
        elif r < 0.7:
            v = rng.choice(WORDS + STRINGS + QNAMES)
        else:
            v = case_text(rng, rng.choice([1, 2, 4]))
        v = v.replace('|', '')
        toks.append((ty, v))
    return '|'.join(ty + ':' + ','.join(str(ord(c)) for c in v) for ty, v in toks) if toks else '-'
