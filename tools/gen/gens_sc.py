"""Generators for the strip_comments checks: texts rich in comments and optimizer hints.

sc_text(rng) -> (text, kind) with the kinds
  every_pos  one comment/hint (or a run of 2-3) inserted at ONE inter-token position of a base statement
             (enumerated systematically by every_position_cases())
  dense      a grammar script with comments in a share p of ALL inter-atom positions (p up to 1.0)
  ends       comments at statement start / end, without final newline, after the last ';'
  junk       token soup spliced with comment pieces
  mixed      gens.mixed_text (comments in 10-30% of the whitespace slots, junk, unicode)
"""
import re

import gens

BLOCK = ['/* c */', '/**/', '/* x; y */', "/* don't */", '/* "q" */', '/* a\n b */', '/* a\r\n b */',
         '/* -- */', '/* select */', '/*c*/', '/* ( */', '/* ) */', '/* \n */', '/* c */\n', '/* c */ \n']
LINE = ['-- c\n', '--c\n', '-- c\r\n', '-- c\r', "-- it's\n", '-- "q\n', '# c\n', '--\n', '-- x; y\n',
        '-- c \n', '-- c\n\n', '-- /* c\n', '-- c\n \n', '--c\r\n\r\n']
LINE_OPEN = ['-- c', '--', '# c', "-- it's", '--+ h']       # no line end: swallow the rest of the line
HINT = ['/*+ h */', '/*+ idx(t) */', '/*+*/', '--+ h\n', '--+ h\r\n', '# + h\n', '#+ h\n', '/*+ a\n b */']
ALL_CLOSED = BLOCK + LINE + HINT

BASES = [
    'select a from b',
    'select a, b from t where x = 1',
    'select (a) from (select 1) t',
    'select f(a, b) from t',
    'select count(*) from t',
    'select case when a then b else c end from t',
    'select a.b, c as d from t1 join t2 on t1.x = t2.y',
    'insert into t (a, b) values (1, 2)',
    'update t set a = 1 where b = 2',
    'delete from t where a in (1, 2)',
    'create table t (a int, b varchar(10))',
    'select a from b; select c from d',
    'select a from b;',
    'select 1',
    'select a + b * c from t',
    "select 'x' || y from t order by z desc",
    'select a from t group by a having count(*) > 1',
    'with q as (select 1) select * from q',
    'select a[1], b::int from t',
    'begin x := 1; end;',
    'if a then b end if',
    'select a from t limit 1',
    '(select 1)',
    'select ()',
    'f(x)',
    'a',
    '(',
    ')',
    'a b',
    'select a from b union select c from d',
    'select x over (partition by y) from t',
    'select * from t where a = 1 and b = 2 or c like \'x\'',
]

_TOK = re.compile(r"\s+|'[^']*'|[A-Za-z_][A-Za-z_0-9]*|\d+|::|:=|\|\||[^\sA-Za-z_0-9]")


def pieces(base):
    return _TOK.findall(base)


def every_position_cases():
    """Deterministic: every base x every inter-piece position (incl. start and end) x every closed
    comment/hint, plus the open line comments at the end."""
    out = []
    for base in BASES:
        ps = pieces(base)
        for i in range(len(ps) + 1):
            for c in ALL_CLOSED:
                out.append(''.join(ps[:i]) + c + ''.join(ps[i:]))
        for c in LINE_OPEN:
            out.append(base + c)
            out.append(base + ' ' + c)
    return out


def comment(rng, closed=True):
    r = rng.random()
    if r < 0.40:
        return rng.choice(BLOCK)
    if r < 0.75:
        return rng.choice(LINE)
    if r < 0.95 or closed:
        return rng.choice(HINT)
    return rng.choice(LINE_OPEN)


def comment_run(rng):
    n = rng.choice([1, 1, 1, 2, 2, 3, 4])
    out = []
    for k in range(n):
        if k and rng.random() < 0.4:
            out.append(rng.choice([' ', '\n', '  ', '\t', '\r\n', ' \n ']))
        out.append(comment(rng))
    return ''.join(out)


def every_pos_random(rng):
    if rng.random() < 0.5:
        base = rng.choice(BASES)
    else:
        g = gens.SqlGen(rng, max_depth=2)
        base = gens.render(g.script(rng.choice([1, 1, 2])), rng, layout=rng.choice(['canon', 'canon', 'random']))
    ps = pieces(base)
    k = rng.choice([1, 1, 2, 3])
    for _ in range(k):
        i = rng.randrange(0, len(ps) + 1)
        ps = ps[:i] + [comment_run(rng)] + ps[i:]
    return ''.join(ps)


def dense(rng):
    g = gens.SqlGen(rng, max_depth=rng.choice([1, 2, 3]))
    atoms = g.script(rng.choice([1, 1, 2, 3]))
    p = rng.choice([0.1, 0.3, 0.6, 1.0])
    layout = rng.choice(['canon', 'random'])
    out = []
    for kind, text in atoms:
        if kind in ('ws1', 'ws0'):
            if kind == 'ws1':
                s = ' ' if layout == 'canon' else rng.choice(gens.WS_CHOICES)
            else:
                s = '' if layout == 'canon' else rng.choice(['', '', ''] + gens.WS_CHOICES)
            if rng.random() < p:
                c = comment_run(rng)
                s = rng.choice([s + c, c + s, s + c + s, c])
                if kind == 'ws1' and c.endswith('*/') and rng.random() < 0.7 and not s[-1].isspace():
                    s += ' '
            out.append(s)
        else:
            if rng.random() < p * 0.3:
                out.append(comment_run(rng))
            out.append(text)
    return ''.join(out)


def ends(rng):
    g = gens.SqlGen(rng, max_depth=2)
    body = gens.render(g.script(rng.choice([1, 2])), rng, layout=rng.choice(['canon', 'random']),
                       comments=rng.choice([0, 0.2]))
    pre = comment_run(rng) if rng.random() < 0.6 else ''
    post = comment_run(rng) if rng.random() < 0.7 else ''
    if rng.random() < 0.4:
        post += rng.choice(LINE_OPEN)
    sep = rng.choice(['', ' ', '\n', ';', '; ', ';\n'])
    return pre + rng.choice(['', ' ', '\n']) + body + sep + post


PIECES = ['/*', '*/', '/*+', '--', '--+', '-- ', '# ', '#', '\n', '\r\n', '\r', ' ', '(', ')', ',', ';', "'", '"',
          'a', 'b', 'select', 'from', '1', '*', '/', '+', '-', 'c */', '/* c', 'case', 'end', 'when', 'f(', ' ', ' ']


def junk(rng):
    n = rng.choice([2, 3, 5, 8, 12, 20])
    out = []
    for _ in range(n):
        r = rng.random()
        if r < 0.35:
            out.append(comment(rng, closed=False))
        elif r < 0.7:
            out.append(rng.choice(PIECES))
        else:
            out.append(rng.choice(gens.JUNK))
    return ''.join(out)


def sc_text(rng):
    r = rng.random()
    if r < 0.30:
        return every_pos_random(rng), 'every_pos'
    if r < 0.60:
        return dense(rng), 'dense'
    if r < 0.72:
        return ends(rng), 'ends'
    if r < 0.87:
        return junk(rng), 'junk'
    s, k = gens.mixed_text(rng)
    return s, 'mixed:' + k
