"""C11 generator: one script (list of atoms, tools/gen/gens.py) rendered under TWO layouts that agree on
WHERE whitespace is non-empty.

A case is a list of ITEMS  (kind, a, b, atom_id):  the text of the item in the original / in the respelled script.
  kind 'ws'   : whitespace slot between two atoms (a, b both non-empty runs over WS_UNITS, or both '')
  kind 'kwws' : the whitespace inside a multi-word keyword atom (ORDER BY, END IF, LEFT OUTER JOIN ...)
  kind 'kw'   : one word of a keyword atom (b = a re-cased, ASCII letters only)
  kind 'fix'  : anything else (names, literals, operators, punctuation, comments): a == b
"""
import random

import gens
from gens import kw, nm, WS0, WS1

WS_UNITS = [' ', ' ', ' ', '\t', '\n', '\r\n']


def ws_run(r, maxlen=3):
    return ''.join(r.choice(WS_UNITS) for _ in range(r.choice([1, 1, 1, 2, 2, 3][:maxlen * 2])))


def ws_run_long(r):
    """mostly short; one in twelve uses a bare CR / FF / VT; one in six is a run of 4-9 units, one in forty a run of 65-260 units (a bounded quantifier on a \\s+ of a multi-word keyword rule
    shows only on a long run; the unbounded statement is C11_first_match_run)"""
    x = r.random()
    if x > 1 - 1 / 12:      # the other characters of \s, alone (a bare CR, FF, VT) and next to the usual ones
        return r.choice(['\r', '\x0c', '\x0b', ' \r', '\r\t', '\x0c\n'])
    if x < 1 / 40:
        return ''.join(r.choice(WS_UNITS) for _ in range(r.choice([65, 70, 130, 260])))
    if x < 1 / 6:
        return ''.join(r.choice(WS_UNITS) for _ in range(r.randint(4, 9)))
    return ws_run(r)


def recase(r, s, mode):
    if mode == 'upper':
        return s.upper() if s.isascii() else s
    if mode == 'lower':
        return s.lower() if s.isascii() else s
    return ''.join((ch.upper() if r.random() < 0.5 else ch.lower()) if ch.isascii() else ch for ch in s)


class C11Gen(gens.ProcGen):
    """The verification grammar plus the constructs C11 names: GO separators, END IF/LOOP/WHILE blocks at
    top level, NULLS FIRST, window clauses, spaced qualified names, LATERAL VIEW, AT TIME ZONE, typed
    columns with DOUBLE PRECISION / PRIMARY KEY, CREATE OR REPLACE ... AS SELECT f(x)."""

    def qualified(self):
        out = self.ident()
        if self.r.random() < 0.3:
            dot = [('punct', '.')]
            if self.r.random() < 0.15:
                dot = [WS0, ('punct', '.'), WS0]
            out = self.ident() + dot + out
        return out

    def select(self, d=0):
        out = super().select(d)
        r = self.r.random()
        if r < 0.05:
            out += [WS1, kw('ORDER BY'), WS1] + self.qualified() + \
                [WS1, kw(self.r.choice(['NULLS FIRST', 'NULLS LAST', 'ASC NULLS LAST', 'DESC']))]
        elif r < 0.08:
            out += [WS1, kw('LATERAL VIEW EXPLODE'), ('punct', '('), nm('x'), ('punct', ')'), WS1, nm('t')]
        elif r < 0.11:
            k = self.r.choice(['ORDER BY', 'GROUP BY', 'UNION ALL', 'UNION', 'LIMIT', 'HAVING'])
            out += [WS1, kw('WHERE'), WS1] + self.cond(2) + [WS1, kw(k), WS1] + \
                (self.select(d + 2) if k.startswith('UNION') else self.number() if k == 'LIMIT' else self.qualified())
        return out

    def expr(self, d=0):
        r = self.r.random()
        if r < 0.02:
            return self.qualified() + [WS1, kw("AT TIME ZONE 'utc'")]
        if r < 0.04:
            return [nm(self.r.choice(gens.FUNCS)), ('punct', '('), WS0] + self.qualified() + [WS0, ('punct', ')'),
                                                                                              WS1, kw('OVER'), WS0, ('punct', '('), WS0, kw('PARTITION BY'), WS1] + self.qualified() + \
                [WS1, kw('ORDER BY'), WS1] + self.qualified() + [WS0, ('punct', ')')]
        return super().expr(d)

    def create_table(self, d=0):
        r = self.r.random()
        if r < 0.25:
            return [kw(self.r.choice(['CREATE', 'CREATE OR REPLACE'])), WS1, kw('TABLE'), WS1, nm('foo'), WS1,
                    kw('AS'), WS1, kw('SELECT'), WS1] + self.funcall(2) + [WS1, kw('FROM'), WS1, nm('t')]
        if r < 0.35:
            return [kw('CREATE'), WS1, kw('TABLE'), WS1, nm('t'), WS0, ('punct', '('), WS0, nm('a'), WS1,
                    kw('DOUBLE PRECISION'), WS1, kw('NOT NULL'), WS0, ('punct', ','), WS0, nm('b'), WS1, nm('int'),
                    WS1, kw('PRIMARY KEY'), WS0, ('punct', ')')]
        return super().create_table(d)

    def top_block(self):
        """a procedural block outside CREATE"""
        r = self.r.random()
        semi = [WS0, ('punct', ';')]
        if r < 0.3:
            return [kw('IF'), WS1] + self.cond(2) + [WS1, kw('THEN'), WS1] + self.simple_stmt() + semi + \
                [WS1, kw('END IF')]
        if r < 0.5:
            return [kw('BEGIN'), WS1] + self.simple_stmt() + semi + [WS1, kw('END')]
        if r < 0.7:
            return [kw('FOR'), WS1, nm('i'), WS1, kw('IN'), WS1, nm('r'), WS1, kw('LOOP'), WS1] + \
                self.simple_stmt() + semi + [WS1, kw('END LOOP')]
        if r < 0.85:
            return [kw('WHILE'), WS1] + self.cond(2) + [WS1, kw('LOOP'), WS1] + self.simple_stmt() + semi + \
                [WS1, kw('END LOOP')]
        return [kw('DECLARE'), WS1, nm('c'), WS1, kw('CURSOR'), WS1, kw('FOR'), WS1] + self.select(2)

    def script11(self):
        r = self.r.random()
        n = self.r.choice([1, 1, 2, 2, 3])
        out = []
        if self.r.random() < 0.15:
            out += [WS1]
        for i in range(n):
            q = self.r.random()
            if q < 0.12:
                s = self.create()
                # create() ends with END ;  -- strip the final ';' (the separator adds one)
                if s and s[-1] == ('punct', ';'):
                    s = s[:-2] if s[-2] == WS0 else s[:-1]
            elif q < 0.22:
                s = self.top_block()
            else:
                s = self.statement()
            out += s
            last = i == n - 1
            q = self.r.random()
            if q < 0.1:
                out += [WS1, kw(self.r.choice(['GO', 'GO', 'GO 2'])), WS1]
            elif last and q < 0.3:
                pass
            else:
                out += [WS0, ('punct', ';'), WS0]
                if q > 0.9:
                    out += [('comment', self.r.choice(['-- c\n', '/* c */', '--+ h\n', '# c\n'])), WS0]
        return out


def items_of(atoms, r, p_ws0=0.35, case_modes=('same', 'upper', 'lower', 'random'), what=('ws', 'kwws', 'kw')):
    """Two renderings of the atoms.  `what`: which of the three respellings are applied."""
    items = []
    ca, cb = r.choice(['asis', 'upper', 'lower', 'random']), r.choice(case_modes)
    for aid, (kind, text) in enumerate(atoms):
        if kind == 'ws1' or (kind == 'ws0' and r.random() < p_ws0):
            a = ws_run(r)
            b = ws_run(r) if 'ws' in what else a
            items.append(('ws', a, b, aid))
        elif kind == 'ws0':
            items.append(('ws', '', '', aid))
        elif kind == 'kw':
            words = text.split(' ')
            for i, w in enumerate(words):
                if i:
                    a = ' ' if r.random() < 0.7 else ws_run(r)
                    b = ws_run_long(r) if 'kwws' in what else a
                    items.append(('kwws', a, b, aid))
                if w.startswith("'"):      # the literal inside AT TIME ZONE '...' is part of the token, not re-cased
                    items.append(('fix', w, w, aid))
                    continue
                wa = w if ca == 'asis' else recase(r, w, ca)
                wb = wa if (cb == 'same' or 'kw' not in what) else recase(r, w, cb)
                items.append(('kw', wa, wb, aid))
        else:
            items.append(('fix', text, text, aid))
    return items


def texts_of(items):
    return ''.join(i[1] for i in items), ''.join(i[2] for i in items)


def case11(r):
    g = C11Gen(r, full=True, max_depth=r.choice([1, 2, 2, 3]))
    atoms = g.script11()
    what = r.choice([('ws',), ('kwws',), ('kw',), ('ws', 'kwws', 'kw'), ('ws', 'kwws', 'kw')])
    return items_of(atoms, r, what=what), '+'.join(what)
