"""Generators for the output_format slice: multi-statement scripts, newlines inside statements, quotes and
backslashes in literals, comments, empty statements, line-boundary characters, junk; valid option sets."""
import gens
import gens_reindent
import gens_tokfilters

PIECES = ['select', 'SELECT', 'from', 'where', 'a', 'b', 't', 'x1', '1', '2.5', '*', ',', '=', '(', ')', ';', ';', ';',
          ' ', ' ', ' ', '  ', '\t', '\n', '\n', '\n  ', '\r\n', '\r', '\n\n', ' \n', '\x0b', '\x0c', '\x1c', '\x1d',
          '\x1e', '\x85', ' ', ' ', '\xa0', "'", "''", "'x'", "'it''s'", "'a\\'", "'a\\'b'", "'a\nb'", '"',
          '""', '"q"', '"a\\"b"', '"a\nb"', '"""', "'''", '\\', '\\\\', '\\n', "\\'", '\\"', '`', '`a`', '$', '$x',
          '$sql', '{x}', '%s', '-- c', '-- c\n', "-- it's\n", '--\n', '# c\n', '/* c */', '/* a\nb */', "/* ' */",
          '/* " */', '/*', '*/', 'é', 'ß', '\U0001f600', '\x00', 'sql', 'sql2', 'begin', 'end', 'create', 'table',
          'and', 'or', 'join', 'group by', 'order by', 'case', 'when', 'then', 'else', 'insert', 'into', 'values',
          'update', 'set', 'f(', 'x.y', '::', 'as']

LITS = ["'x'", "'it''s'", "'a\\'", "'a\\\\'", "'a\\'b'", "'a\nb'", "'a\r\nb'", '"q"', '"a\\"b"', '"a\nb"', '"""x"""',
        "'''x'''", "'\\n'", "'\\'", "'$x'", "'{$x}'", '"$x"', "'\\x41'", "E'\\''", "'%s'", "''", '""', "'\"'", '"\'"',
        "'a;b'", "'/*'", "'--'", "' '"]


def soup(rng):
    n = rng.choice([1, 2, 3, 5, 8, 12, 20, 30])
    return ''.join(rng.choice(PIECES) for _ in range(n))


def stmt_with_lits(rng):
    """a small statement with literals from LITS, newlines inside, optional comment"""
    g = gens.SqlGen(rng, max_depth=1)
    parts = ['select', rng.choice([' ', '\n', '\n  ', ' \n', '\r\n', '\t'])]
    k = rng.choice([1, 1, 2, 3])
    items = []
    for _ in range(k):
        items.append(rng.choice(LITS + ['a', 'b', '1', 'f(x)', 'x.y']))
    parts.append(rng.choice([', ', ',\n       ', ',', ' , ']).join(items))
    if rng.random() < 0.7:
        parts += [rng.choice([' ', '\n', '\n  ', '\r\n']), 'from', ' ', rng.choice(['t', 'u', '"t"', 't x'])]
    if rng.random() < 0.4:
        parts += [rng.choice([' ', '\n', '\n  ']), 'where', ' ', 'c', rng.choice(['=', ' = ', ' like ']), rng.choice(LITS),
                  rng.choice(['', ' and d=2', '\n  and d = 2'])]
    if rng.random() < 0.25:
        parts.insert(rng.randrange(1, len(parts)), rng.choice([' -- c\n', ' /* c */ ', "-- it's\n", '/* a\nb */', '--x']))
    return ''.join(parts)


def script_with_lits(rng):
    n = rng.choice([1, 1, 2, 2, 3, 4, 6, 11])
    out = []
    if rng.random() < 0.2:
        out.append(rng.choice(['\n', ' ', '\n\n', '  \n']))
    for i in range(n):
        r = rng.random()
        if r < 0.1:
            out.append('')                       # empty statement
        elif r < 0.2:
            out.append(rng.choice(['a', '1', 'x y', '-- c', '/* c */']))
        else:
            out.append(stmt_with_lits(rng))
        last = i == n - 1
        if not last or rng.random() < 0.6:
            out.append(rng.choice([';', ';', ';\n', ';\n\n', '; ', ' ;\n', ';;', ';\r\n', '; -- c\n', ';\n-- c\n']))
        elif rng.random() < 0.4:
            out.append(rng.choice(['\n', ' ', '\n\n', ' \n ']))
    return ''.join(out)


def gen_text(rng):
    """-> (text, kind)"""
    r = rng.random()
    if r < 0.22:
        return script_with_lits(rng), 'script-lits'
    if r < 0.40:
        g = gens.SqlGen(rng, max_depth=rng.choice([1, 2, 3]))
        return gens.render(g.script(), rng, layout=rng.choice(['canon', 'random', 'random']),
                           comments=rng.choice([0, 0, 0.1, 0.3]),
                           recase=rng.choice([None, 'upper', 'lower', 'random'])), 'grammar-script'
    if r < 0.48:
        g = gens.ProcGen(rng)
        pre, c, post = g.script_with_create()
        return gens.render(pre + c + post, rng, layout=rng.choice(['canon', 'random']),
                           comments=rng.choice([0, 0.1])), 'proc-script'
    if r < 0.60:
        return gens_reindent.gen_text(rng)[0], 'reindent-constructs'
    if r < 0.78:
        return soup(rng), 'soup'
    if r < 0.88:
        return gens.junk(rng), 'junk'
    if r < 0.93:
        return gens.uni(rng), 'uni'
    s = script_with_lits(rng)
    k = rng.randrange(0, len(s) + 1)
    return s[:k] + rng.choice([soup, gens.junk])(rng)[:12] + s[k:], 'script+junk'


def gen_opts_modelled(rng, fmt=None):
    """A valid option set whose filters are all modelled (Filters/Output.v cur_format)."""
    o = {}
    f = fmt or rng.choice(['python', 'php'])
    o['output_format'] = f
    r = rng.random()
    if r < 0.25:
        return o
    if rng.random() < 0.35:
        kw, idc, tr = gens_tokfilters.options(rng)
        if kw != '-':
            o['keyword_case'] = kw
        if idc != '-':
            o['identifier_case'] = idc
        if tr != '-':
            w, c = tr.split(':', 1)
            o['truncate_strings'] = int(w)
            o['truncate_char'] = '' if c == '-' else ''.join(chr(int(x)) for x in c.split(','))
    if rng.random() < 0.4:
        o['strip_comments'] = True
    if rng.random() < 0.4:
        o['strip_whitespace'] = True
    if rng.random() < 0.45:
        o['reindent'] = True
        o.update(gens_reindent.gen_opts(rng))
    return o


def gen_opts_any(rng):
    """Any valid option set of the documented options (docs/source/api.rst; also the filters that are not modelled:
    use_space_around_operators, reindent_aligned) plus the undocumented but functional strip_whitespace,
    indent_after_first, indent_columns.  right_margin is NOT generated: it is undocumented and
    RightMarginFilter.process raises NotImplementedError unconditionally."""
    o = gen_opts_modelled(rng, rng.choice(['python', 'php', 'python', 'php', 'sql', None]))
    if o.get('output_format') is None:
        o.pop('output_format', None)
    if rng.random() < 0.2:
        o['use_space_around_operators'] = True
    if rng.random() < 0.2:
        o['reindent_aligned'] = True
    if rng.random() < 0.1:
        o['indent_columns'] = True
    return o
