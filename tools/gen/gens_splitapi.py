"""Generators for the split() checks (C04): scripts under every separator layout, separator soup,
unicode whitespace, empty / whitespace-only / semicolon-only inputs.  All randomness from one rng."""
import gens

UNI_WS = ['\x85', ' ', ' ', '\x1c', '\x1d', '\x1e', '\x1f', '\xa0', '　', ' ',
          ' ', ' ', ' ', ' ', '\x0b', '\x0c']
ASCII_WS = [' ', ' ', '\n', '\t', '\r', '\r\n', '  ', ' \n']
SEPARATORS = [';', ';', ';', ' ;', '; ', ';\n', '\n;\n', ';;', ';;;', '; ;', ';\r\n', ';\t',
              '\nGO\n', ' GO ', '\ngo\n', ' GO 2\n', '\nGO 10 ', ';\nGO\n', 'GO', ' go;',
              '; -- c\n', ';-- c\r\n', '; # c\n', ';# \n', ';# ', '; /* c */ ', ';/*c*/', '; --\n', ';--+ h\n',
              ';\n-- a\n-- b\n', ';# a\n# \n', '; \x85', '; ', ';\xa0', ';　\n', '\x1c;\x1d']
TAILS = ['', '', ';', ' ', '\n', ';\n', '; ', ' ;', ';;', '\x85', ' ', ';\xa0', '; -- end', '; -- end\n',
         ';# ', ';# \n', '; # x', '\nGO', '\nGO\n', ' GO 3', '\t', '\x1f', '; /* x */', ';/*x*/\n', ' --', ' # ']
HEADS = ['', '', '', ' ', '\n', '\t', '\x85', ' ', '\xa0', '　', '-- head\n', '/* head */ ', '# h\n', ';', ' ;',
         '\x1c\x1d\x1e\x1f', '\r\n']
FRAG = ['select 1', 'select * from t', 'a', 'x', 'insert into t values (1;2)', 'update t set a = \'x;y\'',
        'select "a;b"', 'select $$a;b$$', 'select $t$ ; $t$', 'begin', 'end', 'create table t (a int)',
        'create function f() begin select 1; end', 'create or replace procedure p as declare x int; begin null; end',
        'case when 1 then 2 end', 'if x then y; end if', '(', ')', '((', '[a;b]', '[', '`a;b`', "'", '"', '$$',
        'for i in 1..2 loop x; end loop', 'while x', 'declare', 'select /* ; */ 1', 'select -- ; \n 1',
        'select # ; \n 1', '#', '# ', '--', '/*', '*/', '$a$', ':a', '?', '.5', '1.', 'x.y', 'GO', 'go 2', 'goto',
        'é', 'À1', '\ud800', '\x00', '@v', '\\d', 'drop table x', 'delete from t', '1', 'x=1', 'f(a;b)', 'end;', ';',
        'with x as (select 1) select * from x', 'a\x85b', 'a b', 'a\xa0b']


def ws(rng, uni=0.25):
    n = rng.choice([0, 1, 1, 1, 2, 3])
    return ''.join(rng.choice(UNI_WS) if rng.random() < uni else rng.choice(ASCII_WS) for _ in range(n))


def script_layouts(rng):
    """A grammar script rendered with random separators (all layouts), head and tail."""
    g = gens.SqlGen(rng)
    n = rng.choice([1, 2, 2, 3, 4, 6])
    parts = []
    for i in range(n):
        if rng.random() < 0.7:
            st = gens.render(g.statement(), rng, layout=rng.choice(['canon', 'random']),
                             comments=rng.choice([0, 0, 0.2]), recase=rng.choice([None, 'lower', 'random']))
        else:
            st = rng.choice(FRAG)
        parts.append(st)
        if i < n - 1:
            parts.append(rng.choice(SEPARATORS))
    return rng.choice(HEADS) + ''.join(parts) + rng.choice(TAILS)


def proc_layouts(rng):
    g = gens.ProcGen(rng)
    pre, c, post = g.script_with_create()
    s = gens.render(pre + c + post, rng, layout=rng.choice(['canon', 'random']), comments=rng.choice([0, 0.1]),
                    recase=rng.choice([None, 'random', 'lower']))
    return rng.choice(HEADS) + s + rng.choice(TAILS)


def sep_soup(rng):
    """Fragments, separators and whitespace in random order (short, so the splitter's corner cases dominate)."""
    n = rng.choice([1, 2, 3, 4, 6, 9])
    out = []
    for _ in range(n):
        r = rng.random()
        if r < 0.35:
            out.append(rng.choice(FRAG))
        elif r < 0.65:
            out.append(rng.choice(SEPARATORS))
        elif r < 0.8:
            out.append(ws(rng, 0.5))
        elif r < 0.9:
            out.append(rng.choice(TAILS))
        else:
            out.append(rng.choice(gens.JUNK))
    return ''.join(out)


def ws_only(rng):
    n = rng.choice([0, 0, 1, 2, 3, 5, 9])
    return ''.join(rng.choice(UNI_WS + ASCII_WS) for _ in range(n))


def semis_only(rng):
    n = rng.choice([1, 2, 3, 4, 7])
    out = []
    for _ in range(n):
        out.append(';')
        if rng.random() < 0.4:
            out.append(ws(rng, 0.5))
    return (ws(rng, 0.5) if rng.random() < 0.3 else '') + ''.join(out)


# the two known re-split failure mechanisms, planted
def planted(rng):
    r = rng.random()
    a = rng.choice(FRAG)
    b = rng.choice(FRAG)
    if r < 0.5:      # `# ` comment with an all-whitespace body after a terminator
        body = ''.join(rng.choice([' ', '\t', '\xa0', '\x85', ' ', '\x1c']) for _ in range(rng.choice([0, 0, 1, 2])))
        end = rng.choice(['', '\n', '\r\n', '\r', '\n ' + b, '\n' + b + ';'])
        return a + rng.choice([';', ' ;', '; ', '\nGO\n', ';-- x\n']) + '# ' + body + end
    # GO / GO n immediately followed by a token with a look-behind
    go = rng.choice(['GO', 'go', 'GO 2', 'GO 10'])
    nxt = rng.choice(['[(];x', '[a]', ':a', ':create x begin ;y', '$a$($a$;x', '$1', '$a$GO 2 .5', '[', ':', '(', '"', "'x'",
                      '.5', '-1', '/*c*/', '--c\n', '@v', '?', '%s', '*', '::', ':=', '[(;)]', ':begin ;'])
    return rng.choice(['', a + ';', a + ' ']) + go + nxt + rng.choice(['', ';', ' ' + b])


KINDS = [('layouts', script_layouts, 0.30), ('proc', proc_layouts, 0.08), ('sepsoup', sep_soup, 0.22),
         ('mixed', lambda r: gens.mixed_text(r)[0], 0.15), ('uni', gens.uni, 0.05), ('ws_only', ws_only, 0.04),
         ('semis_only', semis_only, 0.04), ('planted', planted, 0.12)]


def split_text(rng):
    x = rng.random()
    acc = 0.0
    for name, fn, w in KINDS:
        acc += w
        if x < acc:
            return fn(rng), name
    return sep_soup(rng), 'sepsoup'
