"""Generators for the aligned-indent slice (format(text, reindent_aligned=True)): grammar scripts in
several renderings, focused constructs (CASE with several WHEN, BETWEEN .. AND, identifier lists,
sub-queries in parentheses, joins, insert/update/delete, comments) and junk / keyword soup that
exercises the exception paths."""
import gens
import gens_reindent as gr

CONSTRUCTS = ['select', 'join', 'where', 'between', 'group', 'union', 'subquery', 'case', 'function',
              'insert', 'update', 'delete', 'create', 'comment', 'with', 'script', 'junk', 'uni', 'sql+junk',
              'kwsoup', 'casesoup', 'idlist', 'case-multi', 'between-multi', 'exn-shape']

# keyword soup biased towards what AlignedIndentFilter looks at: CASE/WHEN/THEN/ELSE/END, the split words
# (substring search: ORDER contains OR, UNION contains ON, HANDLER contains AND ...), parentheses with SELECT
CASESOUP = ['case', 'case', 'when', 'when', 'then', 'then', 'else', 'end', 'end', 'where', 'as', 'select',
            '(select', '(', ')', ')', ',', ',', 'a', 'b', 'x.y', '1', "'s'", '=', 'and', 'or', 'between', 'from',
            'group by', 'order by', 'group\tby', 'order  by x', 'left join', 'cross join', 'natural join',
            'straight_join', 'join', 'on', 'union', 'union all', 'values', 'set', 'except', 'having', 'limit',
            'order', 'handler', 'format', 'function', 'constraint', 'action', 'offset', 'asc', 'in', 'not', 'null',
            'is', 'like', 'over', 'if', 'for', 'loop', 'begin', 'while', 'declare', 'returning', 'into', 'update',
            'insert', 'delete', 'create', 'table', 'with', '::int', '[1]', '--c\n', '/* c */', '\n', ' ', ';',
            'f(', 'count(*)', 'e', 't', 'unıon', 'ſet', 'distinct', 'using', 'by', 'all', 'window', 'partition by']


def casesoup(rng):
    n = rng.choice([2, 3, 4, 6, 9, 14])
    return ' '.join(rng.choice(CASESOUP) for _ in range(n))


def _render(atoms, rng):
    return gens.render(atoms, rng, layout=rng.choice(['canon', 'canon', 'random']),
                       comments=rng.choice([0, 0, 0, 0.1, 0.3]),
                       recase=rng.choice([None, 'upper', 'lower', 'random']))


def case_multi(g, rng):
    out = [gens.kw('SELECT'), gens.WS1]
    for i in range(rng.choice([1, 2])):
        if i:
            out += [gens.WS0, ('punct', ','), gens.WS0]
        c = [gens.kw('CASE')]
        if rng.random() < 0.3:
            c += [gens.WS1] + g.qualified()
        for _ in range(rng.choice([2, 3, 4])):
            c += [gens.WS1, gens.kw('WHEN'), gens.WS1] + g.cond(g.max_depth) + [gens.WS1, gens.kw('THEN'), gens.WS1] + \
                g.expr(g.max_depth)
        if rng.random() < 0.6:
            c += [gens.WS1, gens.kw('ELSE'), gens.WS1] + g.expr(g.max_depth)
        c += [gens.WS1, gens.kw('END')]
        out += c + g.alias()
    out += [gens.WS1, gens.kw('FROM'), gens.WS1] + g.ident()
    return out


def between_multi(g, rng):
    out = [gens.kw('SELECT'), gens.WS1] + g.qualified() + [gens.WS1, gens.kw('FROM'), gens.WS1] + g.ident() + \
        [gens.WS1, gens.kw('WHERE'), gens.WS1]
    for i in range(rng.choice([1, 2, 3])):
        if i:
            out += [gens.WS1, gens.kw(rng.choice(['AND', 'OR'])), gens.WS1]
        out += g.qualified() + [gens.WS1] + ([gens.kw('NOT'), gens.WS1] if rng.random() < 0.2 else []) + \
            [gens.kw('BETWEEN'), gens.WS1] + g.literal() + [gens.WS1, gens.kw('AND'), gens.WS1] + g.literal()
    return out


def idlist(g, rng):
    out = [gens.kw('SELECT'), gens.WS1]
    for i in range(rng.choice([2, 3, 5, 8])):
        if i:
            out += [gens.WS0, ('punct', ','), gens.WS0]
        out += g.select_item(g.max_depth)
    out += [gens.WS1, gens.kw('FROM'), gens.WS1]
    for i in range(rng.choice([1, 2, 3])):
        if i:
            out += [gens.WS0, ('punct', ','), gens.WS0]
        out += g.table_ref(g.max_depth)
    if rng.random() < 0.5:
        out += [gens.WS1, gens.kw(rng.choice(['GROUP BY', 'ORDER BY'])), gens.WS1] + g.qualified() + \
            [gens.WS0, ('punct', ','), gens.WS0] + g.qualified()
    return out


def exn_shape(g, rng):
    """shapes around the two known crash mechanisms: a CASE whose END is swallowed by a later grouping pass
    (END as alias / after '::' / in an identifier list / inside a Where), and '(' <as|::|:=> ')'."""
    if rng.random() < 0.25:
        ws = lambda: rng.choice(['', '', ' ', '\n'])
        inner = rng.choice(['as', '::', ':=', 'as', 'AS', 'a as', 'as b', ''])
        return rng.choice(['', 'select ', 'f', 'select f', 'x in ']) + '(' + ws() + inner + ws() + ')' + \
            rng.choice(['', ' from t', ' x'])
    head = rng.choice(['case', 'case', 'select case', 'select a, case', 'CASE x'])
    body = ''
    for _ in range(rng.choice([0, 1, 1, 2])):
        body += ' when ' + rng.choice(['a', 'a = 1', 'x between 1 and 2']) + ' then ' + rng.choice(['b', '1', "'s'", 'f(x)'])
    if rng.random() < 0.3:
        body += ' else ' + rng.choice(['c', '0'])
    sw = rng.choice([' as', '::', ' ,', ',', ' where', ' where x and', ' as b,', ' as', ' .', '.', ' :=', ' or', ' =', ' in',
                     ' over', ' for', ' if', ' from t where', ' -', ' *', ' interval', ' not', ' is'])
    tail = rng.choice(['', '', ' from t', ' x', ', b from t', ' end', ' when y then z end'])
    sep = rng.choice([' ', ' ', '\n', ''])
    return head + body + sw + sep + rng.choice(['end', 'END', 'End']) + tail


def gen_text(rng):
    """-> (text, construct)"""
    r = rng.random()
    g = gens.SqlGen(rng, max_depth=rng.choice([1, 2, 3]))
    if r < 0.06:
        return exn_shape(g, rng), 'exn-shape'
    if r < 0.62:
        return gr.gen_text(rng)
    if r < 0.67:
        return _render(g.delete(), rng), 'delete'
    if r < 0.74:
        return _render(case_multi(g, rng), rng), 'case-multi'
    if r < 0.80:
        return _render(between_multi(g, rng), rng), 'between-multi'
    if r < 0.86:
        return _render(idlist(g, rng), rng), 'idlist'
    return casesoup(rng), 'casesoup'
