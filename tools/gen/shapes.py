"""By-construction input shapes that lie outside the grammars of the random generators: one or two texts per lexer rule
family / grouping feature that the generators render in one spelling only (white space inside multi-token lexer rules,
escapes inside quoted names, crossing brackets, trailing keywords inside argument lists, the other characters of \\s, ...).

They are used by the SEARCH stage only (tools/check.py hands them to every property's search() behind the disagreeing
inputs of the correspondence), i.e. only when a proof obligation or the correspondence is already broken and a concrete
failing input is looked for.  On the unchanged tree every one of them passes every property oracle that search() applies
(tools/misc/validate_shapes.py checks that; a shape that fails an oracle there is listed in EXCLUDE for that property,
it would be an input that fails with or without the change)."""

SHAPES = [
    # white space inside lexer rules that span several words / a word and a literal
    "select bar at time zone  'UTC' as foo",
    "select ts AT TIME ZONE\n    'Europe/Berlin' AS local_ts from t",
    "select a from t where x = 1 order\rby a",
    "select a from t where x = 1 group\x0cby a order  by a",
    "if a then b end\nif",
    "for i in 1..3 loop x := i; end\tloop; while a loop b; end loop;",
    "create  or\nreplace view v as select 1",
    "select a from t union\tall select b from u",
    # escapes and line breaks inside quoted names and literals
    'select x as "it\\"s\r\nhere", y from t where y = 1',
    'select x as "odd \\" name \t\n", y from t',
    'select "a""b", other from tbl',
    'update "a""b" set c = 1',
    'select * from a join "a""b" on 1 = 1',
    "select `x``y` from t",
    "select '''x'; select 2",
    "select '''' as q; select ''''; select 3",
    "select E'a\\'b', N'x', X'1F', b'01' from t",
    "select 'a\nb', 'c\r\nd' from t",
    # brackets that cross or do not close
    "select a[f(1]), b from t",
    "select a[1 + (2] ) , b, c, d from t",
    "select [a]]b] from t",
    "select [unclosed from t",
    "select (1, (2, (3))) from ((((t))))",
    # argument lists with trailing keywords, functions and what looks like one
    "select convert(a, b using utf8) from t",
    "select listagg(name, ';' on overflow truncate) from t",
    "select f\n(1), g (2) from t",
    "insert into foo\n(a, b) values (1, 2)",
    "create table t (c1 int, c2 int) as select f(1) from u",
    "select * from t WHERE(a=1)AND(b=2)",
    "select case when(c) then(1) else(2) end from t",
    "select count(*) over(partition by a order by b rows between 1 preceding and current row) from t",
    # statements that start with / contain block keywords that open nothing
    "CREATE TABLE t (a int); BEGIN; select 1; COMMIT;",
    "CREATE INDEX i ON t (a);\tBEGIN TRANSACTION; select 1; COMMIT;",
    "alter table t add begin int; select 2",
    "ALTER TABLE t RENAME COLUMN a TO declare; select 2; select 3",
    "(select 1) union (select 2)",
    "select 1;;; ; select 2 ;",
    # comments
    "select 1 /*/ x; y */; select 2",
    "select 1 /* a /* b */; select '*/'; select 3",
    "/*!50003 select 1 */; select 2",
    "select 'x' #\n",
    "select 5 #\n 3; select 2",
    "select a -- c1\n, b /* c2 */ from t -- end",
    "select -- c\r\n1; select 2--\r3",
    "select /*+ hint */ a from t --+ hint2\n",
    # operators, placeholders, numbers, qualified names
    "select * from t where a <=> b and c !~~ d and e == f and g <> h",
    "select a +\nb, c\n- d from t",
    "select :'var', :\"v\", a::text, b :: int from t",
    "select @x, @@version, ?1, $1, :name, %s, %(n)s from t",
    "select 1e5, 1.5e-3, .5, 0x1F, 1., -1, +2 from t",
    "select schema. name, s .n, a.b.c, a.*, \"q\".\"r\" as s2 from v",
    "select timestamp '2020-01-01', date '2020-01-01', interval '1' day from t",
    "select $tag$ body; $tag$, $$x$$ from t",
    # other white space
    "select\x0ba\x0cfrom t",
    "select a from t",
    "select ı from claß where ﬁ = ſelect",
    # clause structure
    "select a from t limit 1 offset 2 union all select b from u except select c from v",
    "select 1 where a between 1 and 2 and b in (1, 2) or not c is null",
    "select case when a then b else c end as x, case a when 1 then 2 end from t",
    "select * from a left outer join b on a.x = b.x natural join c cross join d using (y)",
    "select a asc, b desc from t order by a asc, b desc nulls last",
    "update t set a = 1, b = 2 where c = 3 returning *; delete from t where a = 1",
    "declare @x int = 1; set @x := 2; select @x",
    "GO\nselect 1\nGO 2\nselect 2",
    "copy t from stdin;\n1\t2\n\\.\nselect 1;",
    "create or replace function f() returns int as $$ begin return 1; end; $$ language plpgsql; select 2",
]

# property -> indices of SHAPES that fail one of that property's search oracles on the unchanged tree (listed findings or
# inputs outside what the property speaks about); written from the output of tools/misc/validate_shapes.py
EXCLUDE = {
    'C08': [14],                        # truncate_strings on a literal that starts with a doubled quote: listed finding
    'C10': [2, 19, 41, 43, 44, 63],     # listed findings (# operator, comment line ends, GO fusion, blank before a crossing
                                        # bracket, trailing blank after a hint) and the inner CR of a keyword token
}


def shapes_for(prop):
    ex = set(EXCLUDE.get(prop, ()))
    return [s for i, s in enumerate(SHAPES) if i not in ex]
