"""Generators for the reindent slice: texts (grammar scripts in several renderings, focused
constructs, junk) and reindent option sets."""
import gens

CONSTRUCTS = ['select', 'join', 'where', 'between', 'group', 'union', 'subquery', 'case', 'function',
              'insert', 'update', 'create', 'comment', 'with', 'script', 'junk', 'uni', 'sql+junk', 'kwsoup']


def gen_opts(rng):
    r = rng.random()
    if r < 0.25:
        return {}
    o = {}
    if rng.random() < 0.4:
        o['indent_width'] = rng.choice([1, 2, 3, 4, 8])
    if rng.random() < 0.2:
        o['indent_tabs'] = True
    if rng.random() < 0.4:
        o['wrap_after'] = rng.choice([0, 1, 5, 10, 20, 40, 80])
    if rng.random() < 0.3:
        o['comma_first'] = True
    if rng.random() < 0.2:
        o['indent_after_first'] = True
    if rng.random() < 0.2:
        o['indent_columns'] = True
    if rng.random() < 0.2:
        o['compact'] = True
    return o


KWSOUP = ['select', 'from', 'where', 'and', 'or', 'between', 'join', 'left join', 'straight_join', 'group by',
          'order by', 'union', 'union all', 'except', 'having', 'limit', 'values', 'set', 'update', 'insert',
          'into', 'delete', 'create', 'table', 'case', 'when', 'then', 'else', 'end', 'for', 'offset', 'order',
          'group  by', 'before', 'random', 'format', 'a', 'b', 'c', 't', '1', '2', "'x'", '(', ')', ',', ',', '=',
          'f(', 'count(', '*', ';', '--c\n', '/* c */', '\n', ' ', ' ', ' ', 'as', 'on', 'in', 'not', 'null',
          'x.y', 'over', 'like', 'is', 'by', 'all', 'distinct', 'asc', 'desc', 'with', 'using', 'returning',
          'UNİON', 'unıon', 'ſet', 'oﬀset', "don't", '"q"', '[1]', '::int', 'interval', "'1'", 'day']


def kwsoup(rng):
    n = rng.choice([2, 3, 5, 8, 12, 20])
    return ' '.join(rng.choice(KWSOUP) for _ in range(n))


def _render(g, atoms, rng):
    return gens.render(atoms, rng, layout=rng.choice(['canon', 'canon', 'random']),
                       comments=rng.choice([0, 0, 0, 0.1, 0.3]),
                       recase=rng.choice([None, 'upper', 'lower', 'random']))


def gen_text(rng):
    """-> (text, construct)"""
    r = rng.random()
    g = gens.SqlGen(rng, max_depth=rng.choice([1, 2, 3]))
    if r < 0.30:
        a = g.select()
        txt = _render(g, a, rng)
        low = txt.lower()
        kind = 'select'
        for k, probe in (('case', 'case'), ('subquery', '(select'), ('union', 'union'), ('between', 'between'),
                         ('join', 'join'), ('group', 'group by'), ('function', '('), ('where', 'where')):
            if probe in low:
                kind = k
                break
        return txt, kind
    if r < 0.36:
        return _render(g, g.with_select(), rng), 'with'
    if r < 0.43:
        return _render(g, g.insert(), rng), 'insert'
    if r < 0.50:
        return _render(g, g.update(), rng), 'update'
    if r < 0.56:
        return _render(g, g.create_table(), rng), 'create'
    if r < 0.60:
        return _render(g, [gens.kw('SELECT'), gens.WS1] + g.case(0) + [gens.WS1, gens.kw('FROM'), gens.WS1] + g.ident(), rng), 'case'
    if r < 0.64:
        return _render(g, [gens.kw('SELECT'), gens.WS1] + g.funcall(0) + [('punct', ','), gens.WS0] + g.funcall(0) +
                       [gens.WS1, gens.kw('FROM'), gens.WS1] + g.ident(), rng), 'function'
    if r < 0.72:
        return gens.render(g.script(), rng, layout=rng.choice(['canon', 'random']), comments=rng.choice([0, 0.2]),
                           recase=rng.choice([None, 'random'])), 'script'
    if r < 0.76:
        a = g.select()
        return gens.render(a, rng, layout='random', comments=0.5, recase=None), 'comment'
    if r < 0.84:
        return kwsoup(rng), 'kwsoup'
    if r < 0.92:
        return gens.junk(rng), 'junk'
    if r < 0.95:
        return gens.uni(rng), 'uni'
    s = _render(g, g.statement(), rng)
    k = rng.randrange(0, len(s) + 1)
    return s[:k] + gens.junk(rng, rng.choice([1, 2, 3])) + s[k:], 'sql+junk'
