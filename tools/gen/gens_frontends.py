"""Generators for C19: byte strings rich in backslash escapes, (text, encoding) pairs, byte soups."""
import codecs

import gens

ESC_TAILS = [b'\\', b"'", b'"', b'a', b'b', b'f', b'n', b'r', b't', b'v', b'\n', b'\r', b'x', b'u', b'U', b'N',
             b'N{', b'N{}', b'N{DIGIT ONE}', b'N{foo}', b'N{LATIN SMALL LETTER E WITH ACUTE}', b'q', b'8', b'9', b' ', b'\xe9', b'\xff']
HEX = b'0123456789abcdefABCDEF'
OCT = b'01234567'


def esc_bytes(r, n=None):
    """A byte string in which about a third of the positions start an escape (valid, truncated,
    out of range, unknown)."""
    n = r.randrange(0, 14) if n is None else n
    out = bytearray()
    for _ in range(n):
        k = r.random()
        if k < 0.35:
            out += b'\\'
            j = r.random()
            if j < 0.25:
                out += r.choice(ESC_TAILS)
            elif j < 0.45:
                out += bytes(r.choice(OCT) for _ in range(r.randrange(1, 5)))
            elif j < 0.85:
                lead, want = r.choice([(b'x', 2), (b'u', 4), (b'U', 8)])
                m = want if r.random() < 0.6 else r.randrange(0, want + 2)
                out += lead
                if lead == b'U' and r.random() < 0.6:
                    pre = r.choice([b'0000', b'0010', b'0011', b'000', b'001'])
                    out += pre
                    m = max(0, m - len(pre))
                out += bytes(r.choice(HEX) for _ in range(m))
                if r.random() < 0.15:
                    out += r.choice([b'g', b'}', b' ', b'\\'])
            else:
                out += bytes([r.randrange(256)])
        elif k < 0.6:
            out += bytes([r.randrange(256)])
        elif k < 0.8:
            out += r.choice([b'select ', b"'", b';', b'{', b'}', b'a', b'1', b'7', b'\n', b'\xe9', b'\xc3\xa9', b'\xff'])
        else:
            out += bytes([r.choice(b'0123456789abcdefxuUN{}\\\n\'" ')])
    return bytes(out)


def byte_soup(r):
    """Arbitrary bytes: sometimes valid UTF-8, sometimes Latin-1 text, sometimes mutilated UTF-8."""
    k = r.random()
    if k < 0.3:
        return esc_bytes(r)
    s, _ = gens.mixed_text(r)
    s = s[:r.randrange(1, 120)]
    if k < 0.5:
        return s.encode('utf-8', 'replace')
    if k < 0.7:
        b = bytearray(s.encode('utf-8', 'replace'))
        for _ in range(r.randrange(1, 4)):
            if b:
                i = r.randrange(len(b))
                if r.random() < 0.5:
                    del b[i]
                else:
                    b[i] = r.randrange(256)
        return bytes(b)
    if k < 0.9:
        t = ''.join(c if ord(c) < 256 else r.choice('éàüÿ\xa0') for c in s)
        b = t.encode('latin-1')
        if r.random() < 0.4:
            i = r.randrange(len(b) + 1)
            b = b[:i] + r.choice([b'\\n', b'\\', b'\\x', b'\\xe9', b'\\\\', b"\\'", b'\\N{BULLET}', b'\\q', b'\\101']) + b[i:]
        return b
    return bytes(r.randrange(256) for _ in range(r.randrange(0, 30)))


ALPHABETS = {
    'ascii': 'abcXYZ019 _;,()\'"\n\t\\-*/=',
    'latin': 'éàüÿñÇß\xa0\xad\xff\xb5',
    'cyr': 'абвгдПесня',
    'cjk': '表名列数据库',
    'astral': '\U0001F600\U00010400',
    'misc': '\u20ac\u2028\u212a\u0130\ufeff',
}
IMPL_ENCODINGS = ['utf-8', 'latin-1', 'cp1251', 'gbk', 'utf-16', 'utf-32', 'ascii']


def text_for(r, maxlen=80):
    """A text drawn from the SQL generators, sprinkled with characters of a random alphabet."""
    s, kind = gens.mixed_text(r)
    s = s[:r.randrange(1, maxlen)]
    alpha = r.choice(list(ALPHABETS))
    if alpha != 'ascii' or r.random() < 0.5:
        cs = list(s)
        for _ in range(r.randrange(0, 6)):
            cs.insert(r.randrange(len(cs) + 1), r.choice(ALPHABETS[alpha]))
        s = ''.join(cs)
    return s, kind + '+' + alpha


def encodable(s, enc):
    try:
        b = s.encode(enc)
        return b.decode(enc) == s
    except (UnicodeError, LookupError):
        return False
