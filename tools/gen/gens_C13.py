"""Generators for C13: queries of the verification grammar (the productions and weights of gens.SqlGen) as
ABSTRACT syntax trees (JSON-able dicts, no whitespace), and a renderer that writes the text under a layout and
records, for every clause-level construct it writes, a CHECK with the character spans of the written pieces:

  where     WHERE keyword, expected end of the Where node (next closing keyword of the property's list at the same
            level, else the end of the enclosing parenthesis / statement)
  idlist    the written items of a comma separated select / FROM / GROUP BY / ORDER BY list
  function  a call and its written arguments
  case      a CASE expression and its written WHEN / THEN / ELSE parts
  cmp       a comparison and its written operands
  typed     a typed literal

so the expected structure is known by construction.  Shrinking works on the AST."""
import copy
import random

import gens
from gens import NAMES, FUNCS, TYPES, CMP_OPS, ARITH_OPS, JOINS, WS_CHOICES

# 'EXCEPT ALL' is EXCEPT followed by the quantifier: the clause ends at EXCEPT whatever follows it
CLOSERS = ['ORDER BY', 'GROUP BY', 'LIMIT', 'UNION', 'UNION ALL', 'EXCEPT', 'HAVING', 'RETURNING', 'INTO']
UNITS = ['DAY', 'HOUR', 'MINUTE', 'MONTH', 'SECOND', 'YEAR']
COND_TAGS = ('cmp', 'isnull', 'between', 'inlist', 'bool', 'exists')


# ------------------------------------------------------------------------------------------------------------
# AST generation (mirrors gens.SqlGen: same productions, same weights)
# ------------------------------------------------------------------------------------------------------------
class AstGen:
    def __init__(self, rng, max_depth=2):
        self.r = rng
        self.max_depth = max_depth

    # ---- lexical pieces
    def ident(self):
        r = self.r.random()
        n = self.r.choice(NAMES)
        if r < 0.70:
            return n
        if r < 0.82:
            return '"' + n.replace('"', '') + self.r.choice(['', ' x', ';', "'", '--']) + '"'
        if r < 0.90:
            return '`' + n + self.r.choice(['', ' y', ';', '"']) + '`'
        if r < 0.95:
            return '[' + n + ']'
        return self.r.choice(['@', '#', '##']) + n + 'x'

    def qualified(self):
        parts = [self.ident()]
        if self.r.random() < 0.3:
            parts = [self.ident()] + parts
            if self.r.random() < 0.15:
                parts = [self.ident()] + parts
        if len(parts) == 1:
            return {'t': 'name', 'v': parts[0]}
        return {'t': 'dotted', 'parts': parts}

    def string(self):
        body = self.r.choice(['', 'a', 'it''s', 'x;y', 'a--b', '/* c */', 'sel ect', 'é', '%s', 'a\nb',
                              'long string literal here', '(', ')', 'END', '$$', '"q"', '`'])
        return {'t': 'lit', 'f': 'string', 'v': "'" + body.replace("'", "''") + "'"}

    def number(self):
        v = self.r.choice(['0', '1', '2', '42', '1.5', '.5', '1.', '1e10', '6.67E-8', '0xFF', '100', '-1', '3.14'])
        f = 'hex' if v.startswith('0x') else 'neg' if v.startswith('-') else 'int' if v.isdigit() else 'float'
        return {'t': 'lit', 'f': f, 'v': v}

    def dollar(self):
        tag = self.r.choice(['', 'tag', 'A', '_x', 'fn'])
        body = self.r.choice(['', 'body', 'select 1; select 2', "it's", '$ x $', 'BEGIN x; END;', '\n line \n'])
        return {'t': 'lit', 'f': 'dollar', 'v': f'${tag}${body}${tag}$'}

    def placeholder(self):
        return {'t': 'lit', 'f': 'placeholder', 'v': self.r.choice(['?', '%s', ':name', ':1', '$1', '%(foo)s', '$a'])}

    def literal(self):
        r = self.r.random()
        if r < 0.4:
            return self.number()
        if r < 0.8:
            return self.string()
        if r < 0.86:
            return self.dollar()
        if r < 0.93:
            return self.placeholder()
        return {'t': 'kwlit', 'v': self.r.choice(['NULL', 'TRUE', 'FALSE', 'CURRENT_DATE', 'CURRENT_TIMESTAMP'])}

    def typed_literal(self):
        r = self.r.random()
        if r < 0.4:
            return {'t': 'typed', 'kw': 'DATE', 'v': "'2020-01-01'", 'unit': None}
        if r < 0.7:
            return {'t': 'typed', 'kw': 'TIMESTAMP', 'v': "'2020-01-01 00:00:00'", 'unit': None}
        out = {'t': 'typed', 'kw': 'INTERVAL', 'v': self.r.choice(["'1 day'", "'6'", "'2 hours'"]), 'unit': None}
        if self.r.random() < 0.5:
            out['unit'] = self.r.choice(UNITS)
        return out

    # ---- expressions
    def expr(self, d=0):
        r = self.r.random()
        if d >= self.max_depth:
            r = r * 0.45
        if r < 0.22:
            return self.qualified()
        if r < 0.40:
            return self.literal()
        if r < 0.45:
            return self.typed_literal()
        if r < 0.58:
            l = self.expr(d + 1)
            op = self.r.choice(ARITH_OPS)
            return {'t': 'arith', 'op': op, 'l': l, 'r': self.expr(d + 1)}
        if r < 0.66:
            return self.funcall(d)
        if r < 0.72:
            return {'t': 'paren', 'e': self.expr(d + 1)}
        if r < 0.78:
            return self.case(d)
        if r < 0.83:
            return {'t': 'subq', 'q': self.select(d + 1)}
        if r < 0.88:
            return {'t': 'cast', 'e': self.qualified(), 'ty': self.r.choice(TYPES)}
        if r < 0.92:
            return {'t': 'index', 'e': self.qualified(), 'i': self.number()}
        if r < 0.96:
            return self.cond(d + 1)
        return {'t': 'star'}

    def funcall(self, d):
        name = self.r.choice(FUNCS)
        n = self.r.choice([0, 1, 1, 2, 2, 3])
        star = (n == 0 and self.r.random() < 0.5)
        args = [self.expr(d + 1) for _ in range(n)]
        over = self.qualified() if self.r.random() < 0.12 else None
        return {'t': 'call', 'name': name, 'args': args, 'star': star, 'over': over}

    def case(self, d):
        operand = self.qualified() if self.r.random() < 0.3 else None
        whens = []
        for _ in range(self.r.choice([1, 1, 2, 3])):
            c = self.cond(d + 1)
            whens.append([c, self.expr(d + 1)])
        els = self.expr(d + 1) if self.r.random() < 0.5 else None
        return {'t': 'case', 'operand': operand, 'whens': whens, 'else': els}

    def cond(self, d=0):
        r = self.r.random()
        if d >= self.max_depth:
            r *= 0.6
        if r < 0.55:
            op = self.r.choice(CMP_OPS)
            l = self.expr(d + 1)
            return {'t': 'cmp', 'op': op, 'l': l, 'r': self.expr(d + 1)}
        if r < 0.62:
            return {'t': 'isnull', 'e': self.qualified(), 'neg': self.r.random() < 0.5}
        if r < 0.70:
            e = self.qualified()
            lo = self.expr(d + 1)
            return {'t': 'between', 'e': e, 'lo': lo, 'hi': self.expr(d + 1)}
        if r < 0.78:
            e = self.qualified()
            a = self.expr(d + 1)
            return {'t': 'inlist', 'e': e, 'items': [a, self.expr(d + 1)]}
        if r < 0.90:
            l = self.cond(d + 1)
            op = self.r.choice(['AND', 'OR'])
            return {'t': 'bool', 'op': op, 'l': l, 'r': self.cond(d + 1)}
        if r < 0.95:
            return {'t': 'exists', 'q': self.select(d + 1)}
        return {'t': 'pcond', 'c': self.cond(d + 1)}

    # ---- queries
    def alias(self):
        r = self.r.random()
        if r < 0.5:
            return None
        if r < 0.8:
            return ['AS', self.ident()]
        return ['', self.ident()]

    def select_item(self, d):
        if self.r.random() < 0.1:
            return {'e': {'t': 'star'}, 'alias': None}
        e = self.expr(d + 1)
        return {'e': e, 'alias': self.alias()}

    def table_ref(self, d):
        if self.r.random() < 0.15 and d < self.max_depth:
            q = self.select(d + 1)
            return {'t': 'tsub', 'q': q, 'alias': self.ident()}
        q = self.qualified()
        return {'t': 'tref', 'q': q, 'alias': self.alias()}

    def select(self, d=0):
        s = {'t': 'select', 'distinct': self.r.random() < 0.1, 'items': [], 'from': None, 'where': None,
             'group': None, 'order': None, 'limit': None, 'setop': None, 'follow': None, 'respell': None}
        for _ in range(self.r.choice([1, 1, 2, 3, 4])):
            s['items'].append(self.select_item(d))
        if self.r.random() < 0.9:
            fr = {'refs': [self.table_ref(d)], 'seps': []}
            for _ in range(self.r.choice([0, 0, 0, 1, 2])):
                if self.r.random() < 0.35:
                    fr['seps'].append([','])
                    fr['refs'].append(self.table_ref(d))
                else:
                    j = self.r.choice(JOINS)
                    ref = self.table_ref(d)
                    on = self.cond(d + 1) if self.r.random() < 0.8 else None
                    fr['seps'].append([j, on])
                    fr['refs'].append(ref)
            s['from'] = fr
            if self.r.random() < 0.6:
                s['where'] = self.cond(d + 1)
            if self.r.random() < 0.25:
                g = {'cols': [self.qualified()], 'having': None}
                if self.r.random() < 0.4:
                    g['cols'].append(self.qualified())
                if self.r.random() < 0.4:
                    g['having'] = self.cond(d + 1)
                s['group'] = g
            if self.r.random() < 0.3:
                o = {'cols': [self.qualified()], 'dir': None}
                if self.r.random() < 0.5:
                    o['dir'] = self.r.choice(['ASC', 'DESC', 'DESC NULLS LAST', 'ASC NULLS FIRST'])
                if self.r.random() < 0.3:
                    o['cols'].append(self.qualified())
                s['order'] = o
            if self.r.random() < 0.2:
                s['limit'] = self.number()
        if self.r.random() < 0.12 and d < self.max_depth:
            op = self.r.choice(['UNION', 'UNION ALL', 'EXCEPT', 'EXCEPT ALL', 'INTERSECT'])
            s['setop'] = [op, self.select(d + 1)]
        return s

    def update(self, d=0):
        u = {'t': 'update', 'tbl': self.qualified(), 'sets': [], 'where': None, 'returning': None}
        for _ in range(self.r.choice([1, 2])):
            n = self.ident()
            u['sets'].append([n, self.expr(d + 1)])
        if self.r.random() < 0.7:
            u['where'] = self.cond(d + 1)
        if self.r.random() < 0.15:
            u['returning'] = self.qualified()
        return u

    def delete(self, d=0):
        dl = {'t': 'delete', 'tbl': self.qualified(), 'where': None}
        if self.r.random() < 0.8:
            dl['where'] = self.cond(d + 1)
        return dl

    def with_select(self, d=0):
        w = {'t': 'with', 'ctes': [], 'body': None}
        for _ in range(self.r.choice([1, 1, 2, 3])):
            n = self.r.choice(NAMES)
            w['ctes'].append([n, self.select(d + 1)])
        w['body'] = self.select(d + 1) if self.r.random() < 0.8 else self.delete(d + 1)
        return w

    def statement(self):
        r = self.r.random()
        if r < 0.62:
            return self.select(0)
        if r < 0.74:
            return self.with_select(0)
        if r < 0.87:
            return self.update(0)
        return self.delete(0)

    # ---- the explicit Conditions x Followers x Nesting family
    def where_family(self):
        """SELECT items FROM t WHERE <cond> [<follower>], nested 0..2 levels in FROM / WHERE-IN / EXISTS
        subqueries; follower: every closing keyword of the property (and the set operators that are not)."""
        fol = self.r.choice([None, 'GROUP BY', 'ORDER BY', 'LIMIT', 'UNION', 'UNION ALL', 'EXCEPT', 'EXCEPT ALL', 'HAVING',
                             'RETURNING', 'INTO', 'INTERSECT', 'MINUS', 'OFFSET', 'FOR UPDATE', 'WINDOW', 'FETCH'])
        q = {'t': 'select', 'distinct': False, 'items': [self.select_item(1) for _ in range(self.r.choice([1, 2]))],
             'from': {'refs': [self.table_ref(self.max_depth)], 'seps': []}, 'where': self.cond(self.r.choice([0, 1])),
             'group': None, 'order': None, 'limit': None, 'setop': None, 'follow': None, 'respell': None}
        if fol in ('UNION', 'UNION ALL', 'EXCEPT', 'EXCEPT ALL', 'INTERSECT', 'MINUS'):
            rhs = {'t': 'select', 'distinct': False, 'items': [self.select_item(2)],
                   'from': {'refs': [self.table_ref(self.max_depth)], 'seps': []},
                   'where': self.cond(2) if self.r.random() < 0.5 else None,
                   'group': None, 'order': None, 'limit': None, 'setop': None, 'follow': None, 'respell': None}
            q['setop'] = [fol, rhs]
        elif fol == 'GROUP BY':
            q['group'] = {'cols': [self.qualified()], 'having': None}
        elif fol == 'ORDER BY':
            q['order'] = {'cols': [self.qualified()], 'dir': None}
        elif fol == 'LIMIT':
            q['limit'] = self.number()
        elif fol is not None:
            rest = {'HAVING': self.cond(2), 'RETURNING': self.qualified(), 'INTO': self.qualified(),
                    'OFFSET': self.number(), 'FOR UPDATE': None, 'WINDOW': None, 'FETCH': None}[fol]
            q['follow'] = [fol, rest]
        if fol and ' ' in fol and fol in CLOSERS and self.r.random() < 0.08:
            q['respell'] = self.r.choice(['  ', '\n', '\t', ' \n ', '\r\n'])
        for _ in range(self.r.choice([0, 0, 1, 1, 2])):
            q = self.wrap(q)
        return q

    def wrap(self, q):
        r = self.r.random()
        base = {'t': 'select', 'distinct': False, 'items': [{'e': {'t': 'star'}, 'alias': None}], 'from': None,
                'where': None, 'group': None, 'order': None, 'limit': None, 'setop': None, 'follow': None,
                'respell': None}
        if r < 0.4:
            base['from'] = {'refs': [{'t': 'tsub', 'q': q, 'alias': 'x'}], 'seps': []}
            if self.r.random() < 0.3:
                base['where'] = self.cond(2)
        elif r < 0.75:
            base['from'] = {'refs': [{'t': 'tref', 'q': {'t': 'name', 'v': 'u'}, 'alias': None}], 'seps': []}
            base['where'] = {'t': 'insub', 'e': {'t': 'name', 'v': 'k'}, 'q': q}
            if self.r.random() < 0.5:
                base['order'] = {'cols': [{'t': 'lit', 'f': 'int', 'v': '1'}], 'dir': None}
        else:
            base['from'] = {'refs': [{'t': 'tref', 'q': {'t': 'name', 'v': 'u'}, 'alias': None}], 'seps': []}
            base['where'] = {'t': 'exists', 'q': q}
        return base

    # ---- focused families with tagged piece kinds
    def atom_kinds(self):
        """operand / item / argument kinds: (kind label, AST)"""
        return [
            ('name', {'t': 'name', 'v': 'a'}), ('dotted', {'t': 'dotted', 'parts': ['t', 'a']}),
            ('quoted', {'t': 'name', 'v': '"a b"'}), ('int', {'t': 'lit', 'f': 'int', 'v': '1'}),
            ('float', {'t': 'lit', 'f': 'float', 'v': '1.5'}), ('neg', {'t': 'lit', 'f': 'neg', 'v': '-1'}),
            ('hex', {'t': 'lit', 'f': 'hex', 'v': '0xFF'}), ('string', {'t': 'lit', 'f': 'string', 'v': "'x'"}),
            ('dollar', {'t': 'lit', 'f': 'dollar', 'v': '$$x$$'}),
            ('placeholder', {'t': 'lit', 'f': 'placeholder', 'v': self.r.choice(['?', '%s', ':name', '$1'])}),
            ('null', {'t': 'kwlit', 'v': 'NULL'}), ('true', {'t': 'kwlit', 'v': 'TRUE'}),
            ('current_date', {'t': 'kwlit', 'v': 'CURRENT_DATE'}),
            ('typed', {'t': 'typed', 'kw': self.r.choice(['DATE', 'TIMESTAMP']), 'v': "'2020-01-01'", 'unit': None}),
            ('interval', {'t': 'typed', 'kw': 'INTERVAL', 'v': "'1'", 'unit': self.r.choice(UNITS)}),
            ('arith', {'t': 'arith', 'op': self.r.choice(['+', '*', '||', '-']), 'l': {'t': 'name', 'v': 'a'},
                       'r': {'t': 'lit', 'f': 'int', 'v': '1'}}),
            ('call', {'t': 'call', 'name': 'g', 'args': [{'t': 'name', 'v': 'b'}], 'star': False, 'over': None}),
            ('call2', {'t': 'call', 'name': 'g', 'args': [{'t': 'name', 'v': 'b'}, {'t': 'name', 'v': 'c'}],
                       'star': False, 'over': None}),
            ('paren', {'t': 'paren', 'e': {'t': 'name', 'v': 'a'}}),
            ('case', {'t': 'case', 'operand': None,
                      'whens': [[{'t': 'name', 'v': 'a'}, {'t': 'lit', 'f': 'int', 'v': '1'}]], 'else': None}),
            ('subq', {'t': 'subq', 'q': self.tiny_select()}),
            ('cast', {'t': 'cast', 'e': {'t': 'name', 'v': 'a'}, 'ty': 'int'}),
            ('index', {'t': 'index', 'e': {'t': 'name', 'v': 'a'}, 'i': {'t': 'lit', 'f': 'int', 'v': '1'}}),
            ('cmp', {'t': 'cmp', 'op': '=', 'l': {'t': 'name', 'v': 'a'}, 'r': {'t': 'lit', 'f': 'int', 'v': '1'}}),
            ('isnull', {'t': 'isnull', 'e': {'t': 'name', 'v': 'a'}, 'neg': False}),
            ('bool', {'t': 'bool', 'op': 'AND', 'l': {'t': 'name', 'v': 'a'}, 'r': {'t': 'name', 'v': 'b'}}),
            ('between', {'t': 'between', 'e': {'t': 'name', 'v': 'a'}, 'lo': {'t': 'lit', 'f': 'int', 'v': '1'},
                         'hi': {'t': 'lit', 'f': 'int', 'v': '2'}}),
            ('inlist', {'t': 'inlist', 'e': {'t': 'name', 'v': 'a'},
                        'items': [{'t': 'lit', 'f': 'int', 'v': '1'}, {'t': 'lit', 'f': 'int', 'v': '2'}]}),
            ('exists', {'t': 'exists', 'q': self.tiny_select()}),
            ('star', {'t': 'star'}),
        ]

    def tiny_select(self):
        return {'t': 'select', 'distinct': False, 'items': [{'e': {'t': 'lit', 'f': 'int', 'v': '1'}, 'alias': None}],
                'from': None, 'where': None, 'group': None, 'order': None, 'limit': None, 'setop': None,
                'follow': None, 'respell': None}

    def host(self, e, where_cond=None):
        """a statement hosting expression e as a select item (and optionally a condition)"""
        q = self.tiny_select()
        q['items'] = [{'e': e, 'alias': None}]
        q['from'] = {'refs': [{'t': 'tref', 'q': {'t': 'name', 'v': 't'}, 'alias': None}], 'seps': []}
        q['where'] = where_cond
        for _ in range(self.r.choice([0, 0, 0, 1, 2])):
            q = self.wrap(q)
        return q

    def kinds_family(self):
        """one construct whose pieces are drawn from the kind table (every kind x every role)"""
        kinds = self.atom_kinds()
        role = self.r.choice(['items', 'args', 'cmp', 'case', 'typedctx'])
        pick = lambda: copy.deepcopy(self.r.choice(kinds))   # noqa: E731
        if role == 'items':
            n = self.r.choice([2, 2, 3, 4])
            ks = [pick() for _ in range(n)]
            q = self.tiny_select()
            q['items'] = [{'e': k[1], 'alias': self.alias() if k[0] != 'star' and self.r.random() < 0.3 else None}
                          for k in ks]
            q['from'] = {'refs': [{'t': 'tref', 'q': {'t': 'name', 'v': 't1'}, 'alias': self.alias()},
                                  {'t': 'tref', 'q': {'t': 'name', 'v': 't2'}, 'alias': self.alias()}],
                         'seps': [[',']]}
            for _ in range(self.r.choice([0, 0, 1, 2])):
                q = self.wrap(q)
            return q, 'items:' + ','.join(k[0] for k in ks)
        if role == 'args':
            n = self.r.choice([1, 1, 1, 2, 3])
            ks = [pick() for _ in range(n)]
            e = {'t': 'call', 'name': self.r.choice(FUNCS), 'args': [k[1] for k in ks], 'star': False, 'over': None}
            return self.host(e), 'args:' + ','.join(k[0] for k in ks)
        if role == 'cmp':
            bare = ('cmp', 'isnull', 'bool', 'between', 'inlist', 'exists', 'star')
            ks = [k for k in kinds if k[0] not in bare]
            l, r = copy.deepcopy(self.r.choice(ks)), copy.deepcopy(self.r.choice(ks))
            c = {'t': 'cmp', 'op': self.r.choice(CMP_OPS), 'l': l[1], 'r': r[1]}
            return self.host({'t': 'name', 'v': 'z'}, c), f'cmp:{l[0]},{r[0]}'
        if role == 'case':
            ks = [pick() for _ in range(3)]
            e = {'t': 'case', 'operand': {'t': 'name', 'v': 'x'} if self.r.random() < 0.3 else None,
                 'whens': [[ks[0][1], ks[1][1]]], 'else': ks[2][1] if self.r.random() < 0.5 else None}
            return self.host(e), 'case:' + ','.join(k[0] for k in ks)
        t = self.typed_literal()
        ctx = self.r.choice(['item', 'cmp', 'arg', 'in', 'between', 'arith'])
        if ctx == 'item':
            return self.host(t), 'typed:item'
        if ctx == 'cmp':
            return self.host({'t': 'name', 'v': 'z'}, {'t': 'cmp', 'op': '>', 'l': {'t': 'name', 'v': 'd'}, 'r': t}), 'typed:cmp'
        if ctx == 'arg':
            return self.host({'t': 'call', 'name': 'f', 'args': [t], 'star': False, 'over': None}), 'typed:arg'
        if ctx == 'in':
            return self.host({'t': 'name', 'v': 'z'}, {'t': 'inlist', 'e': {'t': 'name', 'v': 'd'}, 'items': [t, copy.deepcopy(t)]}), 'typed:in'
        if ctx == 'between':
            return self.host({'t': 'name', 'v': 'z'}, {'t': 'between', 'e': {'t': 'name', 'v': 'd'}, 'lo': t, 'hi': copy.deepcopy(t)}), 'typed:between'
        return self.host({'t': 'arith', 'op': '+', 'l': {'t': 'name', 'v': 'd'}, 'r': t}), 'typed:arith'


# ------------------------------------------------------------------------------------------------------------
# rendering with span recording
# ------------------------------------------------------------------------------------------------------------
class Level:
    def __init__(self):
        self.closers = []      # (offset, canonical keyword) written at this level
        self.end = None


class Renderer:
    def __init__(self, layout='canon', recase=None, seed=0):
        self.layout = layout
        self.recase = recase
        self.r = random.Random(seed)
        self.buf = []
        self.pos = 0
        self.checks = []
        self.levels = [Level()]
        self._where_pending = []
        self.kwspans = []     # (start, end, canonical keyword) of every keyword written

    # ---- output
    def emit(self, s):
        self.buf.append(s)
        self.pos += len(s)

    def ws1(self):
        self.emit(' ' if self.layout == 'canon' else self.r.choice(WS_CHOICES))

    def ws0(self):
        self.emit('' if self.layout == 'canon' else self.r.choice(['', '', ''] + WS_CHOICES))

    def kw(self, text, inner=None):
        canon = text
        if inner is not None:
            text = inner.join(text.split(' '))
        if self.recase == 'upper':
            text = text.upper()
        elif self.recase == 'lower':
            text = text.lower()
        elif self.recase == 'random':
            text = ''.join(ch.upper() if self.r.random() < 0.5 else ch.lower() for ch in text)
        start = self.pos
        self.emit(text)
        self.kwspans.append([start, self.pos, canon])
        return start

    def closer(self, canon, inner=None):
        start = self.kw(canon, inner)
        if canon in CLOSERS:
            self.levels[-1].closers.append((start, canon))
        return start

    # ---- expressions; each returns (start, end); `amb` = the piece is written unparenthesised inside an
    #      operator expression, so its own extent is ambiguous in the text
    def expr(self, e, amb=False):
        s = self.pos
        t = e['t']
        if t == 'name':
            self.emit(e['v'])
        elif t == 'dotted':
            self.emit('.'.join(e['parts']))
        elif t == 'lit':
            self.emit(e['v'])
        elif t == 'kwlit':
            self.kw(e['v'])
        elif t == 'typed':
            self.kw(e['kw'])
            self.ws1()
            self.emit(e['v'])
            if e.get('unit'):
                self.ws1()
                self.kw(e['unit'])
            self.checks.append({'kind': 'typed', 'span': [s, self.pos], 'kw': e['kw'], 'unit': e.get('unit')})
        elif t == 'arith':
            self.expr(e['l'], amb=True)
            self.ws0()
            self.emit(e['op'])
            self.ws0()
            self.expr(e['r'], amb=True)
        elif t == 'call':
            self.call(e)
        elif t == 'paren':
            self.emit('(')
            self.ws0()
            self.expr(e['e'])
            self.ws0()
            self.emit(')')
        elif t == 'case':
            self.case(e)
        elif t == 'subq':
            self.subselect(e['q'])
        elif t == 'cast':
            self.expr(e['e'])
            self.emit('::')
            self.emit(e['ty'])
        elif t == 'index':
            self.expr(e['e'])
            self.emit('[')
            self.ws0()
            self.expr(e['i'])
            self.ws0()
            self.emit(']')
        elif t == 'star':
            self.emit('*')
        else:
            self.cond(e, amb)
        return s, self.pos

    def subselect(self, q):
        self.emit('(')
        self.ws0()
        self.levels.append(Level())
        self.query(q)
        self.ws0()
        self.levels.pop().end = self.pos
        self.emit(')')

    def call(self, e):
        s = self.pos
        self.emit(e['name'])
        self.emit('(')
        self.ws0()
        args = []
        if e.get('star'):
            a = self.pos
            self.emit('*')
            args.append([a, self.pos, 'star'])
        for i, a in enumerate(e['args']):
            if i:
                self.ws0()
                self.emit(',')
                self.ws0()
            sp = self.expr(a)
            args.append([sp[0], sp[1], a['t'] + (':' + a['f'] if 'f' in a else '')])
        self.ws0()
        self.emit(')')
        if e.get('over') is not None:
            self.ws1()
            self.kw('OVER')
            self.ws0()
            self.emit('(')
            self.ws0()
            self.kw('PARTITION BY')
            self.ws1()
            self.expr(e['over'])
            self.ws0()
            self.emit(')')
        self.checks.append({'kind': 'function', 'span': [s, self.pos], 'args': args, 'name': e['name'],
                            'over': e.get('over') is not None})

    def case(self, e):
        s = self.pos
        self.kw('CASE')
        operand = None
        if e.get('operand') is not None:
            self.ws1()
            operand = list(self.expr(e['operand']))
        parts = []
        for c, v in e['whens']:
            self.ws1()
            a = self.kw('WHEN')
            self.ws1()
            self.expr(c)
            b = self.pos
            self.ws1()
            c2 = self.kw('THEN')
            self.ws1()
            self.expr(v)
            parts.append([[a, b], [c2, self.pos]])
        if e.get('else') is not None:
            self.ws1()
            a = self.kw('ELSE')
            self.ws1()
            self.expr(e['else'])
            parts.append([None, [a, self.pos]])
        self.ws1()
        self.kw('END')
        self.checks.append({'kind': 'case', 'span': [s, self.pos], 'operand': operand, 'parts': parts})

    def cond(self, c, amb=False):
        s = self.pos
        t = c['t']
        if t == 'cmp':
            op = c['op']
            l = self.expr(c['l'], amb=True)
            (self.ws1 if op[0].isalpha() else self.ws0)()
            o = self.pos
            if op[0].isalpha():
                self.kw(op)
            else:
                self.emit(op)
            o2 = self.pos
            (self.ws1 if op[0].isalpha() else self.ws0)()
            r = self.expr(c['r'], amb=True)
            bare = bare_cond(c['l']) or bare_cond(c['r'])
            self.checks.append({'kind': 'cmp', 'l': list(l), 'op': [o, o2], 'r': list(r), 'opv': op,
                                'ltag': tag_of(c['l']), 'rtag': tag_of(c['r']),
                                'ambiguous': bool(amb or bare)})
        elif t == 'isnull':
            self.expr(c['e'])
            self.ws1()
            self.kw('IS')
            self.ws1()
            self.kw('NOT NULL' if c['neg'] else 'NULL')
        elif t == 'between':
            self.expr(c['e'])
            self.ws1()
            self.kw('BETWEEN')
            self.ws1()
            self.expr(c['lo'], amb=True)
            self.ws1()
            self.kw('AND')
            self.ws1()
            self.expr(c['hi'], amb=True)
        elif t == 'inlist':
            self.expr(c['e'])
            self.ws1()
            self.kw('IN')
            self.ws0()
            self.emit('(')
            self.ws0()
            for i, a in enumerate(c['items']):
                if i:
                    self.ws0()
                    self.emit(',')
                    self.ws0()
                self.expr(a)
            self.ws0()
            self.emit(')')
        elif t == 'insub':
            self.expr(c['e'])
            self.ws1()
            self.kw('IN')
            self.ws0()
            self.subselect(c['q'])
        elif t == 'bool':
            self.expr(c['l'], amb)       # a bare AND/OR chain inside an operator expression stays ambiguous
            self.ws1()
            self.kw(c['op'])
            self.ws1()
            self.expr(c['r'], amb)
        elif t == 'exists':
            self.kw('EXISTS')
            self.ws0()
            self.subselect(c['q'])
        elif t == 'pcond':
            self.emit('(')
            self.ws0()
            self.cond_or_expr(c['c'])
            self.ws0()
            self.emit(')')
        else:
            raise ValueError('unknown node ' + t)
        return s, self.pos

    def cond_or_expr(self, c):
        return self.expr(c)

    # ---- queries
    def alias(self, al):
        if al is None:
            return
        self.ws1()
        if al[0]:
            self.kw(al[0])
            self.ws1()
        self.emit(al[1])

    def idlist(self, role, spans):
        if len(spans) >= 2:
            self.checks.append({'kind': 'idlist', 'role': role, 'items': spans})

    def query(self, q):
        t = q['t']
        if t == 'select':
            self.select(q)
        elif t == 'update':
            self.update(q)
        elif t == 'delete':
            self.delete(q)
        elif t == 'with':
            self.with_(q)
        else:
            raise ValueError(t)

    def where(self, c):
        self.ws1()
        w = self.kw('WHERE')
        w2 = self.pos
        self.ws1()
        cs = self.expr(c)
        self._where_pending.append(({'kind': 'where', 'kw': [w, w2], 'cond': list(cs), 'ctag': tag_of(c)},
                                    self.levels[-1]))

    def select(self, q):
        self.kw('SELECT')
        if q.get('distinct'):
            self.ws1()
            self.kw('DISTINCT')
        self.ws1()
        spans = []
        for i, it in enumerate(q['items']):
            if i:
                self.ws0()
                self.emit(',')
                self.ws0()
            s = self.pos
            self.expr(it['e'])
            self.alias(it.get('alias'))
            spans.append([s, self.pos, tag_of(it['e']) + ('+alias' if it.get('alias') else '')])
        self.idlist('select', spans)
        fr = q.get('from')
        if fr:
            self.ws1()
            self.kw('FROM')
            self.ws1()
            spans = []
            pure = all(sep[0] == ',' for sep in fr['seps'])
            for i, ref in enumerate(fr['refs']):
                if i:
                    sep = fr['seps'][i - 1]
                    if sep[0] == ',':
                        self.ws0()
                        self.emit(',')
                        self.ws0()
                    else:
                        self.ws1()
                        self.kw(sep[0])
                        self.ws1()
                s = self.pos
                if ref['t'] == 'tsub':
                    self.subselect(ref['q'])
                    self.ws1()
                    self.emit(ref['alias'])
                    tg = 'tsub+alias'
                else:
                    self.expr(ref['q'])
                    self.alias(ref.get('alias'))
                    tg = tag_of(ref['q']) + ('+alias' if ref.get('alias') else '')
                spans.append([s, self.pos, tg])
                if i and fr['seps'][i - 1][0] != ',' and fr['seps'][i - 1][1] is not None:
                    self.ws1()
                    self.kw('ON')
                    self.ws1()
                    self.expr(fr['seps'][i - 1][1])
            if pure:
                self.idlist('from', spans)
        if q.get('where') is not None:
            self.where(q['where'])
        g = q.get('group')
        if g:
            self.ws1()
            self.closer('GROUP BY', q.get('respell'))
            self.ws1()
            spans = []
            for i, c in enumerate(g['cols']):
                if i:
                    self.ws0()
                    self.emit(',')
                    self.ws0()
                sp = self.expr(c)
                spans.append([sp[0], sp[1], tag_of(c)])
            self.idlist('group-by', spans)
            if g.get('having') is not None:
                self.ws1()
                self.closer('HAVING')
                self.ws1()
                self.expr(g['having'])
        o = q.get('order')
        if o:
            self.ws1()
            self.closer('ORDER BY', q.get('respell'))
            self.ws1()
            spans = []
            for i, c in enumerate(o['cols']):
                if i:
                    self.ws0()
                    self.emit(',')
                    self.ws0()
                s = self.pos
                self.expr(c)
                if i == 0 and o.get('dir'):
                    self.ws1()
                    self.kw(o['dir'])
                spans.append([s, self.pos, tag_of(c) + ('+dir' if i == 0 and o.get('dir') else '')])
            self.idlist('order-by', spans)
        if q.get('limit') is not None:
            self.ws1()
            self.closer('LIMIT')
            self.ws1()
            self.expr(q['limit'])
        fo = q.get('follow')
        if fo:
            self.ws1()
            self.closer(fo[0])
            if fo[1] is not None:
                self.ws1()
                self.expr(fo[1])
        so = q.get('setop')
        if so:
            self.ws1()
            if so[0] == 'EXCEPT ALL':
                # EXCEPT followed by the quantifier ALL: two keyword tokens; the clause ends at EXCEPT
                self.closer('EXCEPT')
                self.ws1()
                self.kw('ALL')
            else:
                self.closer(so[0], q.get('respell') if so[0] == 'UNION ALL' else None)
            self.ws1()
            self.select(so[1])

    def update(self, u):
        self.kw('UPDATE')
        self.ws1()
        self.expr(u['tbl'])
        self.ws1()
        self.kw('SET')
        self.ws1()
        for i, (n, e) in enumerate(u['sets']):
            if i:
                self.ws0()
                self.emit(',')
                self.ws0()
            self.emit(n)
            self.ws0()
            self.emit('=')
            self.ws0()
            self.expr(e, amb=True)      # `=` of SET is a comparison token as well: a bare condition is ambiguous
        if u.get('where') is not None:
            self.where(u['where'])
        if u.get('returning') is not None:
            self.ws1()
            self.closer('RETURNING')
            self.ws1()
            self.expr(u['returning'])

    def delete(self, d):
        self.kw('DELETE')
        self.ws1()
        self.kw('FROM')
        self.ws1()
        self.expr(d['tbl'])
        if d.get('where') is not None:
            self.where(d['where'])

    def with_(self, w):
        self.kw('WITH')
        self.ws1()
        for i, (n, q) in enumerate(w['ctes']):
            if i:
                self.ws0()
                self.emit(',')
                self.ws0()
            self.emit(n)
            self.ws1()
            self.kw('AS')
            self.ws0()
            self.subselect(q)
        self.ws1()
        self.query(w['body'])

    def finish(self, tail=''):
        self.emit(tail)
        self.levels[0].end = self.pos
        text = ''.join(self.buf)
        for chk, lvl in self._where_pending:
            later = [o for o, _ in lvl.closers if o > chk['kw'][0]]
            chk['end'] = min(later) if later else lvl.end
            chk['closer'] = None
            for o, c in lvl.closers:
                if o == chk['end']:
                    chk['closer'] = c
            chk['level_end'] = lvl.end
            self.checks.append(chk)
        return text, self.checks, self.kwspans


def tag_of(e):
    t = e['t']
    if t == 'lit':
        return 'lit:' + e['f']
    if t == 'kwlit':
        return 'kwlit:' + e['v']
    if t == 'arith':
        return 'arith:' + e['op']
    return t


def bare_cond(e):
    """the written text of e, standing as an operand, does not delimit e (a bare condition / operator chain)"""
    t = e['t']
    if t in COND_TAGS:
        return True
    if t == 'arith':
        return bare_cond(e['l']) or bare_cond(e['r'])
    return False


def render_case(ast, layout='canon', recase=None, seed=0, tail=''):
    rr = Renderer(layout, recase, seed)
    rr.query(ast)
    text, checks, kws = rr.finish(tail)
    return text, checks, kws


# ------------------------------------------------------------------------------------------------------------
# shrinking on the AST: every candidate is a strictly smaller tree
# ------------------------------------------------------------------------------------------------------------
SIMPLE = {'t': 'name', 'v': 'a'}


def size(x):
    if isinstance(x, dict):
        return 1 + sum(size(v) for v in x.values())
    if isinstance(x, list):
        return 1 + sum(size(v) for v in x)
    if isinstance(x, str):
        return 1 + len(x) // 4
    return 1


def _subexprs(e):
    out = []
    if isinstance(e, dict):
        for k, v in e.items():
            if isinstance(v, dict) and 't' in v:
                out.append(v)
            elif isinstance(v, list):
                for x in v:
                    if isinstance(x, dict) and 't' in x:
                        out.append(x)
                    elif isinstance(x, list):
                        out.extend(y for y in x if isinstance(y, dict) and 't' in y)
                    elif isinstance(x, dict):
                        out.extend(y for y in x.values() if isinstance(y, dict) and 't' in y)
    return out


EXPR_TAGS = ('name', 'dotted', 'lit', 'kwlit', 'typed', 'arith', 'call', 'paren', 'case', 'subq', 'cast', 'index',
             'star') + COND_TAGS + ('pcond', 'insub')
QUERY_TAGS = ('select', 'update', 'delete', 'with')


def candidates(ast):
    """smaller variants of the AST (generic over the dict/list structure)"""
    out = []

    def paths(x, path):
        yield path, x
        if isinstance(x, dict):
            for k, v in x.items():
                yield from paths(v, path + [k])
        elif isinstance(x, list):
            for i, v in enumerate(x):
                yield from paths(v, path + [i])

    def get(root, path):
        for p in path:
            root = root[p]
        return root

    def setp(root, path, val):
        c = copy.deepcopy(root)
        if not path:
            return val
        cur = c
        for p in path[:-1]:
            cur = cur[p]
        cur[path[-1]] = val
        return c

    for path, node in paths(ast, []):
        if isinstance(node, dict) and node.get('t') in QUERY_TAGS and path:
            # hoist an inner query to the root
            out.append(copy.deepcopy(node))
        if isinstance(node, dict) and node.get('t') in EXPR_TAGS and path:
            if node != SIMPLE:
                out.append(setp(ast, path, copy.deepcopy(SIMPLE)))
            for sub in _subexprs(node):
                if sub.get('t') in EXPR_TAGS:
                    out.append(setp(ast, path, copy.deepcopy(sub)))
        if isinstance(node, list) and path:
            key = path[-1]
            minlen = {'items': 1, 'refs': 1, 'whens': 1, 'cols': 1, 'sets': 1, 'ctes': 1, 'args': 0, 'parts': 1}.get(key)
            if minlen is not None and len(node) > minlen:
                for i in range(len(node)):
                    c = copy.deepcopy(ast)
                    lst = get(c, path)
                    del lst[i]
                    if key == 'refs':
                        seps = get(c, path[:-1])['seps']
                        if seps:
                            del seps[max(0, i - 1)]
                    out.append(c)
        if isinstance(node, dict):
            for k in ('where', 'group', 'order', 'limit', 'setop', 'follow', 'respell', 'alias', 'over', 'else',
                      'operand', 'unit', 'returning', 'having', 'dir', 'from'):
                if k in node and node[k] not in (None, False):
                    if k == 'from' and (node.get('where') is not None or node.get('group') or node.get('order')):
                        continue
                    out.append(setp(ast, path + [k], None))
            if node.get('distinct'):
                out.append(setp(ast, path + ['distinct'], False))
            if node.get('star') and node.get('t') == 'call':
                pass
    def measure(x):
        return (size(x), len(repr(x)))
    base = measure(ast)
    seen = set()
    res = []
    for c in out:
        if not isinstance(c, dict) or c.get('t') not in QUERY_TAGS:
            continue
        key = repr(c)
        if key in seen or measure(c) >= base:
            continue
        seen.add(key)
        res.append(c)
    res.sort(key=measure)
    return res
