"""Generators for the accessor slice (C07 accessors, C12, C13, C18).

AccGen   - the verification grammar biased towards what the accessors look at: identifiers in every
           quoting style, qualified names, aliases with/without AS, calls with all kinds of arguments,
           window clauses, CASE, typecasts, orderings, array indices, CTEs, CREATE OR REPLACE spelled
           with odd whitespace, comment/whitespace prefixes
acc_junk - soup over the tokens the accessors branch on (so the exception paths are exercised)
acc_text - the mix used by the correspondence stage
"""
import gens
from gens import SqlGen, kw, nm, WS0, WS1, render

QNAMES = ['a', 'b', 'c', 'x', 'y', 'foo', 'bar', 't1', 'tbl', 'users', 'id', 'my_table', 'Über', 'naïve',
          '_z', 'k2', 'col', 'order_', 'select1', 'É', 'ß', 'ſ', 'x y', 'a.b', 'we"ird', 'q`q', "it's", '',
          'AS', 'as', 'from', '*', '1', 'İ']
WINDOW_NAMES = ['w', 'win', '"W"', 'w1']


class AccGen(SqlGen):
    def __init__(self, rng, comments=True, max_depth=3):
        super().__init__(rng, comments=comments, max_depth=max_depth)

    # ---- identifiers in all quoting styles
    def quoted(self, body, style):
        if style == 'plain':
            return body if body and body.replace('_', 'a').isalnum() and not body[0].isdigit() else 'p_' + str(len(body))
        if style == 'dq':
            return '"' + body.replace('"', '""') + '"'
        if style == 'bt':
            return '`' + body.replace('`', '') + '`'
        if style == 'sq':
            return "'" + body.replace("'", "''") + "'"
        if style == 'br':
            return '[' + body.replace(']', '').replace('[', '') + ']'
        return body

    def ident(self):
        r = self.r.random()
        style = 'plain' if r < 0.5 else 'dq' if r < 0.72 else 'bt' if r < 0.88 else 'br' if r < 0.93 else 'sq'
        body = self.r.choice(QNAMES if style != 'plain' else gens.NAMES)
        return [nm(self.quoted(body, style))]

    def dot(self):
        r = self.r.random()
        if r < 0.85:
            return [('punct', '.')]
        if r < 0.95:
            return [WS0, ('punct', '.'), WS0]
        return [('punct', '.'), ('punct', '.')]

    def qualified(self):
        out = self.ident()
        r = self.r.random()
        if r < 0.45:
            out = self.ident() + self.dot() + out
            if self.r.random() < 0.2:
                out = self.ident() + self.dot() + out
        elif r < 0.50:
            out = self.ident() + self.dot() + [('op', '*')]
        elif r < 0.52:
            out = [('punct', '.')] + out
        return out

    def alias(self):
        r = self.r.random()
        if r < 0.35:
            return []
        if r < 0.70:
            return [WS1, kw('AS'), WS1] + self.ident()
        if r < 0.93:
            return [WS1] + self.ident()
        if r < 0.96:
            return [WS1, kw('AS')]
        return [WS1, kw('AS'), WS1, kw(self.r.choice(['ORDER', 'KEY', 'TABLE', 'NULL', 'END']))]

    # ---- calls
    def arg(self, d):
        r = self.r.random()
        if r < 0.25:
            return self.qualified()
        if r < 0.40:
            return self.literal()
        if r < 0.46:
            return [kw('NULL')]
        if r < 0.52:
            return [('op', '*')]
        if r < 0.60:
            return self.qualified() + [WS0, ('op', self.r.choice(['+', '-', '*', '||'])), WS0] + self.number()
        if r < 0.66:
            return self.typed_literal()
        if r < 0.74:
            return self.funcall(d + 1)
        if r < 0.78:
            return [kw('DISTINCT'), WS1] + self.qualified()
        if r < 0.83 and d < self.max_depth:
            return [('punct', '('), WS0] + self.select(d + 1) + [WS0, ('punct', ')')]
        if r < 0.88:
            return self.case(d + 1)
        if r < 0.92:
            return self.qualified() + [('punct', '::')] + [nm(self.r.choice(gens.TYPES))]
        return self.expr(d + 1)

    def window(self, d):
        r = self.r.random()
        if r < 0.3:
            return [WS1, kw('OVER'), WS1, nm(self.r.choice(WINDOW_NAMES))]
        out = [WS1, kw('OVER'), WS0, ('punct', '('), WS0]
        if self.r.random() < 0.6:
            out += [kw('PARTITION BY'), WS1] + self.qualified()
        if self.r.random() < 0.6:
            out += [WS1, kw('ORDER BY'), WS1] + self.qualified()
            if self.r.random() < 0.5:
                out += [WS1, kw(self.r.choice(['ASC', 'DESC']))]
        out += [WS0, ('punct', ')')]
        if r > 0.95:
            out = [WS1, kw('OVER')]
        return out

    def funcall(self, d):
        name = [nm(self.r.choice(gens.FUNCS))]
        if self.r.random() < 0.15:
            name = self.ident() + [('punct', '.')] + name
        out = name + [self.r.choice([WS0, WS0, WS0, WS1]), ('punct', '('), WS0]
        n = self.r.choice([0, 1, 1, 1, 2, 2, 3])
        for i in range(n):
            if i:
                out += [WS0, ('punct', ','), WS0]
            out += self.arg(d + 1)
        out += [WS0, ('punct', ')')]
        if self.r.random() < 0.3:
            out += self.window(d)
        return out

    def case(self, d):
        out = [kw('CASE')]
        if self.r.random() < 0.3:
            out += [WS1] + self.qualified()
        for _ in range(self.r.choice([0, 1, 1, 2, 3])):
            out += [WS1, kw('WHEN'), WS1] + self.cond(d + 1) + [WS1, kw('THEN'), WS1] + self.expr(d + 1)
        if self.r.random() < 0.5:
            out += [WS1, kw('ELSE'), WS1] + self.expr(d + 1)
        if self.r.random() < 0.93:
            out += [WS1, kw('END')]
        return out

    def expr(self, d=0):
        r = self.r.random()
        if d < self.max_depth:
            if r < 0.10:
                return self.funcall(d)
            if r < 0.16:
                return self.case(d)
            if r < 0.22:
                return self.qualified() + [self.r.choice([WS0, WS0, WS1]), ('punct', '::'),
                                           self.r.choice([WS0, WS0, WS1])] + \
                    [nm(self.r.choice(gens.TYPES))] + ([('punct', '['), ('punct', ']')] if self.r.random() < 0.2 else [])
            if r < 0.28:
                out = self.qualified()
                for _ in range(self.r.choice([1, 1, 2])):
                    out += [('punct', '[')] + self.r.choice([[], self.number(), self.number() + [('punct', ':')] + self.number(),
                                                              self.qualified()]) + [('punct', ']')]
                return out
        return super().expr(d)

    def order_by(self):
        out = [WS1, kw('ORDER BY'), WS1]
        for i in range(self.r.choice([1, 2, 3])):
            if i:
                out += [WS0, ('punct', ','), WS0]
            out += self.qualified()
            if self.r.random() < 0.7:
                out += [WS1, kw(self.r.choice(['ASC', 'DESC', 'asc', 'desc', 'DESC NULLS LAST']))]
        return out

    def select(self, d=0):
        out = super().select(d)
        if self.r.random() < 0.25:
            out += self.order_by()
        return out

    def with_select(self, d=0):
        out = [kw('WITH'), WS1]
        if self.r.random() < 0.15:
            out += [kw('RECURSIVE'), WS1]
        for i in range(self.r.choice([0, 1, 1, 2, 3])):
            if i:
                out += [WS0, ('punct', ','), WS0]
            out += self.ident()
            if self.r.random() < 0.2:
                out += [WS0, ('punct', '('), WS0] + self.ident() + [WS0, ('punct', ','), WS0] + self.ident() + [WS0, ('punct', ')')]
            if self.r.random() < 0.93:
                out += [WS1, kw('AS'), WS0]
            out += [('punct', '('), WS0] + self.select(d + 1) + [WS0, ('punct', ')')]
        if self.r.random() < 0.08:
            out += [WS1] + self.ident()
        dml = self.r.random()
        if dml < 0.5:
            out += [WS1] + self.select(d + 1)
        elif dml < 0.65:
            out += [WS1] + self.insert(d + 1)
        elif dml < 0.8:
            out += [WS1] + self.delete(d + 1)
        elif dml < 0.9:
            out += [WS1] + self.update(d + 1)
        return out

    def create_replace(self, d=0):
        sp = lambda: ('lit', self.r.choice([' ', '  ', '\n', '\t', ' \n ', '\r\n']))  # noqa
        out = [kw('CREATE'), sp(), kw('OR'), sp(), kw('REPLACE'), WS1,
               kw(self.r.choice(['VIEW', 'TABLE', 'FUNCTION'])), WS1] + self.qualified() + \
            [WS1, kw('AS'), WS1] + self.select(d + 1)
        return out

    def odd_head(self):
        """statements whose first word is not a DML/DDL keyword leaf"""
        r = self.r.random()
        if r < 0.25:
            return [kw(self.r.choice(['SELECT', 'INSERT', 'UPDATE', 'DELETE', 'CREATE'])), ('punct', '('), ('lit', '1'), ('punct', ')')]
        if r < 0.45:
            return [kw(self.r.choice(['SELECT', 'DROP', 'ALTER'])), ('punct', '.'), ('lit', self.r.choice(['1', 'a']))]
        if r < 0.60:
            return [kw(self.r.choice(['EXPLAIN', 'SHOW', 'GRANT', 'COMMIT', 'BEGIN', 'SET', 'USE', 'CALL'])), WS1] + self.select()
        if r < 0.75:
            return [('punct', '('), WS0] + self.select() + [WS0, ('punct', ')')]
        if r < 0.85:
            return self.qualified() + self.alias()
        return [kw(self.r.choice(['MERGE', 'REPLACE', 'TRUNCATE', 'UPSERT'])), WS1, kw('INTO'), WS1] + self.qualified()

    def statement(self, d=0):
        r = self.r.random()
        if r < 0.12:
            return self.with_select(d)
        if r < 0.20:
            return self.create_replace(d)
        if r < 0.27:
            return self.odd_head()
        return super().statement(d)

    def script(self, nstmts=None):
        out = []
        r = self.r.random()
        if r < 0.35:
            for _ in range(self.r.choice([1, 1, 2])):
                out += self.r.choice([self.comment(), [WS1], self.comment() + [WS1]])
        return out + super().script(nstmts)


ACC_JUNK = ['select', 'insert', 'update', 'delete', 'create', 'create or replace', 'create  or\nreplace',
            'drop', 'alter', 'with', 'with recursive', 'as', 'AS', 'aſ', 'As', 'over', 'OVER', 'over w',
            'over (', 'partition by', 'order by', 'asc', 'desc', 'ASC', 'case', 'when', 'then', 'else',
            'end', 'CASE', 'WHEN', 'THEN', 'ELSE', 'END', 'from', 'join', 'on', 'where', 'set', 'into',
            'values', 'distinct', 'null', 'NULL', 'date', "date '2020-01-01'", 'interval', 'timestamp',
            '(', ')', '(', ')', '[', ']', ',', ',', '.', '.', '..', '::', '::', ':', ';', '*', '*', '+', '-',
            '=', '<', '>', '<=', '!=', '||', ' ', ' ', ' ', ' ', '  ', '\n', '\t', '\r\n',
            'a', 'b', 'x', 'f', 'foo', 't', 'count', 'sum', 'f(', 'f(x)', 'f (x)', 'count(*)', 'f()',
            'a.b', 'a.*', 'a . b', '"a"', '"A b"', '""', '"', '`a`', '``', '`', "'a'", "''", "'", '[a]',
            '"a"."b"', '`a`.`b`', '1', '0', '1.5', "'s'", '$1', ':p', '?', '@v', '#t', 'a[1]', 'a[1][2]',
            'a::int', '::int', 'x::', '-- c\n', '/* c */', '/*+ h */', '--\n', '#c\n', 'int', 'varchar',
            'É', 'ß', 'İ', 'ſ', 'K', '\x00', '\x85', '\xa0', '\ud800', '\U0001f600']


def acc_junk(rng, n=None):
    n = n if n is not None else rng.choice([1, 2, 3, 4, 6, 8, 12, 20, 30])
    return ''.join(rng.choice(ACC_JUNK) for _ in range(n))


def mutate(rng, s):
    for _ in range(rng.choice([1, 1, 2, 3])):
        if not s:
            break
        k = rng.randrange(len(s))
        r = rng.random()
        if r < 0.4:
            s = s[:k] + s[k + 1:]
        elif r < 0.7:
            s = s[:k] + rng.choice(ACC_JUNK) + s[k:]
        elif r < 0.85:
            j = rng.randrange(len(s))
            a, b = min(k, j), max(k, j)
            s = s[:a] + s[b:]
        else:
            s = s[:k] + s[k:k + rng.randrange(1, 12)] + s[k:]
    return s


def acc_text(rng):
    """(text, kind) from the accessor mix."""
    r = rng.random()
    if r < 0.45:
        g = AccGen(rng)
        return render(g.script(rng.choice([1, 1, 1, 2, 3])), rng, layout=rng.choice(['canon', 'random']),
                      comments=rng.choice([0, 0, 0.1, 0.3]),
                      recase=rng.choice([None, 'upper', 'lower', 'random'])), 'acc-sql'
    if r < 0.57:
        g = AccGen(rng)
        s = render(g.script(1), rng, layout=rng.choice(['canon', 'random']), comments=rng.choice([0, 0.1]),
                   recase=rng.choice([None, 'lower', 'random']))
        return mutate(rng, s), 'acc-sql-mutated'
    if r < 0.77:
        return acc_junk(rng), 'acc-junk'
    if r < 0.85:
        return gens.uni(rng), 'uni'
    s, k = gens.mixed_text(rng)
    return s, 'mixed-' + k
