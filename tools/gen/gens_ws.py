"""Whitespace-rich inputs for the strip_whitespace / use_space_around_operators / serializer slice:
runs of blanks/tabs/newlines/CRLF in every inter-token position, before/after parentheses, commas and
operators; comments (with quotes inside); quoted/dollar/backtick literals containing line ends and
trailing blanks; multi-statement scripts; junk."""
import gens

WS_CHARS = [' ', ' ', ' ', '\t', '\n', '\n', '\r\n', '\r', '\x0c', '\x0b', '\xa0', ' ', '\x1c', '\x85']


def ws_run(rng, lo=1, hi=4):
    return ''.join(rng.choice(WS_CHARS) for _ in range(rng.randint(lo, hi)))


def render_ws(atoms, rng, comments=0.0, p0=0.5, recase=None):
    """Like gens.render(layout='random') but every whitespace slot is a RUN of whitespace characters."""
    g = gens.SqlGen(rng)
    out = []
    for kind, text in atoms:
        if kind in ('ws1', 'ws0'):
            if kind == 'ws1':
                s = ws_run(rng)
            else:
                s = ws_run(rng) if rng.random() < p0 else ''
            if comments and rng.random() < comments:
                c = g.comment()[0][1]
                if rng.random() < 0.3:
                    c = rng.choice(["-- don't\n", "/* it's */", '-- say "x\n', "--'\r\n", '# a\'b\n', '/* " */'])
                s = s + c + (ws_run(rng) if rng.random() < 0.6 else '')
                if kind == 'ws1' and not s[-1].isspace():
                    s += rng.choice([' ', '\n'])
            out.append(s)
        elif kind == 'kw':
            if recase == 'lower':
                out.append(text.lower())
            elif recase == 'random':
                out.append(''.join(ch.upper() if rng.random() < 0.5 else ch.lower() for ch in text))
            else:
                out.append(text)
        else:
            out.append(text)
    return ''.join(out)


LITS = ["'a  \n b'", "'x  '", "'it''s  \r\n'", '"Q  \n q"', '"a""b"', "$$a  \r\n b$$", "$t$ x \n$t$", "`a  \n b`",
        "'\\'", "'a\\'  \n'", '"\\"', "'", '"', "''", '[a  b]', "E'\\n  '", "'a\rb'", "$$'$$", '`"`']
OPS = ['=', '<', '>', '<=', '>=', '<>', '!=', '+', '-', '*', '/', '||', '%', '->', '->>', '#>', '@>', '~', ':=',
       '==', '<=>', '^', '&', '|', 'LIKE', 'NOT LIKE', 'ILIKE', 'IN', 'AND', 'OR', '::']
WORDS = ['select', 'from', 'where', 'a', 'b', 'c', 'x', 't', 'foo', '1', '2', '1.5', 'f', 'count', 'as', 'order by',
         'group by', 'case', 'when', 'then', 'else', 'end', 'GO', 'go', 'begin', 'create', 'table', 'insert into',
         'values', 'and', 'or', 'not', 'null', 'join', 'on', 'limit', 'union', 'over', 'if', 'end if', 'for',
         'loop', 'end loop', 'declare', '?', ':x', '@v', '%s', 'é', 'interval', 'date', 'using', 'in', 'like']
PUNCT = ['(', ')', ',', ';', '.', '[', ']', '(', ')', ',', ';']
COMMENTS = ['-- c\n', '-- c  \n', '--c\r\n', "-- don't\n", '-- say "x\n', '/* c */', '/*  c  \n */', "/* it's */", '# c\n',
            '--+ h\n', '/*+ h */', '-- c', '--\n', '/* " */', '-- c\r', '/**/']


def soup(rng, n=None):
    """Token soup with explicit whitespace runs between (almost) all items."""
    n = n if n is not None else rng.choice([2, 3, 5, 8, 12, 20])
    out = []
    for _ in range(n):
        r = rng.random()
        if r < 0.40:
            out.append(rng.choice(WORDS))
        elif r < 0.55:
            out.append(rng.choice(OPS))
        elif r < 0.75:
            out.append(rng.choice(PUNCT))
        elif r < 0.87:
            out.append(rng.choice(LITS))
        else:
            out.append(rng.choice(COMMENTS))
        r = rng.random()
        if r < 0.65:
            out.append(ws_run(rng, 1, 3))
        elif r < 0.75:
            out.append(' ')
    return ''.join(out)


TEMPLATES = [
    'select{w}({w}a{w}){w}from{w}t', 'select{w}a{w},{w}b{w},{w}c{w}from{w}t', 'select{w}f({w}a{w},{w}b{w}){w}',
    'a{w}={w}b', 'select{w}a{w}+{w}b{w}*{w}c', 'select{w}1{w};{w}select{w}2{w};{w}', 'select{w}1{w}GO{w}select{w}2',
    '({w}-- c\n{w}a{w})', '({w}a{w}/* c */{w})', 'select{w}({w}a{w}){w}-- c\n{w}from{w}t', '({w}({w}a{w},{w}b{w}){w})',
    'select{w}a{w}-- c\n{w},{w}b', 'insert into t{w}({w}a{w},{w}b{w}){w}values{w}({w}1{w},{w}2{w})',
    'select{w}case{w}when{w}a{w}={w}1{w}then{w}2{w}end{w}', 'select{w}a{w}->{w}1{w},{w}b{w}->>{w}\'k\'',
    'x{w}:={w}1{w};', '{w}select{w}*{w}from{w}t{w}where{w}a{w}in{w}({w}1{w},{w}2{w})', 'select{w}-{w}1', '{w}', '{w};{w}',
    'select{w}a{w}::{w}int', 'create table t{w}({w}a int{w},{w}b int{w}){w};', 'select{w}a{w}[{w}1{w}]{w}',
    'begin{w}select{w}1{w};{w}end{w};', 'select{w}count({w}*{w}){w}over{w}({w}partition by{w}a{w})',
    "select{w}'a'{w}||{w}'b'", '-- c\n{w}select{w}1', '/* c */{w}select{w}1{w}/* d */{w}', 'select{w}({w}){w}', '({w}',
    '{w}){w}', 'select{w}({w}select{w}a{w}from{w}t{w}){w}x', 'a{w},{w},{w}b', 'select{w}a{w}<{w}={w}b', 'with x as{w}({w}select 1{w}){w}select{w}*{w}from x',
]


def template(rng):
    t = rng.choice(TEMPLATES)
    parts = t.split('{w}')
    out = [parts[0]]
    for p in parts[1:]:
        r = rng.random()
        out.append('' if r < 0.2 else ws_run(rng, 1, 4))
        out.append(p)
    return ''.join(out)


def ws_text(rng):
    r = rng.random()
    if r < 0.34:
        g = gens.SqlGen(rng)
        return render_ws(g.script(), rng, comments=rng.choice([0, 0, 0.1, 0.3]), p0=rng.choice([0.2, 0.5, 0.9]),
                         recase=rng.choice([None, 'lower', 'random'])), 'sql_ws'
    if r < 0.50:
        return template(rng), 'template'
    if r < 0.70:
        return soup(rng), 'soup_ws'
    if r < 0.76:
        g = gens.ProcGen(rng)
        pre, c, post = g.script_with_create()
        return render_ws(pre + c + post, rng, comments=rng.choice([0, 0.1]), p0=0.4, recase=rng.choice([None, 'lower'])), 'proc_ws'
    if r < 0.86:
        s, k = gens.mixed_text(rng)
        return s, 'mixed:' + k
    if r < 0.93:
        return gens.uni(rng), 'uni'
    g = gens.SqlGen(rng)
    s = render_ws(g.script(), rng, comments=0.2, p0=0.5, recase='random')
    k = rng.randrange(0, len(s) + 1)
    return s[:k] + soup(rng, rng.choice([1, 2, 3])) + s[k:], 'sql_ws+soup'


def ws_texts(rng, n, maxlen=1200):
    import collections
    out, dist = [], collections.Counter()
    for _ in range(n):
        s, k = ws_text(rng)
        out.append(s[:maxlen])
        dist[k] += 1
    return out, dist
