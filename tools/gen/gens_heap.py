"""Generator for the object-heap correspondence (C03 heap part).

heap_case(rng) -> (k, si, text, ops): a text, the number of grouping passes to run first ('all' or 0..n), a statement
index and a short random sequence of heap operations (format: see ocaml/drv_heap.ml).  The sequence is generated
ADAPTIVELY against the real objects (each operation is executed on the real tree while generating), so paths and
indices are mostly valid; a share of the indices is out of range / negative, extend=True is used on start tokens that
are and are not instances of the class.
"""
import gens
import gens_acc

CLASSES = ['Identifier', 'IdentifierList', 'Parenthesis', 'Function', 'Where', 'Comparison', 'Comment', 'TokenList',
           'Operation', 'Values', 'Case', 'TypedLiteral', 'Over']


def heap_text(rng):
    r = rng.random()
    if r < 0.45:
        s, kind = gens.mixed_text(rng)
    elif r < 0.85:
        s, kind = gens_acc.acc_text(rng)
    else:
        s = rng.choice(['select a, b from t', 'a b c d e', 'x', 'f(a, b) over w', 'select 1 -- c\n, 2',
                        'foo as bar, (a + b) c', 'a.b.c', ' ', ';', 'case when a then b end x'])
        kind = 'fixed'
    return s[:rng.choice([40, 80, 160])], kind


def all_paths(root):
    out = []

    def go(n, p):
        out.append((p, n))
        if n.is_group:
            for k, c in enumerate(n.tokens):
                go(c, p + [k])
    go(root, [])
    return out


def pstr(p):
    return '.'.join(['r'] + [str(k) for k in p])


def pick_index(rng, n, wide=False):
    """mostly a valid index of a list of length n; sometimes negative / out of range"""
    r = rng.random()
    if n > 0 and r < 0.75:
        return rng.randrange(n)
    if r < 0.83:
        return n
    if r < 0.88:
        return n + rng.randrange(1, 4)
    if r < 0.95:
        return -rng.randrange(1, n + 3)
    return rng.randrange(-3, n + 3)


def gen_op(rng, root, allow_minus1_extend=False):
    import impl_heap
    from sqlparse import sql
    nodes = all_paths(root)
    groups = [(p, n) for p, n in nodes if n.is_group]
    r = rng.random()
    # target: mostly groups, sometimes a leaf (AttributeError paths)
    if rng.random() < 0.93 or not nodes:
        p, g = rng.choice(groups)
    else:
        p, g = rng.choice(nodes)
    n = len(g.tokens) if g.is_group else 0
    b = lambda x=0.5: '1' if rng.random() < x else '0'  # noqa
    if r < 0.34:
        start = pick_index(rng, n)
        # class: often the class of the start token (so that extend hits the branch)
        cls = rng.choice(CLASSES)
        ext = rng.random() < 0.5
        if ext and g.is_group and rng.random() < 0.5:
            cand = [i for i, t in enumerate(g.tokens) if t.is_group]
            if cand:
                start = rng.choice(cand)
        if ext and g.is_group and -n <= start < n and g.tokens[start].is_group and rng.random() < 0.7:
            cls = type(g.tokens[start]).__name__
            if cls == 'Statement':
                cls = 'TokenList'
        if ext and start == -1 and not allow_minus1_extend:
            start = n - 1 if n else 0
        rr = rng.random()
        if rr < 0.7:
            end = start + rng.randrange(0, 4) if start >= 0 else start + rng.randrange(0, 3)
        elif rr < 0.85:
            end = pick_index(rng, n)
        else:
            end = rng.randrange(-n - 2, n + 3)
        incl = rng.random() < 0.8
        return 'G:%s:%s:%d:%d:%d:%d' % (pstr(p), cls, start, end, incl, ext)
    if r < 0.42:
        w = pick_index(rng, n)
        if rng.random() < 0.4 and nodes:
            # a token: usually a child of the group, sometimes any object
            if g.is_group and n and rng.random() < 0.8:
                w = '@' + pstr(p + [rng.randrange(n)])
            else:
                w = '@' + pstr(rng.choice(nodes)[0])
        if rng.random() < 0.5:
            return 'IB:%s:%s:%s' % (pstr(p), w, rng.choice(['32', '10', '32,32']))
        return 'IA:%s:%s:%s:%s' % (pstr(p), w, b(), rng.choice(['32', '10']))
    if r < 0.52:
        return 'N:%s:%d:%s:%s' % (pstr(p), pick_index(rng, n), b(0.6), b(0.3))
    if r < 0.62:
        return 'P:%s:%d:%s:%s' % (pstr(p), pick_index(rng, n), b(0.6), b(0.3))
    if r < 0.68:
        rev = rng.random() < 0.4
        e = 'N' if rev or rng.random() < 0.4 else str(pick_index(rng, n))
        return 'M:%s:%d:%s:%d:%s:%s' % (pstr(p), pick_index(rng, n), e, rev, b(), b(0.3))
    if r < 0.72:
        return 'F:%s:%s:%s' % (pstr(p), b(0.6), b(0.3))
    if r < 0.79:
        if g.is_group and n and rng.random() < 0.8:
            t = p + [rng.randrange(n)]
        else:
            t = rng.choice(nodes)[0]
        start = 0 if rng.random() < 0.6 else pick_index(rng, n)
        return 'X:%s:%s:%d' % (pstr(p), pstr(t), start)
    if r < 0.87:
        a = rng.choice(nodes)[0]
        if rng.random() < 0.6 and a:
            bb = a[:rng.randrange(len(a))]          # a proper ancestor
        else:
            bb = rng.choice(nodes)[0]
        return '%s:%s:%s' % (rng.choice('AC'), pstr(a), pstr(bb))
    if r < 0.91:
        a = rng.choice(nodes)[0]
        anc = [type(resolve(root, a[:i])).__name__ for i in range(len(a))]
        cls = rng.choice(anc) if anc and rng.random() < 0.5 else rng.choice(CLASSES + ['Statement'])
        return 'W:%s:%s' % (pstr(a), cls)
    if r < 0.96:
        ln = len(str(g)) if g.is_group else 3
        off = rng.randrange(-2, ln + 3)
        return 'O:%s:%d' % (pstr(p), off)
    return 'FL:%s' % pstr(p)


def resolve(root, p):
    n = root
    for k in p:
        n = n.tokens[k]
    return n


def heap_case(rng, allow_minus1_extend=False):
    """(k, si, text, ops, kind)"""
    import impl
    import impl_heap
    npass = len(impl.pass_list())
    for _ in range(50):
        text, kind = heap_text(rng)
        r = rng.random()
        k = 'all' if r < 0.5 else 0 if r < 0.75 else rng.randrange(npass + 1)
        try:
            stmts = impl_heap.parse_upto(text, None if k == 'all' else k)
        except Exception:  # noqa
            continue
        if not stmts:
            continue
        si = rng.randrange(len(stmts))
        root = stmts[si]
        ops = []
        for _ in range(rng.choice([1, 2, 3, 4, 6, 8, 12])):
            op = gen_op(rng, root, allow_minus1_extend)
            ops.append(op)
            _, stop = impl_heap.run_op(root, op)
            if stop:
                break
        return str(k), si, text, '/'.join(ops), kind
    return 'all', 0, 'a', 'FL:r', 'fallback'
