"""Generators for the command line slice (C19, sqlformat): argument vectors and input texts.

Argument vectors are built from the flags the REAL parser declares (read off cli.create_parser()._actions, so
a new flag is exercised without touching this file): every spelling of every flag, valid and invalid values,
`--flag value`, `--flag=value`, `-xVALUE`, clusters of short flags (`-ra`, `-rk upper`), unique and ambiguous
prefixes of long flags, repeated flags, unknown flags, `--`, negative-number-like strings, missing / doubled
file names, stdin (`-`), -o paths that can and cannot be opened.
"""
import argparse

import gens

ENC_TABLE = ['utf-8', 'utf8', 'UTF-8', 'latin-1', 'latin1', 'iso-8859-1']          # resolved by the model itself
ENC_UNKNOWN = ['bogus-enc', 'utf-99', '', 'no such', 'rot13', 'base64']              # LookupError in Python
ENC_OUTSIDE = ['ascii', 'cp1252', 'UTF8', 'utf_8', 'utf-16']                         # known to Python, abstract in the model

INT_VALUES = ['0', '1', '2', '4', '8', '30', '-1', '-0', '+3', ' 5 ', '007', '1_0', '_1', '1__0', '٣', '３', '12a', '',
              'x', '2.5', '-2.5', '-.5', '1e3', '9' * 30, '9' * 4301, '-', '--', '-x', '1\n', '-1\n', '0x10', '\t7', '७७']
BOOL_VALUES = ['True', 'False', 'true', 'false', '1', '0', '', ' ', 'no', 'x', '-', '-1', '--', '-x']
JUNK_WORDS = ['x', 'upper', 'UPPER', 'Upper', 'sql', 'foo bar', ' ', '', 'é', '表', '\U0001f600', 'a=b', '=', '=x', '-', '-1',
              '-1.5', '-.5', '-1x', '--', '-x', '--nope', '--nope=1', '-z', '-=', '--=x', '---', '-- ', '- ', '-\n', 'in.sql',
              '-١', '-1\n', '-1 2', '--key words']


def parser_flags():
    """(action facts) for every option of the real parser."""
    from sqlparse import cli
    p = cli.create_parser()
    out = []
    for a in p._actions:
        if not a.option_strings:
            continue
        if isinstance(a, (argparse._HelpAction, argparse._VersionAction)):
            kind = 'exit'
        elif isinstance(a, argparse._StoreTrueAction):
            kind = 'flag'
        elif a.choices:
            kind = 'choice'
        elif a.type is int:
            kind = 'int'
        elif a.type is bool:
            kind = 'bool'
        elif a.dest == 'encoding':
            kind = 'encoding'
        elif a.dest == 'outfile':
            kind = 'outfile'
        else:
            kind = 'str'
        out.append({'flags': list(a.option_strings), 'dest': a.dest, 'kind': kind, 'choices': list(a.choices or [])})
    return out


class ArgvGen:
    def __init__(self, rng, paths):
        """paths: {'in': [...readable], 'missing': [...], 'out_ok': [...], 'out_bad': [...]} as they should appear in argv."""
        self.r = rng
        self.paths = paths
        self.acts = parser_flags()
        self.long_flags = [f for a in self.acts for f in a['flags'] if f.startswith('--')]
        self.tags = set()

    # ---- values
    def value(self, a, valid=None):
        r = self.r
        k = a['kind']
        if valid is None:
            valid = r.random() < 0.75
        if k == 'choice':
            return r.choice(a['choices']) if valid else r.choice(JUNK_WORDS + [a['choices'][0].upper(), a['choices'][0] + ' '])
        if k == 'int':
            return r.choice(['0', '1', '2', '3', '4', '8', '30', '100']) if valid else r.choice(INT_VALUES)
        if k == 'bool':
            return r.choice(BOOL_VALUES)
        if k == 'encoding':
            x = r.random()
            if valid or x < 0.5:
                return r.choice(ENC_TABLE)
            if x < 0.9:
                return r.choice(ENC_UNKNOWN + JUNK_WORDS[:12])
            return r.choice(ENC_OUTSIDE)
        if k == 'outfile':
            x = r.random()
            if x < 0.7:
                return r.choice(self.paths['out_ok'])
            if x < 0.9:
                return r.choice(self.paths['out_bad'])
            return r.choice(self.paths['in'] + ['', 'upper', 'x y', '-', '-1', '--', 'é'])
        return r.choice(JUNK_WORDS)

    def spelling(self, a):
        """A way of writing the flag: exact, or a prefix of a long spelling (unique or not)."""
        r = self.r
        f = r.choice(a['flags'])
        if f.startswith('--') and r.random() < 0.25:
            cut = r.randrange(2, len(f) + 1)
            self.tags.add('prefix')
            return f[:cut]
        return f

    def use(self):
        """The argument strings of one use of a random flag."""
        r = self.r
        a = r.choice(self.acts)
        if a['kind'] == 'exit' and r.random() < 0.7:
            a = r.choice(self.acts)
        f = self.spelling(a)
        short = not f.startswith('--')
        takes = a['kind'] not in ('flag', 'exit')
        x = r.random()
        if not takes:
            if x < 0.08:
                self.tags.add('flag=value')
                return [f + '=' + r.choice(['', '1', 'x'])]
            if short and x < 0.45:
                return self.cluster(f)
            return [f]
        v = self.value(a)
        if x < 0.55:
            return [f, v]
        if x < 0.8:
            self.tags.add('=form')
            return [f + '=' + v]
        if short and x < 0.92:
            self.tags.add('glued')
            return [f + v]
        self.tags.add('missing-value')
        return [f]

    def cluster(self, f):
        """-r followed by more short flags in the same string, possibly ending in one that takes a value."""
        r = self.r
        shorts = [(a, s) for a in self.acts for s in a['flags'] if not s.startswith('--')]
        s = f
        for _ in range(r.randrange(1, 4)):
            a, t = r.choice(shorts)
            s += t[1]
            if a['kind'] not in ('flag', 'exit'):
                self.tags.add('cluster+value')
                x = r.random()
                if x < 0.4:
                    return [s + self.value(a)]
                if x < 0.8:
                    return [s, self.value(a)]
                return [s]
        if r.random() < 0.15:
            s += r.choice(['z', '-', '=', '=x', '1'])
        self.tags.add('cluster')
        return [s]

    def filename(self):
        r = self.r
        x = r.random()
        if x < 0.55:
            return r.choice(self.paths['in'])
        if x < 0.8:
            return '-'
        if x < 0.92:
            return r.choice(self.paths['missing'])
        return r.choice(JUNK_WORDS)

    def clean_use(self, a=None):
        """A well-formed use: an exact spelling or a unique prefix, a valid value, any of the three forms."""
        r = self.r
        a = a or r.choice([x for x in self.acts if x['kind'] != 'exit'])
        f = r.choice(a['flags'])
        if f.startswith('--') and r.random() < 0.2:
            cuts = [f[:i] for i in range(3, len(f)) if sum(1 for g in self.long_flags + ['--help', '--version']
                                                         if g.startswith(f[:i])) == 1]
            if cuts:
                f = r.choice(cuts)
                self.tags.add('unique-prefix')
        if a['kind'] == 'flag':
            return [f]
        v = self.value(a, valid=True)
        if a['kind'] == 'outfile':
            v = r.choice(self.paths['out_ok'])
        x = r.random()
        if x < 0.6 and not (v.startswith('-') or v == ''):
            return [f, v]
        if x < 0.6:
            return [f + '=' + v]
        if x < 0.85 or f.startswith('--'):
            self.tags.add('=form')
            return [f + '=' + v]
        self.tags.add('glued')
        return [f + v]

    def clean_argv(self, enc=None):
        """One file name (or '-'), well-formed uses; -o and --encoding often present."""
        r = self.r
        self.tags = {'clean'}
        by_dest = {a['dest']: a for a in self.acts}
        parts = [self.clean_use() for _ in range(r.choice([0, 1, 1, 2, 3, 5]))]
        parts = [p for p in parts if not p[0].startswith(('-o', '--o', '--e'))]
        if r.random() < 0.5:
            parts.append(self.clean_use(by_dest['outfile']))
        if enc is not None:
            f = r.choice(['--encoding', '--enc', '--e'])
            parts.append([f, enc] if r.random() < 0.6 else [f + '=' + enc])
        r.shuffle(parts)
        x = r.random()
        name = r.choice(self.paths['in']) if x < 0.6 else ('-' if x < 0.92 else r.choice(self.paths['missing']))
        parts.insert(r.randrange(len(parts) + 1), [name])
        return [s for p in parts for s in p], sorted(self.tags)

    def argv(self):
        r = self.r
        self.tags = set()
        parts = []
        for _ in range(r.choice([0, 0, 1, 1, 1, 2, 2, 3, 4, 6])):
            parts.append(self.use())
        x = r.random()
        nfile = 1 if x < 0.82 else (0 if x < 0.9 else 2)
        for _ in range(nfile):
            parts.insert(r.randrange(len(parts) + 1), [self.filename()])
        if nfile != 1:
            self.tags.add('files=%d' % nfile)
        if r.random() < 0.08:
            parts.insert(r.randrange(len(parts) + 1), [r.choice(JUNK_WORDS)])
            self.tags.add('junk-arg')
        if r.random() < 0.07:
            parts.insert(r.randrange(len(parts) + 1), ['--'])
            self.tags.add('--')
            if r.random() < 0.3:
                parts.insert(r.randrange(len(parts) + 1), ['--'])
        out = [s for p in parts for s in p]
        return out, sorted(self.tags)


def input_text(r, maxlen=120):
    """(text, tags): SQL-ish text with the characters the CLI paths are sensitive to."""
    s, kind = gens.mixed_text(r)
    s = s[:r.randrange(1, maxlen)]
    cs = [c for c in s if not 0xD800 <= ord(c) <= 0xDFFF]
    tags = [kind]
    if r.random() < 0.3:
        for _ in range(r.randrange(1, 3)):
            cs.insert(r.randrange(len(cs) + 1), r.choice(['\r\n', '\r', '\r\r\n', '\n\r']))
        tags.append('CR')
    if r.random() < 0.2:
        cs.insert(r.randrange(len(cs) + 1), r.choice(['ÿ', 'é', 'ß', 'µ']))
        tags.append('latin')
    if r.random() < 0.1:
        cs.insert(r.randrange(len(cs) + 1), r.choice(['€', 'я', '表', '\U0001f600']))
        tags.append('wide')
    if r.random() < 0.03:
        cs.insert(r.randrange(len(cs) + 1), '\x07')
        tags.append('BEL')
    return ''.join(cs), tags


def input_bytes(r, text):
    """(bytes, how): the text in one of the table encodings, or bytes that are not valid UTF-8."""
    x = r.random()
    if x < 0.5:
        return text.encode('utf-8', 'surrogatepass'), 'utf-8'
    if x < 0.9:
        try:
            return text.encode('latin-1'), 'latin-1'
        except UnicodeEncodeError:
            return text.encode('utf-8', 'surrogatepass'), 'utf-8'
    return bytes(r.randrange(256) for _ in range(r.randrange(0, 12))), 'random-bytes'
