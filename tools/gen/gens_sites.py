"""Generators for C06: scripts of the verification grammar (comments in any inter-token position)
x combinations of the layout options with valid values."""
import gens

LAYOUT_BOOL = ['reindent', 'reindent_aligned', 'strip_whitespace', 'use_space_around_operators',
               'indent_tabs', 'indent_after_first', 'indent_columns', 'comma_first', 'compact']
LAYOUT_INT = {'indent_width': [1, 2, 2, 3, 4, 8], 'wrap_after': [0, 0, 1, 5, 10, 20, 40, 80]}
LAYOUT_ALL = LAYOUT_BOOL + list(LAYOUT_INT)


def layout_options(rng):
    """A random combination of the layout options of C06 (possibly none), valid values only."""
    r = rng.random()
    if r < 0.05:
        return {}
    opts = {}
    if r < 0.30:
        # one main switch plus its modifiers
        opts[rng.choice(['reindent', 'reindent_aligned', 'strip_whitespace', 'use_space_around_operators'])] = True
    p = rng.choice([0.2, 0.35, 0.5])
    for k in LAYOUT_BOOL:
        if k not in opts and rng.random() < p:
            opts[k] = rng.random() < 0.8
    for k, vals in LAYOUT_INT.items():
        if rng.random() < p:
            opts[k] = rng.choice(vals)
    return opts


class LayoutGen(gens.SqlGen):
    """the verification grammar with more line structure INSIDE tokens (what the serializer could
    touch): strings, quoted names, dollar literals and comments containing line ends / trailing
    blanks / quotes"""

    def string(self):
        if self.r.random() < 0.25:
            body = self.r.choice(['a \nb', 'a\r\nb', 'x\ry', ' \n', 'two  \n  lines', "it''s \n", 'tab\t\nq', 'a\\'])
            return [('lit', "'" + body + "'")]
        return super().string()

    def ident(self):
        r = self.r.random()
        n = self.ident_plain()
        if r < 0.04:
            return [gens.nm('"' + n + self.r.choice([' \n', '\r\n', ' \nz']) + '"')]
        if r < 0.08:
            return [gens.nm('`' + n + self.r.choice([' \n', '\r\n', ' \nz', '\r']) + '`')]
        if r < 0.10:
            return [gens.nm('[' + n + self.r.choice([' \n', '\r\n', ' \nz']) + ']')]
        return super().ident()

    def comment(self):
        r = self.r.random()
        if r < 0.2:
            return [('comment', '/* ' + self.r.choice(['a \n b', 'a\r\nb', "it's\n", 'x \n', '\r', '" \n']) + ' */')]
        if r < 0.3:
            return [('comment', '-- ' + self.r.choice(["it's", 'say "x', 'c ', 'c\t', '`']) + self.r.choice(['\n', '\r\n', '\r']))]
        return super().comment()


def with_comments(atoms, g, rng, p):
    """comments (from generator g) in whitespace slots: any inter-token position"""
    out = []
    for a in atoms:
        out.append(a)
        if a[0] in ('ws1', 'ws0') and rng.random() < (p if a[0] == 'ws1' else p / 2):
            out += [('comment', g.comment()[0][1]), ('ws0', '')]
    return out


def script(rng):
    """(text, kind): a script of the verification grammar under a random layout."""
    r = rng.random()
    if r < 0.12:
        g = gens.ProcGen(rng)
        pre, c, post = g.script_with_create()
        return gens.render(pre + c + post, rng, layout=rng.choice(['canon', 'random']),
                           comments=rng.choice([0, 0, 0.1]), recase=rng.choice([None, 'random', 'lower'])), 'proc'
    g = LayoutGen(rng) if rng.random() < 0.6 else gens.SqlGen(rng)
    atoms = g.script()
    kind = 'sql'
    if r < 0.22:
        # T-SQL batch separators between statements
        out = []
        for a in atoms:
            out.append(a)
            if a == ('punct', ';') and rng.random() < 0.6:
                out += [('ws1', ' '), gens.kw(rng.choice(['GO', 'go', 'GO 2'])), ('ws1', ' ')]
        atoms = out
        kind = 'sql+go'
    if isinstance(g, LayoutGen):
        atoms = with_comments(atoms, g, rng, rng.choice([0, 0.1, 0.3]))
    text = gens.render(atoms, rng, layout=rng.choice(['canon', 'random', 'random']),
                       comments=rng.choice([0, 0, 0.1, 0.3]) if not isinstance(g, LayoutGen) else 0,
                       recase=rng.choice([None, 'upper', 'lower', 'random']))
    return text, kind


def case(rng, junk_share=0.1):
    if rng.random() < junk_share:
        s, k = gens.mixed_text(rng)
        return s, 'mixed:' + k, layout_options(rng)
    s, k = script(rng)
    return s, k, layout_options(rng)
