#!/usr/bin/env python3
"""Validate seeded changes (mutants) and run the checks against them.

  seedtest.py import <Cxx> <dir with mutants/k/{patch.diff,demo.py,meta.json}>   validate in a scratch worktree, copy to /verif/seeded/
  seedtest.py run <seeded-id>... [--tier quick] [--props Cxx,Cyy]                 apply to /repo, run the check(s), undo

Nothing is ever committed to /repo: the patch is applied to the working tree and reverted straight afterwards."""
import json
import os
import shutil
import subprocess
import sys
import tempfile
import time

VERIF = os.path.dirname(os.path.dirname(os.path.abspath(__file__)))
REPO = '/repo'
SEEDED = os.path.join(VERIF, 'seeded')
PY = '/venv/bin/python'


def sh(cmd, cwd=None, timeout=3600, env=None):
    p = subprocess.run(cmd, cwd=cwd, shell=isinstance(cmd, str), stdout=subprocess.PIPE, stderr=subprocess.STDOUT,
                       text=True, timeout=timeout, env=env, errors='replace')
    return p.returncode, p.stdout


def validate(patch, demo):
    """tests pass with the patch; demo fails with it and passes without. Returns dict."""
    wt = tempfile.mkdtemp(prefix='wt_seed_', dir='/tmp')
    os.rmdir(wt)
    out = {}
    try:
        rc, o = sh(['git', '-C', REPO, 'worktree', 'add', '-q', '--detach', wt, 'HEAD'])
        assert rc == 0, o
        shutil.copy(demo, os.path.join(wt, 'demo_seed.py'))
        env = dict(os.environ, PYTHONPATH=wt, PYTHONHASHSEED='0')
        rc0, o0 = sh([PY, 'demo_seed.py'], cwd=wt, env=env, timeout=900)
        out['demo_clean_rc'] = rc0
        rc, o = sh(['git', 'apply', os.path.abspath(patch)], cwd=wt)
        out['applies'] = (rc == 0)
        if rc != 0:
            out['apply_output'] = o[-500:]
            return out
        rct, ot = sh([PY, '-m', 'pytest', '-q', '-p', 'no:cacheprovider', '-x'], cwd=wt, env=env, timeout=1800)
        out['tests_rc'] = rct
        out['tests_tail'] = ot.strip().splitlines()[-1] if ot.strip() else ''
        rc1, o1 = sh([PY, 'demo_seed.py'], cwd=wt, env=env, timeout=900)
        out['demo_patched_rc'] = rc1
        out['demo_patched_tail'] = o1[-400:]
        out['valid'] = (rc0 == 0 and rct == 0 and rc1 != 0)
    finally:
        sh(['git', '-C', REPO, 'worktree', 'remove', '--force', wt])
        shutil.rmtree(wt, ignore_errors=True)
    return out


def do_import(prop, src, offset=0):
    os.makedirs(SEEDED, exist_ok=True)
    mdir = os.path.join(src, 'mutants')
    for k in sorted(os.listdir(mdir)):
        d = os.path.join(mdir, k)
        patch, demo, meta = (os.path.join(d, x) for x in ('patch.diff', 'demo.py', 'meta.json'))
        if not (os.path.exists(patch) and os.path.exists(demo)):
            continue
        sid = f'{prop}-{int(k) + offset}' if k.isdigit() else f'{prop}-{k}'
        v = validate(patch, demo)
        print(sid, json.dumps({a: b for a, b in v.items() if a != 'demo_patched_tail'}))
        if not v.get('valid'):
            continue
        dst = os.path.join(SEEDED, sid)
        os.makedirs(dst, exist_ok=True)
        shutil.copy(patch, os.path.join(dst, 'patch.diff'))
        shutil.copy(demo, os.path.join(dst, 'demo.py'))
        try:
            with open(meta) as f:
                m = json.load(f)
        except (OSError, ValueError):
            m = {}
        m.update({'property': prop, 'validated': v,
                  'validation_cmd': 'scratch worktree of /repo: demo.py (exit 0) ; git apply patch.diff ; pytest -q (pass) ; demo.py (exit != 0)'})
        with open(os.path.join(dst, 'meta.json'), 'w') as f:
            json.dump(m, f, indent=1)


def do_run(ids, tier, props, slot='0'):
    """Each run uses a private copy of /verif (/tmp/verif_run_<slot>) and a scratch worktree of /repo with the patch
    applied (VERIF_REPO), so that neither /repo nor /verif's build is disturbed; equivalent to
    `git -C /repo apply patch; tools/check.py; git -C /repo checkout -- .`."""
    vcopy = f'/tmp/verif_run_{slot}'
    wt = f'/tmp/wt_run_{slot}'
    os.makedirs(vcopy, exist_ok=True)
    # a slot directory holding a `.nosync` marker keeps its snapshot of /verif (so that /verif can be edited while a long
    # runall is in flight); remove the marker to refresh it
    if not os.path.exists(os.path.join(vcopy, '.nosync')):
      sh(['rsync', '-a', '--delete', '--exclude', '.git', '--exclude', 'seeded', '--exclude', 'replays', '--exclude', 'evidence',
          VERIF + '/', vcopy + '/'])
    os.makedirs(os.path.join(vcopy, 'replays'), exist_ok=True)
    os.makedirs(os.path.join(vcopy, 'evidence'), exist_ok=True)
    for sid in ids:
        dst = os.path.join(SEEDED, sid)
        with open(os.path.join(dst, 'meta.json')) as f:
            m = json.load(f)
        ps = props or [m['property']]
        sh(['git', '-C', REPO, 'worktree', 'remove', '--force', wt])
        shutil.rmtree(wt, ignore_errors=True)
        rc, o = sh(['git', '-C', REPO, 'worktree', 'add', '-q', '--detach', wt, 'HEAD'])
        assert rc == 0, o
        rc, o = sh(['git', 'apply', os.path.join(dst, 'patch.diff')], cwd=wt)
        if rc != 0:
            print(sid, 'PATCH DOES NOT APPLY', o[-300:])
            continue
        env = dict(os.environ, VERIF_REPO=wt)
        env.pop('PYTHONPATH', None)
        try:
            for p in ps:
                t0 = time.time()
                rc, o = sh(['python3', os.path.join(vcopy, 'tools', 'check.py'), p, '--tier', tier], cwd=vcopy, timeout=7200, env=env)
                lines = [ln for ln in o.splitlines() if ln.startswith('VIOLATION') or ln.startswith('KNOWN-FINDING')]
                viol = [ln for ln in lines if ln.startswith('VIOLATION')]
                res = {'check': p, 'tier': tier, 'exit': rc, 'detected': bool(viol) and rc == 1,
                       'violation_line': viol[0] if viol else None, 'wall_s': round(time.time() - t0, 1)}
                if rc not in (0, 1) or (rc == 1 and not viol):
                    res['output_tail'] = o[-600:]
                if viol:
                    rp = viol[0].split('replay=')[1].split()[0]
                    try:
                        with open(rp) as f:
                            r = json.load(f)
                        fl = r.get('failure') or {}
                        res['replay_summary'] = {'broken_obligations': r.get('broken_obligations', [])[:4],
                                                 'observed': str(fl.get('observed'))[:300] if fl else None,
                                                 'input': ''.join(map(chr, fl.get('input', [])))[:200] if fl.get('input') else None,
                                                 'stages': sorted({str(d.get('stage')) for d in r.get('disagreements', []) if isinstance(d, dict)})}
                    except Exception as e:  # noqa
                        res['replay_summary'] = str(e)
                m.setdefault('check_results', {})[p + ':' + tier] = res
                print(sid, json.dumps(res)[:900], flush=True)
        finally:
            sh(['git', '-C', REPO, 'worktree', 'remove', '--force', wt])
            shutil.rmtree(wt, ignore_errors=True)
        with open(os.path.join(dst, 'meta.json'), 'w') as f:
            json.dump(m, f, indent=1)


def do_runall(ids, nslots, tier, props, prefix='q'):
    """Run many seeded ids over nslots parallel private copies."""
    import queue
    import threading
    q = queue.Queue()
    for i in ids:
        q.put(i)

    def worker(k):
        while True:
            try:
                sid = q.get_nowait()
            except queue.Empty:
                return
            cmd = ['python3', os.path.abspath(__file__), 'run', sid, '--slot', f'{prefix}{k}', '--tier', tier]
            if props:
                cmd += ['--props', ','.join(props)]
            rc, o = sh(cmd, timeout=14400)
            print(o.strip()[-1500:], flush=True)
    ths = [threading.Thread(target=worker, args=(k,)) for k in range(nslots)]
    for t in ths:
        t.start()
    for t in ths:
        t.join()


def main():
    if sys.argv[1] == 'runall':
        args = sys.argv[2:]
        nslots, tier, props, ids, prefix = 3, 'quick', None, [], 'q'
        i = 0
        while i < len(args):
            if args[i] == '--slots':
                nslots = int(args[i + 1]); i += 2
            elif args[i] == '--tier':
                tier = args[i + 1]; i += 2
            elif args[i] == '--props':
                props = args[i + 1].split(','); i += 2
            elif args[i] == '--prefix':
                prefix = args[i + 1]; i += 2
            else:
                ids.append(args[i]); i += 1
        do_runall(ids, nslots, tier, props, prefix)
        return
    if sys.argv[1] == 'import':
        do_import(sys.argv[2], sys.argv[3], int(sys.argv[4]) if len(sys.argv) > 4 else 0)
    elif sys.argv[1] == 'run':
        args = sys.argv[2:]
        tier = 'quick'
        props = None
        slot = '0'
        ids = []
        i = 0
        while i < len(args):
            if args[i] == '--tier':
                tier = args[i + 1]
                i += 2
            elif args[i] == '--props':
                props = args[i + 1].split(',')
                i += 2
            elif args[i] == '--slot':
                slot = args[i + 1]
                i += 2
            else:
                ids.append(args[i])
                i += 1
        do_run(ids, tier, props, slot)


if __name__ == '__main__':
    main()
