"""A small fail-closed Python -> Gallina translator for straight-line decision functions
(if/elif/else chains with early returns over token type, value and a few flags).  Anything outside
the recognised subset raises Unsupported."""
import ast

from common import Unsupported, coq_text, coq_ttype


def span(node):
    return {'line': getattr(node, 'lineno', None), 'end_line': getattr(node, 'end_lineno', None)}


class Ty:
    TTYPE = 'ttype'
    TEXT = 'text'
    BOOL = 'bool'
    Z = 'Z'
    TTYPES = 'ttypes'     # tuple of token types (membership by equality)
    TEXTS = 'texts'       # tuple of str constants


class ExprTr:
    """Translates expressions.  env: python source text of a name/attribute -> (coq expr, type)."""

    def __init__(self, env, tokens_alias='T', fname='?'):
        self.env = dict(env)
        self.T = tokens_alias
        self.fname = fname

    def fail(self, node, why=''):
        raise Unsupported(f'{self.fname}: unsupported expression `{ast.unparse(node)}` {why}', span(node))

    def ttype_const(self, node):
        """T.A.B attribute chain -> sqlparse token type, or None."""
        chain = []
        n = node
        while isinstance(n, ast.Attribute):
            chain.append(n.attr)
            n = n.value
        if isinstance(n, ast.Name) and n.id == self.T and chain:
            from sqlparse import tokens
            tt = tokens
            for a in reversed(chain):
                tt = getattr(tt, a)
            if not isinstance(tt, tokens._TokenType):
                return None
            return tt
        return None

    def tr(self, node):
        """-> (coq expr, type)"""
        src = ast.unparse(node)
        if src in self.env:
            return self.env[src]
        tt = self.ttype_const(node)
        if tt is not None:
            return coq_ttype(tt), Ty.TTYPE
        if isinstance(node, ast.Constant):
            v = node.value
            if isinstance(v, bool):
                return ('true' if v else 'false'), Ty.BOOL
            if isinstance(v, int):
                return f'({v})%Z', Ty.Z
            if isinstance(v, str):
                return coq_text(v), Ty.TEXT
            self.fail(node)
        if isinstance(node, ast.UnaryOp) and isinstance(node.op, ast.USub):
            e, t = self.tr(node.operand)
            if t != Ty.Z:
                self.fail(node)
            return f'(- {e})%Z', Ty.Z
        if isinstance(node, ast.UnaryOp) and isinstance(node.op, ast.Not):
            return f'(negb {self.bool(node.operand)})', Ty.BOOL
        if isinstance(node, ast.BoolOp):
            op = 'andb' if isinstance(node.op, ast.And) else 'orb'
            parts = [self.bool(v) for v in node.values]
            e = parts[-1]
            for p in reversed(parts[:-1]):
                e = f'({op} {p} {e})'
            return e, Ty.BOOL
        if isinstance(node, ast.Tuple):
            elts = [self.tr(e) for e in node.elts]
            tys = {t for _, t in elts}
            if tys == {Ty.TTYPE}:
                return '[' + '; '.join(e for e, _ in elts) + ']', Ty.TTYPES
            if tys == {Ty.TEXT}:
                return '[' + '; '.join(e for e, _ in elts) + ']', Ty.TEXTS
            self.fail(node)
        if isinstance(node, ast.BinOp) and isinstance(node.op, (ast.Add, ast.Sub)):
            a, ta = self.tr(node.left)
            b, tb = self.tr(node.right)
            if ta != Ty.Z or tb != Ty.Z:
                self.fail(node)
            return f'({a} {"+" if isinstance(node.op, ast.Add) else "-"} {b})%Z', Ty.Z
        if isinstance(node, ast.Call):
            f = ast.unparse(node.func)
            if f == 'max' and len(node.args) == 2 and not node.keywords:
                a, ta = self.tr(node.args[0])
                b, tb = self.tr(node.args[1])
                if ta != Ty.Z or tb != Ty.Z:
                    self.fail(node)
                return f'(Z.max {a} {b})', Ty.Z
            # ' '.join(X.split()): white space runs collapsed to one blank, leading/trailing dropped
            if isinstance(node.func, ast.Attribute) and node.func.attr == 'join' and not node.keywords \
                    and isinstance(node.func.value, ast.Constant) and node.func.value.value == ' ' \
                    and len(node.args) == 1 and isinstance(node.args[0], ast.Call) \
                    and isinstance(node.args[0].func, ast.Attribute) and node.args[0].func.attr == 'split' \
                    and not node.args[0].args and not node.args[0].keywords:
                obj, to = self.tr(node.args[0].func.value)
                if to == Ty.TEXT:
                    return f'(join_split space_set {obj})', Ty.TEXT
                self.fail(node)
            if isinstance(node.func, ast.Attribute) and not node.keywords:
                obj, to = self.tr(node.func.value)
                meth = node.func.attr
                if to == Ty.TEXT and meth == 'upper' and not node.args:
                    return f'(upper {obj})', Ty.TEXT
                if to == Ty.TEXT and meth == 'startswith' and len(node.args) == 1:
                    a, ta = self.tr(node.args[0])
                    if ta != Ty.TEXT:
                        self.fail(node)
                    return f'(text_prefixb {a} {obj})', Ty.BOOL
            self.fail(node)
        if isinstance(node, ast.Subscript):
            # value.split()[0]
            if ast.unparse(node.slice) == '0' and isinstance(node.value, ast.Call) and \
                    isinstance(node.value.func, ast.Attribute) and node.value.func.attr == 'split' \
                    and not node.value.args and not node.value.keywords:
                obj, to = self.tr(node.value.func.value)
                if to == Ty.TEXT:
                    return f'(first_word space_set {obj})', Ty.TEXT
            self.fail(node)
        if isinstance(node, ast.Compare) and len(node.ops) == 1:
            op = node.ops[0]
            a, ta = self.tr(node.left)
            b, tb = self.tr(node.comparators[0])
            if isinstance(op, (ast.Is, ast.IsNot)) and ta == Ty.TTYPE and tb == Ty.TTYPE:
                e = f'(ttype_eqb {a} {b})'
                return (e if isinstance(op, ast.Is) else f'(negb {e})'), Ty.BOOL
            if isinstance(op, (ast.Eq, ast.NotEq)) and ta == tb and ta in (Ty.TTYPE, Ty.TEXT):
                fn = 'ttype_eqb' if ta == Ty.TTYPE else 'text_eqb'
                e = f'({fn} {a} {b})'
                return (e if isinstance(op, ast.Eq) else f'(negb {e})'), Ty.BOOL
            if isinstance(op, (ast.In, ast.NotIn)):
                if ta == Ty.TTYPE and tb == Ty.TTYPE:
                    e = f'(tin {a} {b})'            # _TokenType.__contains__: prefix test
                elif ta == Ty.TTYPE and tb == Ty.TTYPES:
                    e = f'(existsb (ttype_eqb {a}) {b})'   # tuple membership: equality
                elif ta == Ty.TEXT and tb == Ty.TEXTS:
                    e = f'(existsb (text_eqb {a}) {b})'
                else:
                    self.fail(node)
                return (e if isinstance(op, ast.In) else f'(negb {e})'), Ty.BOOL
            if ta == Ty.Z and tb == Ty.Z:
                ops = {ast.Eq: 'Z.eqb', ast.Lt: 'Z.ltb', ast.LtE: 'Z.leb', ast.Gt: 'Z.gtb',
                       ast.GtE: 'Z.geb'}
                for k, fn in ops.items():
                    if isinstance(op, k):
                        return f'({fn} {a} {b})', Ty.BOOL
                if isinstance(op, ast.NotEq):
                    return f'(negb (Z.eqb {a} {b}))', Ty.BOOL
            self.fail(node)
        self.fail(node)

    def bool(self, node):
        e, t = self.tr(node)
        if t != Ty.BOOL:
            self.fail(node, '(not a boolean)')
        return e


class FunTr:
    """Translates a function body made of if/elif/else, returns, flag assignments and local
    bindings into a Gallina expression of type (state * Z), by continuation duplication."""

    def __init__(self, fname, state_var, fields, env, locals_ok):
        self.fname = fname
        self.sv = state_var
        self.fields = fields          # python attr source -> (coq field name, type)
        self.base_env = env
        self.locals_ok = locals_ok    # local names that may be bound, with their type

    def env_for(self, st, local_env):
        env = dict(self.base_env)
        for src, (fld, ty) in self.fields.items():
            env[src] = (f'({fld} {st})', ty)
        env.update(local_env)
        return env

    def setter(self, st, fld, val):
        parts = []
        for _, (f, _t) in self.fields.items():
            parts.append(f'{f} := ' + (val if f == fld else f'{f} {st}'))
        return '{| ' + '; '.join(parts) + ' |}'

    def tr_block(self, stmts, st, local_env, depth=0):
        if not stmts:
            raise Unsupported(f'{self.fname}: control reaches the end of the function without return')
        s, rest = stmts[0], stmts[1:]
        et = ExprTr(self.env_for(st, local_env), fname=self.fname)
        if isinstance(s, ast.Expr) and isinstance(s.value, ast.Constant) and isinstance(s.value.value, str):
            return self.tr_block(rest, st, local_env, depth)
        if isinstance(s, ast.Return):
            if s.value is None:
                raise Unsupported(f'{self.fname}: bare return', span(s))
            e, t = et.tr(s.value)
            if t != Ty.Z:
                raise Unsupported(f'{self.fname}: return of non-integer `{ast.unparse(s.value)}`', span(s))
            return f'({st}, {e})'
        if isinstance(s, ast.If):
            g = et.bool(s.test)
            a = self.tr_block(list(s.body) + rest, st, local_env, depth + 1)
            b = self.tr_block(list(s.orelse) + rest, st, local_env, depth + 1)
            return f'(if {g} then {a} else {b})'
        if isinstance(s, ast.Assign) and len(s.targets) == 1:
            tgt = ast.unparse(s.targets[0])
            if tgt in self.fields:
                fld, ty = self.fields[tgt]
                e, t = et.tr(s.value)
                if t != ty:
                    raise Unsupported(f'{self.fname}: `{ast.unparse(s)}` assigns {t} to a {ty} field', span(s))
                nst = f's{depth}_{len(rest)}'
                body = self.tr_block(rest, nst, local_env, depth)
                return f'(let {nst} := {self.setter(st, fld, e)} in {body})'
            if tgt in self.locals_ok:
                e, t = et.tr(s.value)
                if t != self.locals_ok[tgt]:
                    raise Unsupported(f'{self.fname}: local `{tgt}` bound to a {t}', span(s))
                le = dict(local_env)
                le[tgt] = (tgt, t)
                body = self.tr_block(rest, st, le, depth)
                return f'(let {tgt} := {e} in {body})'
            raise Unsupported(f'{self.fname}: assignment `{ast.unparse(s)}`', span(s))
        if isinstance(s, ast.AugAssign):
            tgt = ast.unparse(s.target)
            if tgt in self.fields and self.fields[tgt][1] == Ty.Z and isinstance(s.op, (ast.Add, ast.Sub)):
                fld, _ = self.fields[tgt]
                e, t = et.tr(s.value)
                if t != Ty.Z:
                    raise Unsupported(f'{self.fname}: `{ast.unparse(s)}`', span(s))
                op = '+' if isinstance(s.op, ast.Add) else '-'
                nst = f's{depth}_{len(rest)}'
                body = self.tr_block(rest, nst, local_env, depth)
                return f'(let {nst} := {self.setter(st, fld, f"({fld} {st} {op} {e})%Z")} in {body})'
            raise Unsupported(f'{self.fname}: `{ast.unparse(s)}`', span(s))
        raise Unsupported(f'{self.fname}: statement `{ast.unparse(s)[:80]}`', span(s))
