"""Gen/Pin_<component>.v: SOURCE PINS of the functions of /repo the hand-written Gallina models were written from.

The grouping engine, the splitter, the lexer loop, the option table, the front ends, the command line and the mutation
sites of the layout filters are regenerated / pinned by their own translators.  What remains hand-modelled -- the token
filters, the statement filters (control flow), the serializer, the output filters, the accessors and navigation helpers
of sql.py, a few helpers of utils.py -- is tied to the code by the stage-wise correspondence AND by these pins: the
normalised AST (docstrings dropped) of every function a model file mirrors must hash to the value recorded in
srcpins.json when the model was written / last adapted.  A function that changed, disappeared, or a NEW function or
class-level assignment in a pinned class/module, breaks the pin of its component: Gen/Pin_<component>.v then does not
compile and every property whose Props file requires it is reported as no longer shown (the check then searches for a
failing input).  Refresh after adapting the model:  PYTHONPATH=/repo /venv/bin/python gen_srcpins.py --refresh
"""
import ast
import hashlib
import json
import os
import sys

from common import Unsupported, HEADER, REPO, assert_repo

HERE = os.path.dirname(os.path.abspath(__file__))
PINFILE = os.path.join(HERE, 'srcpins.json')

# component -> list of (file, selector); selector: '*' = every top-level function / class (whole module),
# 'Class' = the whole class (all methods + class-level assignments), 'Class.method' / 'function' = one function
COMPONENTS = {
    'filters_tokens': [('sqlparse/filters/tokens.py', '*')],
    'filters_stripcomments': [('sqlparse/filters/others.py', 'StripCommentsFilter')],
    'filters_stripws': [('sqlparse/filters/others.py', 'StripWhitespaceFilter')],
    'filters_spaces': [('sqlparse/filters/others.py', 'SpacesAroundOperatorsFilter')],
    'filters_serializer': [('sqlparse/filters/others.py', 'SerializerUnicode'),
                           ('sqlparse/filters/others.py', 'StripTrailingSemicolonFilter'),
                           ('sqlparse/utils.py', 'split_unquoted_newlines')],
    'filters_reindent': [('sqlparse/filters/reindent.py', '*'), ('sqlparse/utils.py', 'indent'),
                         ('sqlparse/utils.py', 'offset')],
    'filters_aligned': [('sqlparse/filters/aligned_indent.py', '*'), ('sqlparse/utils.py', 'indent'),
                        ('sqlparse/utils.py', 'offset')],
    'filters_output': [('sqlparse/filters/output.py', '*')],
    'filters_others_module': [('sqlparse/filters/others.py', '<toplevel-names>'),
                              ('sqlparse/filters/__init__.py', '*')],
    'sql_names': [('sqlparse/sql.py', 'NameAliasMixin'), ('sqlparse/sql.py', 'TokenList.has_alias'),
                  ('sqlparse/sql.py', 'TokenList.get_alias'), ('sqlparse/sql.py', 'TokenList.get_name'),
                  ('sqlparse/sql.py', 'TokenList.get_real_name'), ('sqlparse/sql.py', 'TokenList.get_parent_name'),
                  ('sqlparse/sql.py', 'TokenList._get_first_name'), ('sqlparse/sql.py', 'Identifier'),
                  ('sqlparse/utils.py', 'remove_quotes')],
    'sql_clauses': [('sqlparse/sql.py', 'Statement'), ('sqlparse/sql.py', 'IdentifierList'),
                    ('sqlparse/sql.py', 'TypedLiteral'), ('sqlparse/sql.py', 'Parenthesis'),
                    ('sqlparse/sql.py', 'SquareBrackets'), ('sqlparse/sql.py', 'Assignment'),
                    ('sqlparse/sql.py', 'If'), ('sqlparse/sql.py', 'For'), ('sqlparse/sql.py', 'Comparison'),
                    ('sqlparse/sql.py', 'Comment'), ('sqlparse/sql.py', 'Where'), ('sqlparse/sql.py', 'Over'),
                    ('sqlparse/sql.py', 'Having'), ('sqlparse/sql.py', 'Case'), ('sqlparse/sql.py', 'Function'),
                    ('sqlparse/sql.py', 'Begin'), ('sqlparse/sql.py', 'Operation'), ('sqlparse/sql.py', 'Values'),
                    ('sqlparse/sql.py', 'Command'), ('sqlparse/sql.py', 'TokenList.token_first'),
                    ('sqlparse/sql.py', 'TokenList.get_sublists')],
    # Token and TokenList without the name accessors (pinned by sql_names) and the two helpers of sql_clauses
    'sql_tree': [('sqlparse/sql.py', 'Token'),
                 ('sqlparse/sql.py', 'TokenList-has_alias-get_alias-get_name-get_real_name-get_parent_name-_get_first_name'
                                     '-token_first-get_sublists'),
                 ('sqlparse/sql.py', '<toplevel-names>')],
    'utils_helpers': [('sqlparse/utils.py', '*')],
    # parse / parsestream / split / format and the filter stack they build (every property stated about their results)
    'api_glue': [('sqlparse/engine/filter_stack.py', '*'), ('sqlparse/engine/__init__.py', '*'),
                 ('sqlparse/__init__.py', '*')],
    'formatter_module': [('sqlparse/formatter.py', '*')],
    # the lexer's rule table as written (properties whose theorems reach the lexer only through finite families and the
    # correspondence -- C12, C13, C17, C18 -- require it: a changed rule is then at least reported as no longer shown)
    'lexer_rules': [('sqlparse/keywords.py', '=SQL_REGEX')],
}


def _strip_doc(body):
    if body and isinstance(body[0], ast.Expr) and isinstance(body[0].value, ast.Constant) \
            and isinstance(body[0].value.value, str):
        return body[1:]
    return body


def _norm(node):
    """AST dump with docstrings removed (comments are not in the AST)."""
    node = ast.parse(ast.unparse(node)).body[0] if not isinstance(node, ast.Module) else node
    for n in ast.walk(node):
        if isinstance(n, (ast.FunctionDef, ast.AsyncFunctionDef, ast.ClassDef, ast.Module)):
            n.body = _strip_doc(n.body) or [ast.Pass()]
    return ast.dump(node)


def _h(s):
    return hashlib.sha256(s.encode()).hexdigest()[:16]


_MODS = {}


def _mod(path):
    if path not in _MODS:
        with open(os.path.join(REPO, path), encoding='utf-8') as f:
            _MODS[path] = ast.parse(f.read())
    return _MODS[path]


def _items(path, sel):
    """-> {qualified name: hash}"""
    mod = _mod(path)
    out = {}
    top = {n.name: n for n in mod.body if isinstance(n, (ast.FunctionDef, ast.ClassDef))}
    if sel == '*':
        m2 = ast.Module(body=[n for n in mod.body], type_ignores=[])
        out[path + ':<module>'] = _h(_norm(m2))
        return out
    if sel.startswith('='):
        asg = [n for n in mod.body if isinstance(n, ast.Assign) and len(n.targets) == 1
               and ast.unparse(n.targets[0]) == sel[1:]]
        out[f'{path}:{sel}'] = _h(ast.dump(asg[0].value)) if len(asg) == 1 else 'MISSING'
        return out
    if sel == '<toplevel-names>':
        names = []
        for n in mod.body:
            if isinstance(n, (ast.FunctionDef, ast.ClassDef)):
                names.append(('def ' if isinstance(n, ast.FunctionDef) else 'class ') + n.name +
                             ('(' + ','.join(ast.unparse(b) for b in n.bases) + ')' if isinstance(n, ast.ClassDef) else ''))
            elif isinstance(n, (ast.Import, ast.ImportFrom, ast.Assign, ast.AnnAssign, ast.AugAssign)):
                names.append(ast.unparse(n))
            elif isinstance(n, ast.Expr) and isinstance(n.value, ast.Constant):
                continue
            else:
                names.append(ast.unparse(n))
        out[path + ':<toplevel-names>'] = _h('\n'.join(names))
        return out
    if '-' in sel:
        cname, *excl = sel.split('-')
        c = top.get(cname)
        if not isinstance(c, ast.ClassDef):
            out[f'{path}:{sel}'] = 'MISSING'
            return out
        c2 = ast.ClassDef(name=c.name, bases=c.bases, keywords=c.keywords, decorator_list=c.decorator_list,
                          body=[n for n in c.body if not (isinstance(n, ast.FunctionDef) and n.name in excl)] or [ast.Pass()])
        out[f'{path}:{sel}'] = _h(_norm(ast.fix_missing_locations(c2)))
        return out
    if '.' in sel:
        cname, fname = sel.split('.', 1)
        c = top.get(cname)
        f = None
        if isinstance(c, ast.ClassDef):
            fs = [n for n in c.body if isinstance(n, ast.FunctionDef) and n.name == fname]
            f = fs[0] if len(fs) == 1 else None
        out[f'{path}:{sel}'] = _h(_norm(f)) if f is not None else 'MISSING'
        return out
    n = top.get(sel)
    out[f'{path}:{sel}'] = _h(_norm(n)) if n is not None else 'MISSING'
    return out


def current():
    cur = {}
    for comp, sels in COMPONENTS.items():
        d = {}
        for path, sel in sels:
            d.update(_items(path, sel))
        cur[comp] = d
    return cur


def generate():
    assert_repo()
    cur = current()
    try:
        with open(PINFILE) as f:
            pinned = json.load(f)
    except (OSError, ValueError):
        raise Unsupported('tools/regen/srcpins.json missing or unreadable')
    files, failures = {}, {}
    for comp in COMPONENTS:
        want = pinned.get(comp, {})
        got = cur[comp]
        bad = sorted(k for k in set(want) | set(got) if want.get(k) != got.get(k))
        if bad:
            failures[comp] = bad
            files[f'Pin_{comp}.v'] = ('(* source pin broken: the model was written from a different version of: %s *)\n'
                                      'Source_pin_broken.\n' % ', '.join(bad).replace('*)', '* )'))
        else:
            files[f'Pin_{comp}.v'] = (HEADER + '\n(* %d pinned items of /repo have the normalised AST the model was written from *)\n'
                                      'Definition pinned_%s : bool := true.\n' % (len(got), comp))
    side = {'components': {c: sorted(cur[c]) for c in cur}, 'failures': failures}
    return files, side, failures


if __name__ == '__main__':
    assert_repo()
    if '--refresh' in sys.argv:
        with open(PINFILE, 'w') as f:
            json.dump(current(), f, indent=1, sort_keys=True)
        print('wrote', PINFILE)
    else:
        files, side, failures = generate()
        print(json.dumps(failures, indent=1))
