"""Shared helpers for the fail-closed translators that regenerate coq/theories/Gen/*.v from /repo.

Run with PYTHONPATH=/repo /venv/bin/python; every translator asserts that the sqlparse it imports
is the one under /repo.
"""
import hashlib
import json
import os
import sys

VERIF = os.path.dirname(os.path.dirname(os.path.dirname(os.path.abspath(__file__))))
GEN = os.path.join(VERIF, 'coq', 'theories', 'Gen')
CACHE = os.path.join(VERIF, '.cache')
REPO = os.environ.get('VERIF_REPO', '/repo')

MAXCP = 0x110000


class Unsupported(Exception):
    """A construct the translator does not recognise: generation fails closed."""

    def __init__(self, what, where=None):
        super().__init__(what)
        self.what = what
        self.where = where


def assert_repo():
    import sqlparse
    f = os.path.realpath(sqlparse.__file__)
    if not f.startswith(os.path.realpath(REPO) + os.sep):
        raise SystemExit(f'sqlparse imported from {f}, expected under {REPO}')


def coq_N(n):
    return str(int(n))


def coq_text(s):
    """A Python str (or list of code points) as a Coq `text` literal."""
    cps = [ord(c) for c in s] if isinstance(s, str) else list(s)
    if not cps:
        return '([] : text)'
    return '[' + '; '.join(str(c) for c in cps) + ']%N'


def coq_ttype(tt):
    """A sqlparse _TokenType as a Coq `ttype` literal (list of tcomp)."""
    comps = list(tt)
    for c in comps:
        if c not in KNOWN_TCOMP:
            raise Unsupported(f'token type component {c!r} unknown to Base.tcomp')
    if not comps:
        return '([] : ttype)'
    return '[' + '; '.join(('Token_' if c == 'Token' else c) for c in comps) + ']'


KNOWN_TCOMP = {
    'Text', 'Whitespace', 'Newline', 'Error', 'Other', 'Keyword', 'Name', 'Literal', 'String',
    'Number', 'Punctuation', 'Operator', 'Comparison', 'Wildcard', 'Comment', 'Assignment',
    'Generic', 'Command', 'DML', 'DDL', 'CTE', 'Single', 'Multiline', 'Hint', 'Placeholder',
    'Builtin', 'Symbol', 'Hexadecimal', 'Float', 'Integer', 'Order', 'TZCast', 'Heading',
    'Subheading', 'Deleted', 'DCL', 'Inserted', 'Output', 'Emph', 'Strong', 'Prompt', 'Traceback',
}


def ranges_of(cps):
    """sorted code points -> list of inclusive (lo, hi) ranges"""
    out = []
    start = prev = None
    for c in cps:
        if start is None:
            start = prev = c
        elif c == prev + 1:
            prev = c
        else:
            out.append((start, prev))
            start = prev = c
    if start is not None:
        out.append((start, prev))
    return out


def cset_term(ranges):
    """Balanced decision tree (Base.cset) for a set given as sorted disjoint inclusive ranges."""
    bounds = []
    for lo, hi in ranges:
        bounds.append(lo)
        bounds.append(hi + 1)
    # membership of c is (number of bounds <= c) odd

    def build(i, j):
        if i >= j:
            return 'CLeaf ' + ('true' if i % 2 == 1 else 'false')
        mid = (i + j) // 2
        return f'(CNode {bounds[mid]} {paren(build(i, mid))} {paren(build(mid + 1, j))})'

    def paren(s):
        return s if s.startswith('(') else '(' + s + ')'

    t = build(0, len(bounds))
    return t


def umap_term(items):
    """Balanced search tree (Base.umap) for sorted [(key, [values])]."""
    def build(i, j):
        if i >= j:
            return 'ULeaf'
        mid = (i + j) // 2
        k, v = items[mid]
        vs = '[' + '; '.join(str(x) for x in v) + ']%N'
        return f'(UNode {build(i, mid)} {k} {vs} {build(mid + 1, j)})'
    return build(0, len(items))


def write_if_changed(path, content):
    os.makedirs(os.path.dirname(path), exist_ok=True)
    try:
        with open(path, encoding='utf-8') as f:
            if f.read() == content:
                return False
    except FileNotFoundError:
        pass
    tmp = path + '.tmp'
    with open(tmp, 'w', encoding='utf-8') as f:
        f.write(content)
    os.replace(tmp, path)
    return True


def cache_get(key):
    p = os.path.join(CACHE, hashlib.sha256(key.encode()).hexdigest() + '.json')
    try:
        with open(p) as f:
            return json.load(f)
    except (FileNotFoundError, ValueError):
        return None


def cache_put(key, value):
    os.makedirs(CACHE, exist_ok=True)
    p = os.path.join(CACHE, hashlib.sha256(key.encode()).hexdigest() + '.json')
    tmp = p + '.%d.tmp' % os.getpid()
    with open(tmp, 'w') as f:
        json.dump(value, f)
    os.replace(tmp, p)


HEADER = '(* GENERATED from /repo by tools/regen -- do not edit; regenerated on every check run. *)\n'
PYVER = '%d.%d.%d' % sys.version_info[:3]


def coq_comment(s):
    """Make arbitrary text safe inside a Coq comment."""
    return (str(s).replace('"', '<dq>').replace('(*', '( *').replace('*)', '* )')
            .replace('\n', ' ').replace('\r', ' '))
