"""Gen/CliTab.v: the command line front end sqlparse/cli.py as data.

create_parser(): every `add_argument` call is read off the AST (option strings, dest, action, type, default,
choices) and cross-checked against the parser object the real function builds (parser._actions and the
parser-level settings the argparse model depends on).  Only the argparse features the Coq model
(Sys/CliDefs.v) implements are accepted: actions store / store_true / version (+ the help action argparse adds
itself), type absent / int / bool, nargs absent, exactly one positional, option strings of the forms `-x` and
`--long`, no `required=`, no `const=`, no mutually exclusive groups, no parents, default prefix characters.

main(): the body is compared, statement by statement, with a template that has holes for
  * the keyword arguments of the three open sites  TextIOWrapper(sys.stdin.buffer, <kw>),
    open(args.filename, <kw>), open(args.outfile, 'w', <kw>)   (encoding=, newline= are interpreted),
  * the way the file is read (`''.join(f.readlines())` or `f.read()`),
  * the messages handed to _error.
Everything else (the stdin marker, vars(args) -> validate_options -> format(data, **opts), the except
clauses, the return codes) must match the template literally.  Anything else fails closed.
"""
import argparse
import ast
import inspect
import io
import re
import sys

from common import Unsupported, HEADER, assert_repo, coq_comment, coq_text

MAIN_TEMPLATE = '''
def main(args=None):
    parser = create_parser()
    args = parser.parse_args(args)
    if args.filename == %(marker)r:
        wrapper = TextIOWrapper(sys.stdin.buffer)
        try:
            data = wrapper.read()
        finally:
            wrapper.detach()
    else:
        try:
            with open(args.filename) as f:
                data = %(read)s
        except OSError as e:
            return _error('msg')
    close_stream = False
    if args.outfile:
        try:
            stream = open(args.outfile, 'w')
            close_stream = True
        except OSError as e:
            return _error('msg')
    else:
        stream = sys.stdout
    formatter_opts = vars(args)
    try:
        formatter_opts = sqlparse.formatter.validate_options(formatter_opts)
    except SQLParseError as e:
        return _error('msg')
    s = sqlparse.format(data, **formatter_opts)
    stream.write(s)
    stream.flush()
    if close_stream:
        stream.close()
    return 0
'''

ERROR_TEMPLATE = '''
def _error(msg):
    sys.stderr.write('msg')
    return 1
'''

READ_FORMS = {"''.join(f.readlines())": 'join(readlines())', 'f.read()': 'read()'}

COSMETIC_PARSER_KW = {'prog', 'description', 'usage', 'epilog'}
COSMETIC_ARG_KW = {'help', 'metavar', 'version'}
FLAG_SHORT = re.compile(r'^-[^-\s=]$')
FLAG_LONG = re.compile(r'^--[^-\s=][^\s=]*$')
NEGNUM = re.compile(r'^-\d+$|^-\d*\.\d+$')


def span(node):
    return 'cli.py line %s' % getattr(node, 'lineno', '?')


def strip_doc(body):
    body = list(body)
    if body and isinstance(body[0], ast.Expr) and isinstance(body[0].value, ast.Constant) \
            and isinstance(body[0].value.value, str):
        body = body[1:]
    return body


# ---------------------------------------------------------------------------------------------------
# create_parser
def const_value(e, env, what):
    """A constant the model can hold: None, bool, int, str, or a list of str; names are looked up in the
    function's own constant assignments."""
    if isinstance(e, ast.Constant):
        v = e.value
        if v is None or type(v) in (bool, int, str):
            return v
        raise Unsupported(f'{what}: constant {v!r} of an unmodelled type', span(e))
    if isinstance(e, ast.Name) and isinstance(e.ctx, ast.Load) and e.id in env:
        return env[e.id]
    if isinstance(e, (ast.List, ast.Tuple)):
        out = []
        for x in e.elts:
            v = const_value(x, env, what)
            if type(v) is not str:
                raise Unsupported(f'{what}: list element {v!r} is not a str', span(x))
            out.append(v)
        return out
    raise Unsupported(f'{what}: not a constant: {ast.unparse(e)}', span(e))


def parse_add_argument(call, env):
    what = 'add_argument' + span(call)
    names = []
    for a in call.args:
        if not (isinstance(a, ast.Constant) and type(a.value) is str):
            raise Unsupported(f'{what}: option string is not a str constant', span(call))
        names.append(a.value)
    if not names:
        raise Unsupported(f'{what}: no name', span(call))
    kw = {}
    for k in call.keywords:
        if k.arg is None:
            raise Unsupported(f'{what}: **kwargs', span(call))
        if k.arg in kw:
            raise Unsupported(f'{what}: keyword {k.arg} twice', span(call))
        kw[k.arg] = k.value
    unknown = set(kw) - COSMETIC_ARG_KW - {'dest', 'action', 'type', 'default', 'choices'}
    if unknown:
        raise Unsupported(f'{what}: keyword(s) {sorted(unknown)} not modelled (nargs/const/required/...)', span(call))
    positional = not names[0].startswith('-')
    if positional:
        if len(names) != 1 or not re.match(r'^[A-Za-z_][A-Za-z0-9_]*$', names[0]):
            raise Unsupported(f'{what}: positional name(s) {names!r}', span(call))
        if set(kw) - COSMETIC_ARG_KW:
            raise Unsupported(f'{what}: positional with keywords {sorted(kw)}', span(call))
        return {'flags': [], 'dest': names[0], 'action': 'store', 'type': None, 'default': None, 'choices': None,
                'line': call.lineno}
    for n in names:
        if not (FLAG_SHORT.match(n) or FLAG_LONG.match(n)):
            raise Unsupported(f'{what}: option string {n!r} is neither -x nor --long', span(call))
        if NEGNUM.match(n):
            raise Unsupported(f'{what}: option string {n!r} looks like a negative number', span(call))
    action = 'store'
    if 'action' in kw:
        action = const_value(kw['action'], env, what)
        if action not in ('store', 'store_true', 'version'):
            raise Unsupported(f'{what}: action {action!r} not modelled', span(call))
    if 'dest' in kw:
        dest = const_value(kw['dest'], env, what)
        if type(dest) is not str:
            raise Unsupported(f'{what}: dest is not a str', span(call))
    else:
        longs = [n for n in names if n.startswith('--')]
        dest = (longs[0] if longs else names[0]).lstrip('-').replace('-', '_')
    typ = None
    if 'type' in kw:
        t = kw['type']
        if isinstance(t, ast.Name) and t.id in ('int', 'bool') and t.id not in env:
            typ = t.id
        else:
            raise Unsupported(f'{what}: type={ast.unparse(t)} not modelled', span(call))
    choices = None
    if 'choices' in kw:
        choices = const_value(kw['choices'], env, what)
        if type(choices) is not list:
            raise Unsupported(f'{what}: choices is not a list of str', span(call))
    if action == 'store':
        default = const_value(kw['default'], env, what) if 'default' in kw else None
        if type(default) is list:
            raise Unsupported(f'{what}: list default', span(call))
        if type(default) is str and typ is not None:
            raise Unsupported(f'{what}: a str default with type={typ} is converted by argparse: not modelled', span(call))
        if choices is not None and typ is not None:
            raise Unsupported(f'{what}: choices together with type=', span(call))
    elif action == 'store_true':
        default = const_value(kw['default'], env, what) if 'default' in kw else False
        if type(default) is list or typ is not None or choices is not None:
            raise Unsupported(f'{what}: store_true with type/choices/list default', span(call))
        if type(default) is str:
            raise Unsupported(f'{what}: store_true with a str default', span(call))
    else:
        if set(kw) - COSMETIC_ARG_KW - {'action'}:
            raise Unsupported(f'{what}: version action with extra keywords', span(call))
        default = argparse.SUPPRESS
    return {'flags': names, 'dest': dest, 'action': action, 'type': typ, 'default': default, 'choices': choices,
            'line': call.lineno}


def analyse_create_parser(fn):
    if fn.args.args or fn.args.vararg or fn.args.kwarg or fn.args.kwonlyargs or fn.args.posonlyargs or fn.decorator_list:
        raise Unsupported('create_parser: parameters/decorators', span(fn))
    env = {}
    parser_var = None
    holders = set()
    args = []
    body = strip_doc(fn.body)
    for i, st in enumerate(body):
        if isinstance(st, ast.Assign) and len(st.targets) == 1 and isinstance(st.targets[0], ast.Name):
            name = st.targets[0].id
            v = st.value
            if isinstance(v, ast.Call) and ast.unparse(v.func) == 'argparse.ArgumentParser':
                if parser_var is not None or v.args:
                    raise Unsupported('create_parser: second ArgumentParser / positional arguments', span(st))
                for k in v.keywords:
                    if k.arg not in COSMETIC_PARSER_KW:
                        raise Unsupported(f'create_parser: ArgumentParser({k.arg}=...) not modelled', span(st))
                parser_var = name
                holders.add(name)
            elif isinstance(v, ast.Call) and isinstance(v.func, ast.Attribute) and v.func.attr == 'add_argument_group' \
                    and isinstance(v.func.value, ast.Name) and v.func.value.id in holders:
                holders.add(name)
            else:
                if name in holders or name == parser_var:
                    raise Unsupported(f'create_parser: {name} re-bound', span(st))
                env[name] = const_value(v, env, 'create_parser: ' + name)
        elif isinstance(st, ast.Expr) and isinstance(st.value, ast.Call) and isinstance(st.value.func, ast.Attribute) \
                and st.value.func.attr == 'add_argument' and isinstance(st.value.func.value, ast.Name) \
                and st.value.func.value.id in holders:
            args.append(parse_add_argument(st.value, env))
        elif isinstance(st, ast.Return) and i == len(body) - 1 and isinstance(st.value, ast.Name) \
                and st.value.id == parser_var:
            pass
        else:
            raise Unsupported('create_parser: statement not understood: ' + ast.unparse(st)[:80], span(st))
    if parser_var is None or not isinstance(body[-1], ast.Return):
        raise Unsupported('create_parser: no parser / no final return')
    return args


def runtime_actions(parser):
    """The same facts from the parser object the real create_parser() builds."""
    out = []
    for a in parser._actions:
        cls = type(a)
        if cls is argparse._HelpAction:
            act = 'help'
        elif cls is argparse._VersionAction:
            act = 'version'
        elif cls is argparse._StoreTrueAction:
            act = 'store_true'
        elif cls is argparse._StoreAction:
            act = 'store'
        else:
            raise Unsupported(f'parser has an action of class {cls.__name__}')
        if act == 'store' and a.nargs is not None:
            raise Unsupported(f'action {a.dest}: nargs={a.nargs!r}')
        if act != 'store' and a.nargs != 0:
            raise Unsupported(f'action {a.dest}: nargs={a.nargs!r}')
        if a.required != (not a.option_strings):
            raise Unsupported(f'action {a.dest}: required={a.required!r}')
        if act == 'store' and a.const is not None:
            raise Unsupported(f'action {a.dest}: const={a.const!r}')
        if act == 'store_true' and a.const is not True:
            raise Unsupported(f'action {a.dest}: const={a.const!r}')
        typ = None if a.type is None else ('int' if a.type is int else 'bool' if a.type is bool else '?')
        if typ == '?':
            raise Unsupported(f'action {a.dest}: type={a.type!r}')
        out.append({'flags': list(a.option_strings), 'dest': a.dest, 'action': act, 'type': typ,
                    'default': a.default, 'choices': None if a.choices is None else list(a.choices)})
    return out


def same_value(a, b):
    return type(a) is type(b) and a == b


# ---------------------------------------------------------------------------------------------------
# main
def open_kwargs(call, what, writing):
    """encoding= / newline= of an open()/TextIOWrapper() call -> ((kind, name), newline mode)."""
    enc = None
    nl = 'NlUniversal'
    seen = set()
    for k in call.keywords:
        if k.arg is None or k.arg in seen:
            raise Unsupported(f'{what}: **kwargs / repeated keyword', span(call))
        seen.add(k.arg)
        if k.arg == 'encoding':
            if ast.unparse(k.value) == 'args.encoding':
                enc = ('EncArgs', None)
            elif isinstance(k.value, ast.Constant) and type(k.value.value) is str:
                enc = ('EncConst', k.value.value)
            else:
                raise Unsupported(f'{what}: encoding={ast.unparse(k.value)} not understood', span(call))
        elif k.arg == 'newline':
            v = k.value
            if isinstance(v, ast.Constant) and v.value is None:
                nl = 'NlUniversal'
            elif isinstance(v, ast.Constant) and v.value in ('', '\n'):
                nl = 'NlNone'
            else:
                raise Unsupported(f'{what}: newline={ast.unparse(v)} not modelled', span(call))
        else:
            raise Unsupported(f'{what}: keyword {k.arg}= not modelled (errors=, buffering=, ...)', span(call))
    if enc is None:
        raise Unsupported(f'{what}: no encoding= (the locale encoding would be used: not modelled)', span(call))
    return enc, nl


def find_calls(fn, pred):
    return [n for n in ast.walk(fn) if isinstance(n, ast.Call) and pred(n)]


def analyse_main(fn, err_fn):
    # ---- _error
    got = ast.parse(ast.unparse(err_fn))
    gfn = got.body[0]
    gfn.body = strip_doc(gfn.body)
    for n in ast.walk(gfn):
        if isinstance(n, ast.Call) and ast.unparse(n.func) == 'sys.stderr.write' and len(n.args) == 1 and not n.keywords:
            n.args = [ast.Constant('msg')]
    if ast.dump(got) != ast.dump(ast.parse(ERROR_TEMPLATE)):
        raise Unsupported('_error differs from the modelled one (write to stderr, return 1):\n' + ast.unparse(err_fn))

    # ---- main: pull the holes out of a copy, compare the rest with the template
    got = ast.parse(ast.unparse(fn))
    gfn = got.body[0]
    gfn.body = strip_doc(gfn.body)
    if gfn.decorator_list or gfn.returns is not None:
        raise Unsupported('main: decorators / annotations', span(fn))
    wrappers = find_calls(gfn, lambda c: ast.unparse(c.func) == 'TextIOWrapper')
    opens = find_calls(gfn, lambda c: ast.unparse(c.func) == 'open')
    if len(wrappers) != 1 or len(opens) != 2:
        raise Unsupported(f'main: expected one TextIOWrapper() and two open() calls, found {len(wrappers)} and {len(opens)}')
    w = wrappers[0]
    if [ast.unparse(a) for a in w.args] != ['sys.stdin.buffer']:
        raise Unsupported('main: TextIOWrapper is not applied to sys.stdin.buffer', span(w))
    rd = [c for c in opens if [ast.unparse(a) for a in c.args] == ['args.filename']]
    wr = [c for c in opens if [ast.unparse(a) for a in c.args] == ['args.outfile', "'w'"]]
    if len(rd) != 1 or len(wr) != 1:
        raise Unsupported("main: expected open(args.filename, ...) and open(args.outfile, 'w', ...): " +
                          '; '.join(ast.unparse(c) for c in opens))
    spec_stdin = open_kwargs(w, 'TextIOWrapper(sys.stdin.buffer, ...)', False)
    spec_file = open_kwargs(rd[0], 'open(args.filename, ...)', False)
    spec_out = open_kwargs(wr[0], "open(args.outfile, 'w', ...)", True)
    for c in (w, rd[0], wr[0]):
        c.keywords = []
    for c in find_calls(gfn, lambda c: ast.unparse(c.func) == '_error'):
        if len(c.args) != 1 or c.keywords:
            raise Unsupported('main: _error called with other than one argument', span(c))
        c.args = [ast.Constant('msg')]
    # the stdin marker and the read form
    try:
        test = gfn.body[2].test
        marker = test.comparators[0].value
        read_src = ast.unparse(gfn.body[2].orelse[0].body[0].body[0].value)
    except (AttributeError, IndexError):
        raise Unsupported('main: the input part has an unexpected shape:\n' + ast.unparse(fn)[:600])
    if type(marker) is not str or not marker:
        raise Unsupported('main: stdin marker is not a non-empty str constant')
    if read_src not in READ_FORMS:
        raise Unsupported(f'main: the file is read with {read_src!r}: not modelled')
    want = ast.parse(MAIN_TEMPLATE % {'marker': marker, 'read': read_src})
    if ast.dump(got) != ast.dump(want):
        import difflib
        d = '\n'.join(difflib.unified_diff(ast.unparse(want).splitlines(), ast.unparse(got).splitlines(), 'modelled', 'source',
                                           lineterm='', n=1))
        raise Unsupported('main differs from the modelled template:\n' + d[:1500])
    return {'marker': marker, 'read': READ_FORMS[read_src], 'stdin': spec_stdin, 'file': spec_file, 'out': spec_out}


# ---------------------------------------------------------------------------------------------------
# Coq output
def coq_pval(v):
    if v is None:
        return 'PNone'
    if v is True:
        return 'PBool true'
    if v is False:
        return 'PBool false'
    if type(v) is int:
        return f'PInt ({v})%Z'
    if type(v) is str:
        return f'PStr {coq_text(v)}'
    raise Unsupported(f'default {v!r} of an unmodelled type')


def coq_texts(l):
    return '[' + '; '.join(coq_text(x) for x in l) + ']'


def coq_arg(a):
    act = {'store': 'ActStore', 'store_true': 'ActStoreTrue', 'help': 'ActHelp', 'version': 'ActVersion'}[a['action']]
    typ = {None: 'TyNone', 'int': 'TyInt', 'bool': 'TyBool'}[a['type']]
    if a['default'] is argparse.SUPPRESS:
        dflt = 'None'
        dest = coq_text('')
    else:
        dflt = f'Some ({coq_pval(a["default"])})'
        dest = coq_text(a['dest'])
    ch = 'None' if a['choices'] is None else f'Some {coq_texts(a["choices"])}'
    shown = ' '.join(a['flags']) or a['dest']
    return (f'  (* {coq_comment(shown)}: dest={coq_comment(a["dest"])!s} default={coq_comment(repr(a["default"]))} *)\n'
            f'  {{| ca_flags := {coq_texts(a["flags"])}; ca_dest := {dest}; ca_action := {act}; ca_type := {typ};\n'
            f'     ca_default := {dflt}; ca_choices := {ch} |}}')


def coq_open(spec):
    (kind, name), nl = spec
    enc = 'EncArgs' if kind == 'EncArgs' else f'(EncConst {coq_text(name)})'
    return f'{{| os_enc := {enc}; os_nl := {nl} |}}'


# the argparse the Coq model (Sys/CliDefs.v) was written against: the source text of the methods it mirrors
ARGPARSE_METHODS = ('parse_args', 'parse_known_args', '_parse_known_args', '_match_argument', '_match_arguments_partial',
                    '_parse_optional', '_get_option_tuples', '_get_nargs_pattern', '_get_values', '_get_value',
                    '_check_value')
ARGPARSE_ACTIONS = ('_StoreAction', '_StoreTrueAction', '_StoreConstAction', '_HelpAction', '_VersionAction')
ARGPARSE_SHA256 = '56d8afe10b170a50c9ec9f74a1c0b1b11cbe3be8fffd6b0dbb039bd7ab566f7e'     # CPython 3.12.1
NEGNUM_PATTERN = r'^-\d+$|^-\d*\.\d+$'


def check_interpreter(parser):
    """The interpreter-dependent facts the model relies on."""
    import hashlib
    src = ''.join(inspect.getsource(getattr(argparse.ArgumentParser, n)) for n in ARGPARSE_METHODS)
    src += ''.join(inspect.getsource(getattr(argparse, n)) for n in ARGPARSE_ACTIONS)
    got = hashlib.sha256(src.encode()).hexdigest()
    if got != ARGPARSE_SHA256:
        raise Unsupported('this interpreter\'s argparse differs from the modelled one (CPython 3.12.1): sha256 ' + got)
    if parser._negative_number_matcher.pattern != NEGNUM_PATTERN:
        raise Unsupported('argparse._negative_number_matcher is not the modelled pattern')
    # \d of the negative-number matcher = the characters int() reads as decimal digits (Gen/OptTab.int_digit_tab)
    from gen_options import int_tables
    digits = {int(c) for c, _ in int_tables()['digit']}
    rx = re.compile(r'\d')
    bad = [c for c in range(0x110000) if (rx.match(chr(c)) is not None) != (c in digits)]
    if bad:
        raise Unsupported(f're \\d and the digit table of int() differ on {len(bad)} code points, e.g. U+{bad[0]:04X}')
    if '\n' != __import__('os').linesep:
        raise Unsupported('os.linesep is not LF: the write side of newline=None is not modelled')


def generate():
    assert_repo()
    import sqlparse
    from sqlparse import cli, exceptions
    # ---- runtime identities the name resolution relies on
    if cli.argparse is not argparse or cli.sys is not sys or cli.TextIOWrapper is not io.TextIOWrapper:
        raise Unsupported('cli.py: argparse / sys / TextIOWrapper are not the standard ones')
    if cli.sqlparse is not sqlparse or cli.SQLParseError is not exceptions.SQLParseError:
        raise Unsupported('cli.py: sqlparse / SQLParseError are not the expected objects')
    mod = ast.parse(inspect.getsource(cli))
    funs = {}
    for n in mod.body:
        if isinstance(n, (ast.FunctionDef, ast.AsyncFunctionDef, ast.ClassDef)):
            if n.name in funs:
                raise Unsupported(f'cli.py: {n.name} defined twice', span(n))
            funs[n.name] = n
        elif isinstance(n, (ast.Import, ast.ImportFrom)) or \
                (isinstance(n, ast.Expr) and isinstance(n.value, ast.Constant)):
            pass
        else:
            raise Unsupported('cli.py: module-level statement not understood: ' + ast.unparse(n)[:80], span(n))
    if set(funs) != {'create_parser', '_error', 'main'}:
        raise Unsupported(f'cli.py: module-level definitions {sorted(funs)}; expected create_parser, _error, main')
    for n in ast.walk(mod):
        if isinstance(n, ast.Name) and isinstance(n.ctx, (ast.Store, ast.Del)) and \
                n.id in ('open', 'vars', 'int', 'bool', 'create_parser', '_error', 'main', 'sqlparse', 'sys', 'argparse',
                         'TextIOWrapper', 'SQLParseError', 'OSError'):
            raise Unsupported(f'cli.py: name {n.id} is re-bound', span(n))
        if isinstance(n, (ast.Global, ast.Nonlocal)):
            raise Unsupported('cli.py: global/nonlocal', span(n))
    for name in ('open', 'vars', 'int', 'bool', 'OSError'):
        if name in vars(cli):
            raise Unsupported(f'cli.py: module attribute {name} shadows the builtin')
    for f in funs.values():
        if not isinstance(f, ast.FunctionDef):
            raise Unsupported(f'cli.py: {f.name} is not a plain function', span(f))

    # ---- create_parser: AST, then the real object
    ast_args = analyse_create_parser(funs['create_parser'])
    parser = cli.create_parser()
    if type(parser) is not argparse.ArgumentParser:
        raise Unsupported('create_parser() does not return a plain ArgumentParser')
    if parser.prefix_chars != '-' or parser.fromfile_prefix_chars is not None or parser.argument_default is not None \
            or parser.conflict_handler != 'error' or not parser.exit_on_error or parser._defaults \
            or parser._mutually_exclusive_groups or parser._has_negative_number_optionals or not parser.add_help:
        raise Unsupported('parser-level settings differ from the modelled defaults')
    check_interpreter(parser)
    rt = runtime_actions(parser)
    if not rt or rt[0]['action'] != 'help' or rt[0]['flags'] != ['-h', '--help']:
        raise Unsupported('the first action is not the -h/--help action argparse adds')
    if len(rt) != len(ast_args) + 1:
        raise Unsupported(f'{len(ast_args)} add_argument calls but {len(rt) - 1} actions at run time')
    for a, r in zip(ast_args, rt[1:]):
        for key in ('flags', 'dest', 'action', 'type', 'choices'):
            if a[key] != r[key]:
                raise Unsupported(f'add_argument line {a["line"]}: {key} read as {a[key]!r}, the parser object has {r[key]!r}')
        if not same_value(a['default'], r['default']):
            raise Unsupported(f'add_argument line {a["line"]}: default read as {a["default"]!r}, the parser object has {r["default"]!r}')
    if sorted(parser._option_string_actions) != sorted(f for r in rt for f in r['flags']):
        raise Unsupported('parser._option_string_actions differs from the union of the option strings')
    all_args = [dict(rt[0], line=0)] + ast_args
    positionals = [a for a in all_args if not a['flags']]
    if len(positionals) != 1:
        raise Unsupported(f'{len(positionals)} positional arguments: the model handles exactly one')
    flags = [f for a in all_args for f in a['flags']]
    if len(set(flags)) != len(flags):
        raise Unsupported('an option string is used twice')
    enc_args = [a for a in all_args if a['dest'] == 'encoding']
    if len(enc_args) != 1 or enc_args[0]['action'] != 'store' or enc_args[0]['type'] is not None \
            or type(enc_args[0]['default']) is not str:
        raise Unsupported('no single store action with dest "encoding", no type and a str default')
    for need in ('filename', 'outfile'):
        if sum(1 for a in all_args if a['dest'] == need) != 1:
            raise Unsupported(f'dest {need!r} does not occur exactly once')

    # ---- main
    shape = analyse_main(funs['main'], funs['_error'])

    out = [HEADER,
           'From Coq Require Import ZArith.',
           'From SqlModel Require Import Base.',
           'From SqlModel.Filters Require Import OptDefs.',
           'From SqlModel.Sys Require Import CliTypes.', '',
           f'(* sqlparse/cli.py create_parser(), lines {funs["create_parser"].lineno}-{funs["create_parser"].end_lineno}: '
           'parser._actions in order; argparse.ArgumentParser with default settings',
           '   (prefix_chars "-", add_help, allow_abbrev, no parents/defaults/mutually exclusive groups) *)',
           f'Definition cli_allow_abbrev : bool := {"true" if parser.allow_abbrev else "false"}.',
           'Definition cli_args : list cli_arg := [',
           ';\n'.join(coq_arg(a) for a in all_args),
           '].', '',
           '(* the default of the action with dest "encoding" *)',
           f'Definition cli_default_encoding : text := {coq_text(enc_args[0]["default"])}.  '
           f'(* {coq_comment(repr(enc_args[0]["default"]))} *)', '',
           f'(* sqlparse/cli.py main(), lines {funs["main"].lineno}-{funs["main"].end_lineno}: matches the modelled template;',
           f'   args.filename == {coq_comment(repr(shape["marker"]))} selects stdin; a file is read with {shape["read"]};',
           '   formatter_opts = validate_options(vars(args)); s = sqlparse.format(data, **formatter_opts);',
           '   OSError on either open and SQLParseError from validate_options go to _error (stderr, return 1) *)',
           f'Definition cli_stdin_marker : text := {coq_text(shape["marker"])}.',
           '(* TextIOWrapper(sys.stdin.buffer, ...) *)',
           f'Definition cli_stdin_open : open_spec := {coq_open(shape["stdin"])}.',
           '(* open(args.filename, ...) *)',
           f'Definition cli_file_open : open_spec := {coq_open(shape["file"])}.',
           "(* open(args.outfile, 'w', ...) *)",
           f'Definition cli_out_open : open_spec := {coq_open(shape["out"])}.',
           '']
    side = {'args': [{k: (None if v is argparse.SUPPRESS else v) for k, v in a.items()} for a in all_args],
            'suppress': [a['flags'] for a in all_args if a['default'] is argparse.SUPPRESS],
            'allow_abbrev': parser.allow_abbrev, 'main': shape,
            'default_encoding': enc_args[0]['default']}
    return {'CliTab.v': '\n'.join(out)}, side


if __name__ == '__main__':
    files, side = generate()
    print(files['CliTab.v'])
