"""Gen/SingletonProg.v: the instruction list of Lexer.get_default_instance (with
default_initialization inlined), translated from the AST of sqlparse/lexer.py.

One instruction per Python statement (the GIL makes statements of this kind atomic w.r.t. the
shared variable).  Fail-closed: any statement shape outside the small language below aborts.

Two ways of creating the instance are understood:
    cls._default_instance = cls()                      INewAssign
    cls._default_instance.default_initialization()     ILoadSelf; <statements of default_initialization>
and (build completely, then publish)
    <local> = cls()                                    INewLocal
    <local>.default_initialization()                   <statements of default_initialization>  (the call line
                                                       itself touches no shared state: no instruction)
    cls._default_instance = <local>                    IPublishSelf
`publishes_before_init` (also emitted into SingletonProg.v) says whether some statement of the initialisation runs
after the object has become reachable from the shared variable; Sys/HistoryXFacts.v re-derives it from the
instruction list (publishes_flag_ok)."""
import ast
import inspect

from common import Unsupported, HEADER, assert_repo, coq_comment
from pyfun import span


def _nodoc(body):
    return [s for s in body if not (isinstance(s, ast.Expr) and isinstance(s.value, ast.Constant))]


def generate():
    assert_repo()
    from sqlparse import lexer
    src = inspect.getsource(lexer)
    mod = ast.parse(src)
    cls = [n for n in mod.body if isinstance(n, ast.ClassDef) and n.name == 'Lexer']
    if len(cls) != 1:
        raise Unsupported('class Lexer not found')
    cls = cls[0]
    funs = {n.name: n for n in cls.body if isinstance(n, ast.FunctionDef)}
    for need in ('get_default_instance', 'default_initialization', 'clear', 'set_SQL_REGEX', 'add_keywords'):
        if need not in funs:
            raise Unsupported(f'Lexer.{need} not found')
    # class-level shared state
    shared = {}
    for s in cls.body:
        if isinstance(s, ast.Assign) and len(s.targets) == 1 and isinstance(s.targets[0], ast.Name):
            shared[s.targets[0].id] = ast.unparse(s.value)
    if shared.get('_default_instance') != 'None':
        raise Unsupported(f'Lexer._default_instance is not initialised to None: {shared}')
    lock_ok = shared.get('_lock') in ('Lock()', 'threading.Lock()')
    if '__init__' in funs:
        raise Unsupported('Lexer.__init__ exists: a new instance is no longer an uninitialised object', span(funs['__init__']))

    gdi = funs['get_default_instance']
    if not any(isinstance(d, ast.Name) and d.id == 'classmethod' for d in gdi.decorator_list):
        raise Unsupported('get_default_instance is not a classmethod')
    clsarg = gdi.args.args[0].arg

    # ---- clear / set_SQL_REGEX / add_keywords must be the simple field updates the model assumes
    clear_src = sorted(ast.unparse(s) for s in _nodoc(funs['clear'].body))
    if clear_src != ['self._SQL_REGEX = []', 'self._keywords = []']:
        raise Unsupported(f'clear() is {clear_src}', span(funs['clear']))
    addkw = [ast.unparse(s) for s in _nodoc(funs['add_keywords'].body)]
    if addkw != ['self._keywords.append(keywords)']:
        raise Unsupported(f'add_keywords() is {addkw}', span(funs['add_keywords']))
    setrx = _nodoc(funs['set_SQL_REGEX'].body)
    if not (len(setrx) == 2 and isinstance(setrx[1], ast.Assign)
            and ast.unparse(setrx[1].targets[0]) == 'self._SQL_REGEX'):
        raise Unsupported('set_SQL_REGEX() has an unexpected shape', span(funs['set_SQL_REGEX']))

    # ---- default_initialization: straight-line calls on self
    init_instrs = []
    kwnames = []
    side = {'default_initialization': []}
    for s in _nodoc(funs['default_initialization'].body):
        u = ast.unparse(s)
        if u == 'self.clear()':
            init_instrs.append('IClear')
        elif isinstance(s, ast.Expr) and isinstance(s.value, ast.Call) and ast.unparse(s.value.func) == 'self.set_SQL_REGEX' \
                and len(s.value.args) == 1:
            init_instrs.append('ISetRegex')
        elif isinstance(s, ast.Expr) and isinstance(s.value, ast.Call) and ast.unparse(s.value.func) == 'self.add_keywords' \
                and len(s.value.args) == 1:
            init_instrs.append(f'IAddKw {len(kwnames)}')
            kwnames.append(ast.unparse(s.value.args[0]))
        else:
            raise Unsupported('default_initialization: ' + u, span(s))
        side['default_initialization'].append({'stmt': u, 'line': s.lineno})

    inst_expr = f'{clsarg}._default_instance'
    prog = []          # list of (instr text or ('jump', placeholder), comment)
    local = {'name': None, 'initialised': False}     # the one local variable holding the instance being built
    argnames = {a.arg for a in gdi.args.args + gdi.args.kwonlyargs + gdi.args.posonlyargs}

    def tr_block(body):
        for s in _nodoc(body):
            u = ast.unparse(s)
            if isinstance(s, ast.With):
                if len(s.items) != 1 or ast.unparse(s.items[0].context_expr) != f'{clsarg}._lock' or not lock_ok:
                    raise Unsupported('with-statement on something other than the class lock: ' + u[:80], span(s))
                prog.append(['IAcquire', 'with %s._lock:' % clsarg, ('get_default_instance', s.lineno, 'enter')])
                tr_block(s.body)
                prog.append(['IRelease', 'end of with-block', ('get_default_instance', s.lineno, 'exit')])
            elif isinstance(s, ast.If):
                if ast.unparse(s.test) != f'{inst_expr} is None' or s.orelse:
                    raise Unsupported('if-statement: ' + ast.unparse(s.test), span(s))
                slot = len(prog)
                prog.append([None, 'if %s is None:' % inst_expr, ('get_default_instance', s.lineno, '')])
                tr_block(s.body)
                prog[slot][0] = f'IJumpIfInst {len(prog)}'
            elif isinstance(s, ast.Assign) and len(s.targets) == 1 and ast.unparse(s.targets[0]) == inst_expr \
                    and ast.unparse(s.value) == f'{clsarg}()':
                prog.append(['INewAssign', u, ('get_default_instance', s.lineno, '')])
            elif u == f'{inst_expr}.default_initialization()':
                prog.append(['ILoadSelf', u + '   (receiver evaluated)', ('get_default_instance', s.lineno, '')])
                for ins, st in zip(init_instrs, side['default_initialization']):
                    prog.append([ins, '  ' + st['stmt'], ('default_initialization', st['line'], '')])
            elif isinstance(s, ast.Assign) and len(s.targets) == 1 and isinstance(s.targets[0], ast.Name) \
                    and ast.unparse(s.value) == f'{clsarg}()':
                # <local> = cls(): a fresh object that only this thread can reach
                nm = s.targets[0].id
                if local['name'] is not None or nm in argnames or nm == clsarg:
                    raise Unsupported('second local instance / assignment to a parameter: ' + u, span(s))
                local['name'] = nm
                prog.append(['INewLocal', u, ('get_default_instance', s.lineno, '')])
            elif local['name'] is not None and u == f"{local['name']}.default_initialization()":
                if local['initialised']:
                    raise Unsupported('default_initialization() called twice on the local instance', span(s))
                local['initialised'] = True
                # the receiver is a local variable: evaluating it is not an access to shared state, so the call
                # line itself is no instruction (and no pause point of the real-thread harness)
                for ins, st in zip(init_instrs, side['default_initialization']):
                    prog.append([ins, '  ' + st['stmt'] + f"   (self = {local['name']})",
                                 ('default_initialization', st['line'], '')])
            elif isinstance(s, ast.Assign) and len(s.targets) == 1 and ast.unparse(s.targets[0]) == inst_expr \
                    and local['name'] is not None and isinstance(s.value, ast.Name) and s.value.id == local['name']:
                prog.append(['IPublishSelf', u, ('get_default_instance', s.lineno, '')])
            elif isinstance(s, ast.Return) and s.value is not None and ast.unparse(s.value) == inst_expr:
                prog.append(['IReturn', u, ('get_default_instance', s.lineno, '')])
            else:
                raise Unsupported('get_default_instance: ' + u[:120], span(s))

    tr_block(gdi.body)
    if not prog or prog[-1][0] != 'IReturn':
        raise Unsupported('get_default_instance does not end in `return cls._default_instance`')
    # every Name the function mentions is the class parameter or the one local (nothing else can alias the instance)
    for n in (x for st in gdi.body for x in ast.walk(st)):
        if isinstance(n, ast.Name) and n.id not in (clsarg, local['name']):
            raise Unsupported(f'get_default_instance mentions the name {n.id}', span(n))
    # does a statement of the initialisation run while the object is already reachable from the shared variable?
    ops = [p[0].split()[0] for p in prog]
    pub = [i for i, o in enumerate(ops) if o in ('INewAssign', 'IPublishSelf')]
    ini = [i for i, o in enumerate(ops) if o in ('IClear', 'ISetRegex', 'IAddKw')]
    publishes_before_init = bool(pub and ini and min(pub) < max(ini))

    lines = [HEADER,
             '(* sqlparse/lexer.py: Lexer.get_default_instance with Lexer.default_initialization inlined. *)\n',
             'From SqlModel Require Import Base.', 'From SqlModel.Sys Require Import Singleton.', '',
             'Definition get_default_instance_prog : list instr :=', '  [']
    for i, (ins, cm, _site) in enumerate(prog):
        sep = ';' if i + 1 < len(prog) else ''
        lines.append(f'    {ins}{sep}   (* {i}: {coq_comment(cm)} *)')
    lines.append('  ].')
    lines.append('')
    lines.append('(* the dictionaries default_initialization registers, in order: '
                 + coq_comment(', '.join(kwnames)) + ' *)')
    lines.append('Definition expected_kws : list nat := [' + '; '.join(str(i) for i in range(len(kwnames))) + '].')
    lines.append('')
    lines.append('(* is the instance assigned to the shared variable BEFORE its initialisation has finished?  (syntactic: a')
    lines.append('   publishing instruction precedes a statement of default_initialization; re-derived from the instruction')
    lines.append('   list by Sys/HistoryXFacts.v: publishes_flag_ok) *)')
    lines.append('Definition publishes_before_init : bool := %s.' % ('true' if publishes_before_init else 'false'))
    side['prog'] = [p[0] for p in prog]
    side['kwnames'] = kwnames
    # source site of every instruction: function, line, and 'enter'/'exit' for the two events of the with-line
    side['sites'] = [{'fn': p[2][0], 'line': p[2][1], 'phase': p[2][2]} for p in prog]
    side['shared'] = shared
    side['local'] = local['name']
    side['publishes_before_init'] = publishes_before_init
    return {'SingletonProg.v': '\n'.join(lines) + '\n'}, side
