"""Gen/Frontends.v: how the public entry points hand their input on to the single decode point.

Extracted from the AST of sqlparse/__init__.py (parse, parsestream, format, split),
engine/filter_stack.py (FilterStack.run), lexer.py (tokenize, Lexer.get_tokens) and
formatter.py (build_filter_stack returns the stack it was given).

For every function on the path  entry point -> FilterStack.run -> lexer.tokenize -> Lexer.get_tokens
the translator emits: the callee the two input parameters (text/stream, encoding) flow into, the
positional arguments of that call classified as "own text parameter" / "own encoding parameter" /
"anything else", the number of keyword/star arguments, the number of OTHER occurrences of the two
parameters in the body (any load, store or del), and what is done with the call's result.
The decode ladder of Lexer.get_tokens is matched against a template; the fallback codec is
emitted as a constructor.  Anything the translator cannot interpret fails closed; what it can
interpret but differs from the model's expectation is emitted as found, so that the Coq-side
check `C19_single_decode` (vm_compute) fails.
"""
import ast
import inspect
import io

from common import Unsupported, HEADER, assert_repo, coq_comment

LADDER_TEMPLATE = '''
if isinstance(text, TextIOBase):
    text = text.read()
if isinstance(text, str):
    pass
elif isinstance(text, bytes):
    if encoding:
        text = text.decode(encoding)
    else:
        try:
            text = text.decode('utf-8')
        except UnicodeDecodeError:
            text = text.decode(%r)
else:
    raise TypeError()
'''

FALLBACKS = {
    'unicode-escape': 'FbUnicodeEscape', 'unicode_escape': 'FbUnicodeEscape', 'unicodeescape': 'FbUnicodeEscape',
    'latin-1': 'FbLatin1', 'latin1': 'FbLatin1', 'latin_1': 'FbLatin1', 'iso-8859-1': 'FbLatin1',
    'iso8859-1': 'FbLatin1', 'l1': 'FbLatin1',
}


def span(node):
    return 'line %s' % getattr(node, 'lineno', '?')


def strip_doc(body):
    body = list(body)
    if body and isinstance(body[0], ast.Expr) and isinstance(body[0].value, ast.Constant) \
            and isinstance(body[0].value.value, str):
        body = body[1:]
    return body


def module_funcs(mod, what):
    """name -> FunctionDef for module-level functions; fail if a name is bound twice or assigned."""
    funs = {}
    for n in mod.body:
        if isinstance(n, (ast.FunctionDef, ast.AsyncFunctionDef)):
            if n.name in funs:
                raise Unsupported(f'{what}: function {n.name} defined twice', span(n))
            funs[n.name] = n
    for n in ast.walk(mod):
        if isinstance(n, ast.Name) and isinstance(n.ctx, (ast.Store, ast.Del)) and n.id in funs:
            # a local variable of the same name inside some function is fine only if it is not one
            # of the functions we resolve calls to; be strict
            if n.id in ('parse', 'parsestream', 'format', 'split', 'tokenize'):
                raise Unsupported(f'{what}: name {n.id} is rebound', span(n))
    return funs


def params(fn, what):
    a = fn.args
    if a.posonlyargs or a.vararg:
        raise Unsupported(f'{what}: unexpected parameter kinds', span(fn))
    names = [x.arg for x in a.args]
    if names and names[0] in ('self', 'cls'):
        names = names[1:]
    if len(names) < 2 or names[1] != 'encoding':
        raise Unsupported(f'{what}: parameters {names}: expected (<text>, encoding, ...)', span(fn))
    # encoding must default to None
    defaults = dict(zip([x.arg for x in a.args][::-1], a.defaults[::-1]))
    d = defaults.get('encoding')
    if not (isinstance(d, ast.Constant) and d.value is None):
        raise Unsupported(f'{what}: encoding does not default to None', span(fn))
    return names[0], 'encoding'


def classify_arg(e, p_sql, p_enc):
    if isinstance(e, ast.Name) and isinstance(e.ctx, ast.Load):
        if e.id == p_sql:
            return 'ASql'
        if e.id == p_enc:
            return 'AEnc'
    return 'AOtherArg'


def parents_of(fn):
    par = {}
    for n in ast.walk(fn):
        for c in ast.iter_child_nodes(n):
            par[c] = n
    return par


def analyse(fn, what, resolve_callee):
    """The single call the input parameters flow into, and everything else that touches them."""
    p_sql, p_enc = params(fn, what)
    par = parents_of(fn)
    occ = []
    for stmt in fn.body:
        for n in ast.walk(stmt):
            if isinstance(n, ast.Name) and n.id in (p_sql, p_enc):
                occ.append(n)
            if isinstance(n, ast.arg) and n.arg in (p_sql, p_enc):
                raise Unsupported(f'{what}: nested function/lambda re-binds {n.arg}', span(n))
            if isinstance(n, (ast.Global, ast.Nonlocal)) and set(n.names) & {p_sql, p_enc}:
                raise Unsupported(f'{what}: global/nonlocal on an input parameter', span(n))
    if not occ:
        raise Unsupported(f'{what}: the input parameters are never used')
    # candidate call: parent of the first occurrence that is a direct positional argument
    call = None
    for n in occ:
        p = par.get(n)
        if isinstance(p, ast.Call) and any(a is n for a in p.args) and isinstance(n.ctx, ast.Load):
            call = p
            break
    if call is None:
        raise Unsupported(f'{what}: no call takes an input parameter as a positional argument')
    direct = [n for n in occ if any(a is n for a in call.args)]
    other = len(occ) - len(direct)
    args = [classify_arg(a, p_sql, p_enc) for a in call.args]
    kwargs = len(call.keywords) + sum(1 for a in call.args if isinstance(a, ast.Starred))
    callee = resolve_callee(fn, call)
    # what happens to the result
    wrap = 'WOtherWrap'
    up = par.get(call)
    if isinstance(up, ast.Return) and up.value is call:
        wrap = 'WReturn'
    elif isinstance(up, ast.Call) and up.args == [call] and not up.keywords and isinstance(par.get(up), ast.Return):
        f = up.func
        if isinstance(f, ast.Name) and f.id == 'tuple':
            wrap = 'WTuple'
        elif isinstance(f, ast.Attribute) and f.attr == 'join' and isinstance(f.value, ast.Constant) and f.value.value == '':
            wrap = 'WJoin'
    elif isinstance(up, ast.comprehension) and up.iter is call and not up.ifs and not up.is_async:
        lc = par.get(up)
        if isinstance(lc, ast.ListComp) and len(lc.generators) == 1 and isinstance(par.get(lc), ast.Return) \
                and isinstance(up.target, ast.Name) \
                and ast.dump(lc.elt) == ast.dump(ast.parse(f'str({up.target.id}).strip()', mode='eval').body):
            wrap = 'WStripList'
    elif isinstance(up, ast.Assign) and up.value is call and len(up.targets) == 1 \
            and isinstance(up.targets[0], ast.Name) and up.targets[0].id == 'stream':
        wrap = 'WStream'
    return {'callee': callee, 'args': args, 'kwargs': kwargs, 'other': other, 'wrap': wrap,
            'call_src': ast.unparse(call), 'params': (p_sql, p_enc)}


def check_stack_binding(fn, what, formatter_ok):
    """`stack` in an entry point is an engine.FilterStack instance (possibly passed through
    formatter.build_filter_stack, which returns the object it was given)."""
    binds = []
    for n in ast.walk(fn):
        if isinstance(n, ast.Name) and n.id == 'stack' and isinstance(n.ctx, (ast.Store, ast.Del)):
            binds.append(n)
    par = parents_of(fn)
    n_ctor = 0
    for b in binds:
        a = par.get(b)
        if not (isinstance(a, ast.Assign) and a.targets == [b]):
            raise Unsupported(f'{what}: unrecognised binding of `stack`', span(b))
        v = a.value
        src = ast.unparse(v.func) if isinstance(v, ast.Call) else ''
        if src == 'engine.FilterStack':
            n_ctor += 1
        elif src == 'formatter.build_filter_stack' and formatter_ok and v.args \
                and isinstance(v.args[0], ast.Name) and v.args[0].id == 'stack':
            pass
        else:
            raise Unsupported(f'{what}: `stack` bound to {ast.unparse(v)}', span(b))
    if n_ctor != 1:
        raise Unsupported(f'{what}: expected exactly one `stack = engine.FilterStack(...)`')


def build_filter_stack_returns_arg():
    from sqlparse import formatter
    mod = ast.parse(inspect.getsource(formatter))
    fns = [n for n in mod.body if isinstance(n, ast.FunctionDef) and n.name == 'build_filter_stack']
    if len(fns) != 1:
        raise Unsupported('formatter.build_filter_stack not found')
    fn = fns[0]
    first = fn.args.args[0].arg
    rets = [n for n in ast.walk(fn) if isinstance(n, ast.Return)]
    if not rets:
        raise Unsupported('build_filter_stack: no return')
    for r in rets:
        if not (isinstance(r.value, ast.Name) and r.value.id == first):
            raise Unsupported('build_filter_stack: returns something else than its stack argument', span(r))
    for n in ast.walk(fn):
        if isinstance(n, ast.Name) and n.id == first and isinstance(n.ctx, (ast.Store, ast.Del)):
            raise Unsupported('build_filter_stack: re-binds its stack argument', span(n))
    return True


def ladder(fn):
    """Match the decode ladder of Lexer.get_tokens; return the fallback codec constructor."""
    body = strip_doc(fn.body)
    if len(body) < 3:
        raise Unsupported('get_tokens: body too short')
    head, rest = body[:2], body[2:]
    try:
        exc = head[1].orelse[0].body[0].orelse[0].handlers[0]
        fb = exc.body[0].value.args[0].value
        rz = head[1].orelse[0].orelse[0]
    except (AttributeError, IndexError):
        raise Unsupported('get_tokens: decode ladder has an unexpected shape', span(head[0]))
    if not isinstance(fb, str):
        raise Unsupported('get_tokens: fallback codec is not a string constant', span(exc))
    if not (isinstance(rz, ast.Raise) and isinstance(rz.exc, ast.Call) and isinstance(rz.exc.func, ast.Name)
            and rz.exc.func.id == 'TypeError' and rz.cause is None):
        raise Unsupported('get_tokens: final else does not raise TypeError', span(rz))
    # normalise the message away, then compare with the template
    got_mod = ast.Module(body=head, type_ignores=[])
    got = ast.parse(ast.unparse(got_mod))
    for n in ast.walk(got):
        if isinstance(n, ast.Raise):
            n.exc.args = []
            n.exc.keywords = []
    want = ast.parse(LADDER_TEMPLATE % fb)
    if ast.dump(got) != ast.dump(want):
        raise Unsupported('get_tokens: decode ladder differs from the modelled one:\n' + ast.unparse(got_mod),
                          span(head[0]))
    key = fb.lower().replace(' ', '')
    if key not in FALLBACKS:
        raise Unsupported(f'get_tokens: fallback codec {fb!r} is not modelled', span(exc))
    # after the ladder: `text` is never re-bound, `encoding` never read again
    late_store = late_enc = 0
    for s in rest:
        for n in ast.walk(s):
            if isinstance(n, ast.Name) and n.id == 'text' and isinstance(n.ctx, (ast.Store, ast.Del)):
                late_store += 1
            if isinstance(n, ast.Name) and n.id == 'encoding':
                late_enc += 1
    return FALLBACKS[key], fb, late_store, late_enc


def generate():
    assert_repo()
    import sqlparse
    from sqlparse import lexer, engine
    from sqlparse.engine import filter_stack

    # ---- runtime identities the name resolution below relies on
    if sqlparse.engine is not engine or engine.FilterStack is not filter_stack.FilterStack:
        raise Unsupported('sqlparse.engine.FilterStack is not engine.filter_stack.FilterStack')
    if filter_stack.lexer is not lexer:
        raise Unsupported('filter_stack.lexer is not sqlparse.lexer')
    if lexer.TextIOBase is not io.TextIOBase:
        raise Unsupported('lexer.TextIOBase is not io.TextIOBase')
    if type(lexer.Lexer.get_default_instance()) is not lexer.Lexer:
        raise Unsupported('Lexer.get_default_instance() is not a plain Lexer')
    formatter_ok = build_filter_stack_returns_arg()

    init_mod = ast.parse(inspect.getsource(sqlparse))
    init_funs = module_funcs(init_mod, 'sqlparse/__init__.py')
    for need in ('parse', 'parsestream', 'format', 'split'):
        if need not in init_funs:
            raise Unsupported(f'sqlparse.{need} not found')
    # `engine`, `formatter` must be the sqlparse submodules
    imported = set()
    for n in init_mod.body:
        if isinstance(n, ast.ImportFrom) and n.module == 'sqlparse' and n.level == 0:
            imported |= {a.asname or a.name for a in n.names}
    if not {'engine', 'formatter', 'filters'} <= imported:
        raise Unsupported('sqlparse/__init__.py does not import engine/formatter/filters from sqlparse')

    def resolve_init(fn, call):
        f = call.func
        if isinstance(f, ast.Name) and f.id == 'parsestream':
            return 'FParsestream'
        if isinstance(f, ast.Attribute) and f.attr == 'run' and isinstance(f.value, ast.Name) and f.value.id == 'stack':
            check_stack_binding(fn, 'sqlparse.' + fn.name, formatter_ok)
            return 'FRun'
        return 'FUnknownFun'

    rows = []
    notes = []
    for name, cons in (('parse', 'FParse'), ('parsestream', 'FParsestream'), ('format', 'FFormat'), ('split', 'FSplit')):
        r = analyse(init_funs[name], 'sqlparse.' + name, resolve_init)
        rows.append((cons, r))
        notes.append(f'sqlparse.{name}{r["params"]}: {r["call_src"]}')

    # ---- FilterStack.run
    fs_mod = ast.parse(inspect.getsource(filter_stack))
    cls = [n for n in fs_mod.body if isinstance(n, ast.ClassDef) and n.name == 'FilterStack']
    if len(cls) != 1:
        raise Unsupported('class FilterStack not found')
    runs = [n for n in cls[0].body if isinstance(n, ast.FunctionDef) and n.name == 'run']
    if len(runs) != 1:
        raise Unsupported('FilterStack.run not found')
    if cls[0].bases:
        raise Unsupported('FilterStack has base classes')
    ok_import = any(isinstance(n, ast.ImportFrom) and n.module == 'sqlparse' and
                    any((a.asname or a.name) == 'lexer' and a.name == 'lexer' for a in n.names) for n in fs_mod.body)
    if not ok_import:
        raise Unsupported('filter_stack.py does not `from sqlparse import lexer`')

    def resolve_run(fn, call):
        return 'FTokenize' if ast.unparse(call.func) == 'lexer.tokenize' else 'FUnknownFun'
    r = analyse(runs[0], 'FilterStack.run', resolve_run)
    rows.append(('FRun', r))
    notes.append(f'FilterStack.run{r["params"]}: {r["call_src"]}')

    # ---- lexer.tokenize, Lexer.get_tokens
    lx_mod = ast.parse(inspect.getsource(lexer))
    lx_funs = module_funcs(lx_mod, 'sqlparse/lexer.py')
    if 'tokenize' not in lx_funs:
        raise Unsupported('lexer.tokenize not found')

    def resolve_tok(fn, call):
        return 'FGetTokens' if ast.unparse(call.func) == 'Lexer.get_default_instance().get_tokens' else 'FUnknownFun'
    r = analyse(lx_funs['tokenize'], 'lexer.tokenize', resolve_tok)
    rows.append(('FTokenize', r))
    notes.append(f'lexer.tokenize{r["params"]}: {r["call_src"]}')

    lcls = [n for n in lx_mod.body if isinstance(n, ast.ClassDef) and n.name == 'Lexer']
    if len(lcls) != 1:
        raise Unsupported('class Lexer not found')
    gts = [n for n in lcls[0].body if isinstance(n, ast.FunctionDef) and n.name == 'get_tokens']
    if len(gts) != 1:
        raise Unsupported('Lexer.get_tokens not found')
    gp = [a.arg for a in gts[0].args.args]
    if gp != ['self', 'text', 'encoding']:
        raise Unsupported(f'get_tokens parameters {gp}')
    fb_cons, fb_name, late_store, late_enc = ladder(gts[0])

    out = [HEADER, '',
           'From SqlModel Require Import Base.',
           'From SqlModel.Sys Require Import FrontDefs.', '']
    for nline in notes:
        out.append('(* ' + coq_comment(nline) + ' *)')
    out.append('Definition fe_funs : list fe_fun := [')
    lines = []
    for cons, r in rows:
        lines.append('  {| ff_name := %s; ff_callee := %s; ff_args := [%s]; ff_kwargs := %d; ff_other_uses := %d; ff_wrap := %s |}'
                     % (cons, r['callee'], '; '.join(r['args']), r['kwargs'], r['other'], r['wrap']))
    out.append(';\n'.join(lines))
    out.append('].')
    out.append('')
    out.append('(* Lexer.get_tokens: the decode ladder matches the modelled template (stream -> read(); str; bytes:')
    out.append('   decode(encoding) if encoding else utf-8, on UnicodeDecodeError the fallback; else TypeError);')
    out.append('   fallback codec in the source: ' + coq_comment(repr(fb_name)) + ' *)')
    out.append(f'Definition fe_fallback : fbcodec := {fb_cons}.')
    out.append('(* after the ladder: stores to `text`, occurrences of `encoding` *)')
    out.append(f'Definition fe_late_text_stores : nat := {late_store}.')
    out.append(f'Definition fe_late_encoding_uses : nat := {late_enc}.')
    out.append('')
    side = {'notes': notes, 'fallback': fb_name}
    return {'Frontends.v': '\n'.join(out)}, side
