#!/usr/bin/env python3
"""Self-test of the pass-table tie (tools/regen/gen_passes.py -> Gen/PassTab.v -> Inst/PassTabOk.v).

Every seeded mutation is applied to a TEMPORARY COPY of the library (never to /repo); the pipeline
    gen_passes.generate()  ->  coqc Gen/PassTab.v Inst/PassTabDefs.v Inst/PassTabOk.v
(run in a temporary Coq tree that links to the compiled development) must FAIL for each of them: either the
translator fails closed, or an equation of PassTabOk.v no longer checks.  The unmodified copy must pass.

    PYTHONPATH=/repo /venv/bin/python tools/regen/selftest_passes.py [-v] [name-substring ...]
exit status 0 iff the baseline passes and every mutation is rejected.  All temporary copies are removed.
"""
import json
import os
import re
import shutil
import subprocess
import sys
import tempfile

HERE = os.path.dirname(os.path.abspath(__file__))
sys.path.insert(0, HERE)
from common import REPO, VERIF  # noqa: E402

G = 'sqlparse/engine/grouping.py'
S = 'sqlparse/sql.py'
U = 'sqlparse/utils.py'
K = 'sqlparse/tokens.py'

SEEDED = [
    # (name, file, old, new)
    ("For.M_OPEN gains 'WHILE'", S,
     "M_OPEN = T.Keyword, ('FOR', 'FOREACH')", "M_OPEN = T.Keyword, ('FOR', 'FOREACH', 'WHILE')"),
    ('two passes swapped in group()', G,
     "        group_typecasts,\n        group_tzcasts,\n", "        group_tzcasts,\n        group_typecasts,\n"),
    ('a pass removed from group()', G,
     "        group_identifier,\n        group_order,\n", "        group_identifier,\n"),
    ('a pass added to group()', G,
     "def group_typecasts(tlist):",
     "def group_having(tlist):\n    _group_matching(tlist, sql.Having)\n\n\ndef group_typecasts(tlist):"
     ),
    ('sql.Function added to @recurse(sql.Where)', G,
     "@recurse(sql.Where)", "@recurse(sql.Where, sql.Function)"),
    ('@recurse() dropped from group_aliased', G,
     "@recurse()\ndef group_aliased(tlist):", "def group_aliased(tlist):"),
    ('T.Name.Placeholder dropped from T_NAME', G,
     "T_NAME = (T.Name, T.Name.Placeholder)", "T_NAME = (T.Name,)"),
    ('valid_prev of group_as: not token.is_keyword -> token.ttype not in (T.Keyword,)', G,
     "return token.normalized == 'NULL' or not token.is_keyword",
     "return token.normalized == 'NULL' or token.ttype not in (T.Keyword,)"),
    ('extend=False flipped in group_comparison', G,
     "    _group(tlist, sql.Comparison, match,\n           valid_prev, valid_next, post, extend=False)",
     "    _group(tlist, sql.Comparison, match,\n           valid_prev, valid_next, post, extend=True)"),
    ('default extend of _group flipped', G,
     "           extend=True,\n           recurse=True\n", "           extend=False,\n           recurse=True\n"),
    ("keyword 'WINDOW' added to Where.M_CLOSE", S,
     "'HAVING', 'RETURNING', 'INTO')", "'HAVING', 'RETURNING', 'INTO', 'WINDOW')"),
    ('skip_ws=False added to token_next in group_over', G,
     "        nidx, next_ = tlist.token_next(tidx)\n        if imt(next_, i=sql.Parenthesis, t=T.Name):",
     "        nidx, next_ = tlist.token_next(tidx, skip_ws=False)\n        if imt(next_, i=sql.Parenthesis, t=T.Name):"),
    ('sql.Function dropped from sqlcls of group_comparison', G,
     "    sqlcls = (sql.Parenthesis, sql.Function, sql.Identifier,\n              sql.Operation, sql.TypedLiteral)",
     "    sqlcls = (sql.Parenthesis, sql.Identifier,\n              sql.Operation, sql.TypedLiteral)"),
    ("group_period.match: '->>' becomes '#>'", G, "(T.Operator, '->>')", "(T.Operator, '#>')"),
    ('recurse=False dropped in group_arrays', G,
     "valid_prev, valid_next, post, extend=True, recurse=False)", "valid_prev, valid_next, post, extend=True)"),
    ("group_functions: 'CREATE' becomes 'ALTER'", G,
     "if tmp_token.value.upper() == 'CREATE':", "if tmp_token.value.upper() == 'ALTER':"),
    ('extend=True flipped in group_aliased', G,
     "tlist.group_tokens(sql.Identifier, tidx, nidx, extend=True)",
     "tlist.group_tokens(sql.Identifier, tidx, nidx, extend=False)"),
    ('group_order: t=T.Number (prefix test) becomes t=(T.Number,) (equality)', G,
     "if imt(prev_, i=sql.Identifier, t=T.Number):", "if imt(prev_, i=sql.Identifier, t=(T.Number,)):"),
    ("m_role of group_identifier_list loses 'role'", G,
     "m_role = T.Keyword, ('null', 'role')", "m_role = T.Keyword, ('null',)"),
    ("TypedLiteral.M_EXTEND gains 'WEEK'", S,
     '"SECOND", "YEAR")', '"SECOND", "YEAR", "WEEK")'),
    ('post of group_typecasts returns tidx, nidx', G,
     "        return token is not None\n\n    def post(tlist, pidx, tidx, nidx):\n        return pidx, nidx\n\n"
     "    valid_prev = valid_next = valid\n    _group(tlist, sql.Identifier",
     "        return token is not None\n\n    def post(tlist, pidx, tidx, nidx):\n        return tidx, nidx\n\n"
     "    valid_prev = valid_next = valid\n    _group(tlist, sql.Identifier"),
    ('group_comments: tk.is_newline becomes tk.is_whitespace', G,
     "lambda tk: imt(tk, t=T.Comment) or tk.is_newline", "lambda tk: imt(tk, t=T.Comment) or tk.is_whitespace"),
    ('group_comments: only one of the two t=T.Comment sites changed', G,
     "        tidx, token = tlist.token_next_by(t=T.Comment, idx=tidx)",
     "        tidx, token = tlist.token_next_by(t=T.Comment.Single, idx=tidx)"),
    ('_group: `prev_ and` dropped from the guard', G,
     "if prev_ and valid_prev(prev_) and valid_next(next_):", "if valid_prev(prev_) and valid_next(next_):"),
    ('_group_matching: close before open', G,
     "        if token.match(*cls.M_OPEN):\n            opens.append(tidx)\n\n        elif token.match(*cls.M_CLOSE):",
     "        if token.match(*cls.M_CLOSE) and not opens:\n            continue\n\n"
     "        if token.match(*cls.M_OPEN):\n            opens.append(tidx)\n\n        elif token.match(*cls.M_CLOSE):"),
    ('utils.imt: `if i and isinstance` becomes `if isinstance`', U,
     "    if i and isinstance(token, i):", "    if i is not None and isinstance(token, i):"),
    ('Token.match: `is` becomes `in`', S,
     "        type_matched = self.ttype is ttype", "        type_matched = self.ttype in ttype"),
    ('_TokenType.__contains__: prefix test becomes equality', K,
     "item[:len(self)] == self", "item == self"),
    ('TokenList gains __len__ (token truthiness changes)', S,
     "    def __iter__(self):\n        return iter(self.tokens)",
     "    def __len__(self):\n        return len(self.tokens)\n\n    def __iter__(self):\n        return iter(self.tokens)"),
    ('group_operator.post retypes to T.Operator.Comparison', G,
     "tlist[tidx].ttype = T.Operator\n", "tlist[tidx].ttype = T.Operator.Comparison\n"),
    ('group_tzcasts.valid_next loses its None guard', G,
     "        return token is not None and (\n            token.is_whitespace\n",
     "        return (\n            token.is_whitespace\n"),
    ('group_comparison.valid loses `token and`', G,
     "elif token and token.is_keyword and token.normalized == 'NULL':",
     "elif token.is_keyword and token.normalized == 'NULL':"),
    ('group_where: off-by-one in the end token', G,
     "            end = tlist.tokens[eidx - 1]", "            end = tlist.tokens[eidx]"),
    ("group_values: 'VALUES' becomes ('VALUES', 'VALUE')", G,
     "tlist.token_next_by(m=(T.Keyword, 'VALUES'))", "tlist.token_next_by(m=(T.Keyword, ('VALUES', 'VALUE')))"),
    ('class Over derives from Parenthesis', S, "class Over(TokenList):", "class Over(Parenthesis):"),
    ('group_assignment.valid: `not in (T.Keyword,)` (equality) becomes `not in T.Keyword` (prefix)', G,
     "return token is not None and token.ttype not in (T.Keyword,)",
     "return token is not None and token.ttype not in T.Keyword"),
    ('Where.M_CLOSE reassigned at the end of sql.py', S,
     "class Command(TokenList):", "Where.M_CLOSE = T.Keyword, ('ORDER BY',)\n\n\nclass Command(TokenList):"),
    ('group_case groups sql.If', G,
     "def group_case(tlist):\n    _group_matching(tlist, sql.Case)",
     "def group_case(tlist):\n    _group_matching(tlist, sql.If)"),
    ('group_identifier: ttypes tuple reordered with T.Name.Placeholder added', G,
     "    ttypes = (T.String.Symbol, T.Name)\n", "    ttypes = (T.String.Symbol, T.Name, T.Name.Placeholder)\n"),
    ('group_typed_literal.match tests M_CLOSE instead of M_OPEN', G,
     "return imt(token, m=sql.TypedLiteral.M_OPEN)", "return imt(token, m=sql.TypedLiteral.M_CLOSE)"),
    ('match of group_as compares token.value', G,
     "return token.is_keyword and token.normalized == 'AS'", "return token.is_keyword and token.value == 'AS'"),
    ('a regex match in group_typecasts', G,
     "return token.match(T.Punctuation, '::')", "return token.match(T.Punctuation, '::+', True)"),
]

COQ_FILES = ['Gen/PassTab.v', 'Inst/PassTabDefs.v', 'Inst/PassTabOk.v']
OURS = ('PassTab.', 'PassTabDefs.', 'PassTabOk.')


def make_coq_tree(tmp):
    """tmp/theories: links to the compiled development, except our three files"""
    src = os.path.join(VERIF, 'coq', 'theories')
    dst = os.path.join(tmp, 'theories')
    os.makedirs(dst)
    for d in sorted(os.listdir(src)):
        p = os.path.join(src, d)
        if not os.path.isdir(p):
            continue
        if d not in ('Gen', 'Inst'):
            os.symlink(p, os.path.join(dst, d))
            continue
        os.makedirs(os.path.join(dst, d))
        for f in os.listdir(p):
            if f.startswith(OURS):
                continue
            os.symlink(os.path.join(p, f), os.path.join(dst, d, f))
    for rel in COQ_FILES[1:]:
        shutil.copy(os.path.join(src, rel), os.path.join(dst, rel))
    return dst


def run_translator(repo):
    code = ('import sys, json\n'
            'sys.path.insert(0, %r)\n'
            'from common import Unsupported\n'
            'import gen_passes\n'
            'try:\n'
            '    files, side = gen_passes.generate()\n'
            'except Unsupported as e:\n'
            '    print("UNSUPPORTED " + json.dumps(str(e.what)))\n'
            '    sys.exit(3)\n'
            'print("OK " + json.dumps(files))\n' % HERE)
    env = dict(os.environ, PYTHONPATH=repo, VERIF_REPO=repo, PYTHONHASHSEED='0', PYTHONDONTWRITEBYTECODE='1')
    env.pop('GEN_PASSES_NO_PIN_CHECK', None)
    p = subprocess.run([sys.executable, '-c', code], env=env, stdout=subprocess.PIPE, stderr=subprocess.PIPE,
                       text=True, timeout=300)
    out = p.stdout.strip().splitlines()
    if p.returncode == 0 and out and out[-1].startswith('OK '):
        return json.loads(out[-1][3:])['PassTab.v'], ''
    if out and out[-1].startswith('UNSUPPORTED '):
        return None, 'fails closed: ' + json.loads(out[-1][12:])
    last = (p.stderr.strip().splitlines() or ['failed'])[-1]
    return None, 'crashes (regen.py writes a file that does not compile): ' + last


def enclosing(path, line):
    """name of the last Theorem/Lemma/Example/Definition that starts at or before `line`"""
    name = '?'
    with open(path, encoding='utf-8') as f:
        for i, ln in enumerate(f, 1):
            if i > line:
                break
            m = re.match(r'\s*(Theorem|Lemma|Corollary|Example|Definition)\s+(\w+)', ln)
            if m:
                name = m.group(2)
    return name


def run_coq(tree, passtab):
    with open(os.path.join(tree, 'Gen', 'PassTab.v'), 'w', encoding='utf-8') as f:
        f.write(passtab)
    for rel in COQ_FILES:
        p = subprocess.run(['timeout', '300', 'coqc', '-R', tree, 'SqlModel', '-w', '-notation-overridden',
                            os.path.join(tree, rel)], stdout=subprocess.PIPE, stderr=subprocess.STDOUT, text=True)
        if p.returncode != 0:
            m = re.search(r'line (\d+), characters', p.stdout)
            where = enclosing(os.path.join(tree, rel), int(m.group(1))) if m else '?'
            err = ' '.join(p.stdout[p.stdout.find('Error'):].split())[:110]
            return False, f'{rel}: `{where}` no longer checks ({err})'
    return True, ''


def main():
    verbose = '-v' in sys.argv
    only = [a for a in sys.argv[1:] if not a.startswith('-')]
    res = {'seeded': 0, 'rejected': 0, 'accepted': [], 'how': {}, 'baseline_ok': False}
    tmp = tempfile.mkdtemp(prefix='passes_selftest_')
    try:
        repo = os.path.join(tmp, 'repo')
        shutil.copytree(REPO, repo, ignore=shutil.ignore_patterns('.git', '__pycache__', 'tests', 'docs', '*.pyc'))
        tree = make_coq_tree(tmp)
        v, err = run_translator(repo)
        if v is not None:
            ok, err = run_coq(tree, v)
            res['baseline_ok'] = ok
        res['baseline_error'] = err
        print('baseline (unmodified copy):', 'passes' if res['baseline_ok'] else 'FAILS: ' + err)
        for name, rel, old, new in SEEDED:
            if only and not any(o in name for o in only):
                continue
            res['seeded'] += 1
            path = os.path.join(repo, rel)
            with open(path, encoding='utf-8') as f:
                src = f.read()
            if src.count(old) != 1:
                res['accepted'].append(name + ' (SEED DOES NOT APPLY)')
                print(' %-78s SEED DOES NOT APPLY (%d occurrences)' % (name, src.count(old)))
                continue
            with open(path, 'w', encoding='utf-8') as f:
                f.write(src.replace(old, new, 1))
            try:
                v, err = run_translator(repo)
                if v is None:
                    res['rejected'] += 1
                    res['how'][name] = 'translator ' + err
                else:
                    ok, err = run_coq(tree, v)
                    if ok:
                        res['accepted'].append(name)
                    else:
                        res['rejected'] += 1
                        res['how'][name] = 'Coq: ' + err
            finally:
                with open(path, 'w', encoding='utf-8') as f:
                    f.write(src)
            how = res['how'].get(name, 'ACCEPTED (NOT DETECTED)')
            print(' %-78s %s' % (name, how if verbose else how.split('\n')[0][:150]))
    finally:
        shutil.rmtree(tmp, ignore_errors=True)
    print(json.dumps({k: res[k] for k in ('seeded', 'rejected', 'accepted', 'baseline_ok')}))
    return 0 if res['baseline_ok'] and not res['accepted'] and res['seeded'] == res['rejected'] else 1


if __name__ == '__main__':
    sys.exit(main())
