"""Pinned normalised source (docstrings and decorators dropped; literal sites of the ad-hoc passes
abstracted as LIT_x) of the functions Group/Passes.v and Tree/Node.v were hand-written from.
Refresh with `python gen_passes.py --pins` AFTER adapting the model."""
PINS = {
    'grouping._group': (
        'def _group(tlist, cls, match, valid_prev=lambda t: True, valid_next=lambda t: True, post=None, extend=True, recurse=True):\n'
        '    tidx_offset = 0\n'
        '    pidx, prev_ = (None, None)\n'
        '    for idx, token in enumerate(list(tlist)):\n'
        '        tidx = idx - tidx_offset\n'
        '        if tidx < 0:\n'
        '            continue\n'
        '        if token.is_whitespace:\n'
        '            continue\n'
        '        if recurse and token.is_group and (not isinstance(token, cls)):\n'
        '            _group(token, cls, match, valid_prev, valid_next, post, extend)\n'
        '        if match(token):\n'
        '            nidx, next_ = tlist.token_next(tidx)\n'
        '            if prev_ and valid_prev(prev_) and valid_next(next_):\n'
        '                from_idx, to_idx = post(tlist, pidx, tidx, nidx)\n'
        '                grp = tlist.group_tokens(cls, from_idx, to_idx, extend=extend)\n'
        '                tidx_offset += to_idx - from_idx\n'
        '                pidx, prev_ = (from_idx, grp)\n'
        '                continue\n'
        '        pidx, prev_ = (tidx, token)\n'
    ),
    'grouping._group_matching': (
        'def _group_matching(tlist, cls):\n'
        '    opens = []\n'
        '    tidx_offset = 0\n'
        '    for idx, token in enumerate(list(tlist)):\n'
        '        tidx = idx - tidx_offset\n'
        '        if token.is_whitespace:\n'
        '            continue\n'
        '        if token.is_group and (not isinstance(token, cls)):\n'
        '            _group_matching(token, cls)\n'
        '            continue\n'
        '        if token.match(*cls.M_OPEN):\n'
        '            opens.append(tidx)\n'
        '        elif token.match(*cls.M_CLOSE):\n'
        '            try:\n'
        '                open_idx = opens.pop()\n'
        '            except IndexError:\n'
        '                continue\n'
        '            close_idx = tidx\n'
        '            tlist.group_tokens(cls, open_idx, close_idx)\n'
        '            tidx_offset += close_idx - open_idx\n'
    ),
    'grouping.align_comments': (
        'def align_comments(tlist):\n'
        '    tidx, token = tlist.token_next_by(i=LIT_i1)\n'
        '    while token:\n'
        '        pidx, prev_ = tlist.token_prev(tidx)\n'
        '        if isinstance(prev_, LIT_isa1):\n'
        '            tlist.group_tokens(LIT_cls1, pidx, tidx, extend=LIT_ext1)\n'
        '            tidx = pidx\n'
        '        tidx, token = tlist.token_next_by(i=LIT_i1, idx=tidx)\n'
    ),
    'grouping.group': (
        'def group(stmt):\n'
        '    for func in LIT_pass_order:\n'
        '        func(stmt)\n'
        '    return stmt\n'
    ),
    'grouping.group_aliased': (
        'def group_aliased(tlist):\n'
        '    I_ALIAS = LIT_I_ALIAS\n'
        '    tidx, token = tlist.token_next_by(i=LIT_i1, t=LIT_t1)\n'
        '    while token:\n'
        '        nidx, next_ = tlist.token_next(tidx)\n'
        '        if isinstance(next_, LIT_isa1):\n'
        '            tlist.group_tokens(LIT_cls1, tidx, nidx, extend=LIT_ext1)\n'
        '        tidx, token = tlist.token_next_by(i=LIT_i1, t=LIT_t1, idx=tidx)\n'
    ),
    'grouping.group_comments': (
        'def group_comments(tlist):\n'
        '    tidx, token = tlist.token_next_by(t=LIT_t1)\n'
        '    while token:\n'
        '        eidx, end = tlist.token_not_matching(lambda tk: imt(tk, t=LIT_t1) or tk.is_newline, idx=tidx)\n'
        '        if end is not None:\n'
        '            eidx, end = tlist.token_prev(eidx, skip_ws=False)\n'
        '            tlist.group_tokens(LIT_cls1, tidx, eidx)\n'
        '        tidx, token = tlist.token_next_by(t=LIT_t1, idx=tidx)\n'
    ),
    'grouping.group_functions': (
        'def group_functions(tlist):\n'
        '    has_create = False\n'
        '    has_table = False\n'
        '    has_as = False\n'
        '    for tmp_token in tlist.tokens:\n'
        '        if tmp_token.value.upper() == LIT_s1:\n'
        '            has_create = True\n'
        '        if tmp_token.value.upper() == LIT_s2:\n'
        '            has_table = True\n'
        '        if tmp_token.value.upper() == LIT_s3:\n'
        '            has_as = True\n'
        '    if has_create and has_table and (not has_as):\n'
        '        return\n'
        '    tidx, token = tlist.token_next_by(t=LIT_t1)\n'
        '    while token:\n'
        '        nidx, next_ = tlist.token_next(tidx)\n'
        '        if isinstance(next_, LIT_isa1):\n'
        '            over_idx, over = tlist.token_next(nidx)\n'
        '            if over and isinstance(over, LIT_isa2):\n'
        '                eidx = over_idx\n'
        '            else:\n'
        '                eidx = nidx\n'
        '            tlist.group_tokens(LIT_cls1, tidx, eidx)\n'
        '        tidx, token = tlist.token_next_by(t=LIT_t1, idx=tidx)\n'
    ),
    'grouping.group_identifier': (
        'def group_identifier(tlist):\n'
        '    ttypes = LIT_ttypes\n'
        '    tidx, token = tlist.token_next_by(t=LIT_t1)\n'
        '    while token:\n'
        '        tlist.group_tokens(LIT_cls1, tidx, tidx)\n'
        '        tidx, token = tlist.token_next_by(t=LIT_t1, idx=tidx)\n'
    ),
    'grouping.group_order': (
        'def group_order(tlist):\n'
        '    tidx, token = tlist.token_next_by(t=LIT_t1)\n'
        '    while token:\n'
        '        pidx, prev_ = tlist.token_prev(tidx)\n'
        '        if imt(prev_, i=LIT_i1, t=LIT_t2):\n'
        '            tlist.group_tokens(LIT_cls1, pidx, tidx)\n'
        '            tidx = pidx\n'
        '        tidx, token = tlist.token_next_by(t=LIT_t1, idx=tidx)\n'
    ),
    'grouping.group_over': (
        'def group_over(tlist):\n'
        '    tidx, token = tlist.token_next_by(m=LIT_m1)\n'
        '    while token:\n'
        '        nidx, next_ = tlist.token_next(tidx)\n'
        '        if imt(next_, i=LIT_i1, t=LIT_t1):\n'
        '            tlist.group_tokens(LIT_cls1, tidx, nidx)\n'
        '        tidx, token = tlist.token_next_by(m=LIT_m1, idx=tidx)\n'
    ),
    'grouping.group_values': (
        'def group_values(tlist):\n'
        '    tidx, token = tlist.token_next_by(m=LIT_m1)\n'
        '    start_idx = tidx\n'
        '    end_idx = -1\n'
        '    while token:\n'
        '        if isinstance(token, LIT_isa1):\n'
        '            end_idx = tidx\n'
        '        tidx, token = tlist.token_next(tidx)\n'
        '    if end_idx != -1:\n'
        '        tlist.group_tokens(LIT_cls1, start_idx, end_idx, extend=LIT_ext1)\n'
    ),
    'grouping.group_where': (
        'def group_where(tlist):\n'
        '    tidx, token = tlist.token_next_by(m=LIT_m1)\n'
        '    while token:\n'
        '        eidx, end = tlist.token_next_by(m=LIT_m2, idx=tidx)\n'
        '        if end is None:\n'
        '            end = tlist._groupable_tokens[-1]\n'
        '        else:\n'
        '            end = tlist.tokens[eidx - 1]\n'
        '        eidx = tlist.token_index(end)\n'
        '        tlist.group_tokens(LIT_cls1, tidx, eidx)\n'
        '        tidx, token = tlist.token_next_by(m=LIT_m1, idx=tidx)\n'
    ),
    'sql.Parenthesis._groupable_tokens': (
        '@property\n'
        'def _groupable_tokens(self):\n'
        '    return self.tokens[1:-1]\n'
    ),
    'sql.SquareBrackets._groupable_tokens': (
        '@property\n'
        'def _groupable_tokens(self):\n'
        '    return self.tokens[1:-1]\n'
    ),
    'sql.Token.__init__': (
        'def __init__(self, ttype, value):\n'
        '    value = str(value)\n'
        '    self.value = value\n'
        '    self.ttype = ttype\n'
        '    self.parent = None\n'
        '    self.is_group = False\n'
        '    self.is_keyword = ttype in T.Keyword\n'
        '    self.is_whitespace = self.ttype in T.Whitespace\n'
        '    self.is_newline = self.ttype in T.Newline\n'
        "    self.normalized = ' '.join(value.upper().split()) if self.is_keyword else value\n"
    ),
    'sql.Token.match': (
        'def match(self, ttype, values, regex=False):\n'
        '    type_matched = self.ttype is ttype\n'
        '    if not type_matched or values is None:\n'
        '        return type_matched\n'
        '    if isinstance(values, str):\n'
        '        values = (values,)\n'
        '    if regex:\n'
        '        flag = re.IGNORECASE if self.is_keyword else 0\n'
        '        values = (re.compile(v, flag) for v in values)\n'
        '        for pattern in values:\n'
        '            if pattern.search(self.normalized):\n'
        '                return True\n'
        '        return False\n'
        '    if self.is_keyword:\n'
        '        values = (v.upper() for v in values)\n'
        '    return self.normalized in values\n'
    ),
    'sql.TokenList.__getitem__': (
        'def __getitem__(self, item):\n'
        '    return self.tokens[item]\n'
    ),
    'sql.TokenList.__init__': (
        'def __init__(self, tokens=None):\n'
        '    self.tokens = tokens or []\n'
        "    [setattr(token, 'parent', self) for token in self.tokens]\n"
        '    super().__init__(None, str(self))\n'
        '    self.is_group = True\n'
    ),
    'sql.TokenList.__iter__': (
        'def __iter__(self):\n'
        '    return iter(self.tokens)\n'
    ),
    'sql.TokenList._groupable_tokens': (
        '@property\n'
        'def _groupable_tokens(self):\n'
        '    return self.tokens\n'
    ),
    'sql.TokenList._token_matching': (
        'def _token_matching(self, funcs, start=0, end=None, reverse=False):\n'
        '    if start is None:\n'
        '        return None\n'
        '    if not isinstance(funcs, (list, tuple)):\n'
        '        funcs = (funcs,)\n'
        '    if reverse:\n'
        '        assert end is None\n'
        '        indexes = range(start - 2, -1, -1)\n'
        '    else:\n'
        '        if end is None:\n'
        '            end = len(self.tokens)\n'
        '        indexes = range(start, end)\n'
        '    for idx in indexes:\n'
        '        token = self.tokens[idx]\n'
        '        for func in funcs:\n'
        '            if func(token):\n'
        '                return (idx, token)\n'
        '    return (None, None)\n'
    ),
    'sql.TokenList.get_sublists': (
        'def get_sublists(self):\n'
        '    for token in self.tokens:\n'
        '        if token.is_group:\n'
        '            yield token\n'
    ),
    'sql.TokenList.group_tokens': (
        'def group_tokens(self, grp_cls, start, end, include_end=True, extend=False):\n'
        '    start_idx = start\n'
        '    start = self.tokens[start_idx]\n'
        '    end_idx = end + include_end\n'
        '    if extend and isinstance(start, grp_cls):\n'
        '        subtokens = self.tokens[start_idx + 1:end_idx]\n'
        '        grp = start\n'
        '        grp.tokens.extend(subtokens)\n'
        '        del self.tokens[start_idx + 1:end_idx]\n'
        '        grp.value = str(start)\n'
        '    else:\n'
        '        subtokens = self.tokens[start_idx:end_idx]\n'
        '        grp = grp_cls(subtokens)\n'
        '        self.tokens[start_idx:end_idx] = [grp]\n'
        '        grp.parent = self\n'
        '    for token in subtokens:\n'
        '        token.parent = grp\n'
        '    return grp\n'
    ),
    'sql.TokenList.token_index': (
        'def token_index(self, token, start=0):\n'
        '    start = start if isinstance(start, int) else self.token_index(start)\n'
        '    return start + self.tokens[start:].index(token)\n'
    ),
    'sql.TokenList.token_next': (
        'def token_next(self, idx, skip_ws=True, skip_cm=False, _reverse=False):\n'
        '    if idx is None:\n'
        '        return (None, None)\n'
        '    idx += 1\n'
        '\n'
        '    def matcher(tk):\n'
        '        return not (skip_ws and tk.is_whitespace or (skip_cm and imt(tk, t=T.Comment, i=Comment)))\n'
        '    return self._token_matching(matcher, idx, reverse=_reverse)\n'
    ),
    'sql.TokenList.token_next_by': (
        'def token_next_by(self, i=None, m=None, t=None, idx=-1, end=None):\n'
        '    idx += 1\n'
        '    return self._token_matching(lambda tk: imt(tk, i, m, t), idx, end)\n'
    ),
    'sql.TokenList.token_not_matching': (
        'def token_not_matching(self, funcs, idx):\n'
        '    funcs = (funcs,) if not isinstance(funcs, (list, tuple)) else funcs\n'
        '    funcs = [lambda tk: not func(tk) for func in funcs]\n'
        '    return self._token_matching(funcs, idx)\n'
    ),
    'sql.TokenList.token_prev': (
        'def token_prev(self, idx, skip_ws=True, skip_cm=False):\n'
        '    return self.token_next(idx, skip_ws, skip_cm, _reverse=True)\n'
    ),
    'tokens._TokenType.__contains__': (
        'def __contains__(self, item):\n'
        '    return item is not None and (self is item or item[:len(self)] == self)\n'
    ),
    'tokens._TokenType.__getattr__': (
        'def __getattr__(self, name):\n'
        "    if name.startswith('__'):\n"
        '        return super().__getattr__(self, name)\n'
        '    new = _TokenType(self + (name,))\n'
        '    setattr(self, name, new)\n'
        '    new.parent = self\n'
        '    return new\n'
    ),
    'utils.imt': (
        'def imt(token, i=None, m=None, t=None):\n'
        '    if token is None:\n'
        '        return False\n'
        '    if i and isinstance(token, i):\n'
        '        return True\n'
        '    if m:\n'
        '        if isinstance(m, list):\n'
        '            if any((token.match(*pattern) for pattern in m)):\n'
        '                return True\n'
        '        elif token.match(*m):\n'
        '            return True\n'
        '    if t:\n'
        '        if isinstance(t, list):\n'
        '            if any((token.ttype in ttype for ttype in t)):\n'
        '                return True\n'
        '        elif token.ttype in t:\n'
        '            return True\n'
        '    return False\n'
    ),
    'utils.recurse': (
        'def recurse(*cls):\n'
        '\n'
        '    def wrap(f):\n'
        '\n'
        '        def wrapped_f(tlist):\n'
        '            for sgroup in tlist.get_sublists():\n'
        '                if not isinstance(sgroup, cls):\n'
        '                    wrapped_f(sgroup)\n'
        '            f(tlist)\n'
        '        return wrapped_f\n'
        '    return wrap\n'
    ),
}
