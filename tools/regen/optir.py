"""Fail-closed translation of the option-handling functions of sqlparse/formatter.py
(validate_options, build_filter_stack) into a small monadic intermediate form, with two back ends
generated from that SAME form:

  * `coq_M`    prints Gallina over the operations of coq/theories/Filters/OptDefs.v;
  * `Eval`     interprets it in Python over *abstract option values* (the `pval` of OptDefs.v), with
               an independent transcription of the OptDefs semantics (it never applies Python's own
               `==`, `int`, `bool` to the user's objects), so that gen_options.py can compare the
               translation with the real functions.

Recognised statements (anything else raises Unsupported naming file:line):
  x = <expr>                         options['k'] = <expr>
  if <cond>: ... [elif/else]         try: <one stmt> except (A, B): ...
  raise E('...{!r}...'.format(x))    return <var>           (last top-level statement only)
  stack.enable_grouping()            stack.{pre,stmt,post}process.append(filters.X(...) | var)
expressions: None/bool/int/str constants, local variables, options.get('k'[, d]), options['k'],
  int(e), e.lower(), filters.X(args)
conditions: e [not] in [consts], e is [not] None, e <,<=,>,>= int, e ==/!= e, not/and/or, truthiness.
"""
import ast
import inspect
import math
import string

from common import Unsupported, coq_text, coq_comment

COQ_RESERVED = {'as', 'at', 'cofix', 'else', 'end', 'exists', 'exists2', 'fix', 'for', 'forall', 'fun',
                'if', 'IF', 'in', 'let', 'match', 'mod', 'Prop', 'return', 'Set', 'then', 'Type', 'using',
                'where', 'with', 'SProp', 'tt', 'true', 'false', 'icfg', 'opts', 'pval', 'fstack', 'text'}

HCLS = {'ValueError': 'HValueError', 'TypeError': 'HTypeError', 'OverflowError': 'HOverflowError',
        'ArithmeticError': 'HArithmeticError', 'KeyError': 'HKeyError', 'LookupError': 'HLookupError',
        'IndexError': 'HIndexError', 'AttributeError': 'HAttributeError', 'Exception': 'HException'}

# exception classes a `raise` may name -> pyexn term
RAISABLE = {'SQLParseError': 'Exn SQLParseError', 'ValueError': 'Exn ValueError', 'TypeError': 'Exn TypeError',
            'IndexError': 'Exn IndexError', 'AttributeError': 'Exn AttributeError',
            'NotImplementedError': 'Exn NotImplementedError', 'KeyError': 'KeyError',
            'OverflowError': 'OverflowError'}

# sqlparse.filters class -> (constructor of OptDefs.filter_id, its parameters in order); parameters
# listed in IGNORED must keep a default and must not be passed.
CLASSES = {
    'KeywordCaseFilter': ('FKeywordCase', ['case']),
    'IdentifierCaseFilter': ('FIdentifierCase', ['case']),
    'TruncateStringFilter': ('FTruncateString', ['width', 'char']),
    'SpacesAroundOperatorsFilter': ('FSpacesAroundOperators', []),
    'StripCommentsFilter': ('FStripComments', []),
    'StripWhitespaceFilter': ('FStripWhitespace', []),
    'ReindentFilter': ('FReindent', ['width', 'char', 'wrap_after', 'comma_first', 'indent_after_first',
                                     'indent_columns', 'compact']),
    'AlignedIndentFilter': ('FAlignedIndent', ['char']),
    'RightMarginFilter': ('FRightMargin', ['width']),
    'OutputPHPFilter': ('FOutputPHP', ['varname']),
    'OutputPythonFilter': ('FOutputPython', ['varname']),
    'SerializerUnicode': ('FSerializerUnicode', []),
    'StripTrailingSemicolonFilter': ('FStripTrailingSemicolon', []),
}
IGNORED = {'n'}
STACK_LISTS = {'preprocess': 'pre', 'stmtprocess': 'stmt', 'postprocess': 'post'}


def class_params(cls):
    """Parameters of a filter class constructor (without self / IGNORED), with their defaults."""
    if '__init__' not in {k for c in cls.__mro__ if c is not object for k in vars(c)}:
        return [], {}
    sig = inspect.signature(cls.__init__)
    names, defaults = [], {}
    for i, (n, p) in enumerate(sig.parameters.items()):
        if i == 0:
            continue
        if p.kind is not inspect.Parameter.POSITIONAL_OR_KEYWORD:
            raise Unsupported(f'{cls.__name__}.__init__ has a parameter of kind {p.kind}')
        if n in IGNORED:
            if p.default is inspect.Parameter.empty:
                raise Unsupported(f'{cls.__name__}.__init__: ignored parameter `{n}` has no default')
            continue
        names.append(n)
        if p.default is not inspect.Parameter.empty:
            defaults[n] = p.default
    return names, defaults


class StrTab:
    """Coq names for the string constants of the source."""

    def __init__(self):
        self.names = {}
        self.order = []

    def name(self, s):
        if s not in self.names:
            if s.isidentifier() and s.isascii():
                n = 'k_' + s
            else:
                n = 's_%d' % len([x for x in self.names.values() if x.startswith('s_')])
            while n in self.names.values():
                n += "'"
            self.names[s] = n
            self.order.append(s)
        return self.names[s]

    def emit(self):
        return '\n'.join(f'Definition {self.names[s]} : text := {coq_text(s)}.  (* {coq_comment(repr(s))} *)'
                         for s in self.order)


def is_const(v):
    return v is None or isinstance(v, (bool, str)) or (isinstance(v, int))


class FunTr:
    """One function -> monadic term."""

    def __init__(self, fn, file, params, filters_mod, filters_alias='filters'):
        self.fn = fn
        self.file = file
        self.params = dict(params)              # name -> type  ('opts' | 'stack')
        self.filters_mod = filters_mod
        self.falias = filters_alias
        self.ntmp = 0
        self.vtypes = dict(params)
        self.keys = []                          # option keys read or written
        self.raises = []                        # side information
        names = {n.id for n in ast.walk(fn) if isinstance(n, ast.Name)}
        self.all_names = names
        for n in ast.walk(fn):                  # variables that hold a filter object (or None)
            if isinstance(n, ast.Assign) and len(n.targets) == 1 and isinstance(n.targets[0], ast.Name) \
                    and self.is_filter_call(n.value):
                self.vtypes[n.targets[0].id] = 'ofilter'

    # ---- helpers
    def fail(self, node, why):
        line = getattr(node, 'lineno', getattr(self.fn, 'lineno', '?'))
        src = ast.unparse(node) if isinstance(node, ast.AST) else str(node)
        raise Unsupported(f'{self.file}:{line}: {self.fn.name}: {why}: `{src[:100]}`',
                          {'file': self.file, 'line': line, 'end_line': getattr(node, 'end_lineno', line)})

    def tmp(self):
        while True:
            self.ntmp += 1
            n = 'tmp%d' % self.ntmp
            if n not in self.all_names:
                return n

    def vtype(self, name):
        return self.vtypes.get(name, 'pval')

    def is_filter_call(self, node):
        return isinstance(node, ast.Call) and isinstance(node.func, ast.Attribute) and \
            isinstance(node.func.value, ast.Name) and node.func.value.id == self.falias

    def key(self, node):
        if not (isinstance(node, ast.Constant) and isinstance(node.value, str)):
            self.fail(node, 'option key is not a string constant')
        if node.value not in self.keys:
            self.keys.append(node.value)
        return node.value

    def opts_var(self, node, env):
        if isinstance(node, ast.Name) and env.get(node.id) == 'opts':
            return ('var', node.id)
        self.fail(node, 'not the options dictionary')

    # ---- expressions: -> (prelude [(name, E)], P, type)
    def expr(self, node, env):
        if isinstance(node, ast.Constant):
            v = node.value
            if v is None or isinstance(v, (bool, int, str)):
                return [], ('const', v), 'pval'
            self.fail(node, 'constant of unsupported type')
        if isinstance(node, ast.UnaryOp) and isinstance(node.op, ast.USub) and \
                isinstance(node.operand, ast.Constant) and type(node.operand.value) is int:
            return [], ('const', -node.operand.value), 'pval'
        if isinstance(node, ast.Name):
            if node.id not in env:
                self.fail(node, 'name is not a parameter or a definitely assigned local')
            return [], ('var', node.id), env[node.id]
        if self.is_filter_call(node):
            pre, f = self.filter_call(node, env)
            return pre, ('some', f), 'ofilter'
        if isinstance(node, ast.Call):
            f = node.func
            if isinstance(f, ast.Name) and f.id == 'int' and len(node.args) == 1 and not node.keywords \
                    and 'int' not in env:
                pre, p, t = self.expr(node.args[0], env)
                if t != 'pval':
                    self.fail(node, 'int() of a non-value')
                x = self.tmp()
                return pre + [(x, ('int', p))], ('var', x), 'pval'
            if isinstance(f, ast.Attribute) and f.attr == 'get' and not node.keywords and \
                    1 <= len(node.args) <= 2 and isinstance(f.value, ast.Name) and env.get(f.value.id) == 'opts':
                o = self.opts_var(f.value, env)
                k = self.key(node.args[0])
                pre, d = [], ('const', None)
                if len(node.args) == 2:
                    pre, d, t = self.expr(node.args[1], env)
                    if t != 'pval':
                        self.fail(node, 'default of get() is not a value')
                return pre, ('get', o, k, d), 'pval'
            if isinstance(f, ast.Attribute) and f.attr == 'lower' and not node.args and not node.keywords:
                pre, p, t = self.expr(f.value, env)
                if t != 'pval':
                    self.fail(node, '.lower() of a non-value')
                x = self.tmp()
                return pre + [(x, ('lower', p))], ('var', x), 'pval'
            self.fail(node, 'unsupported call')
        if isinstance(node, ast.Subscript) and isinstance(node.ctx, ast.Load):
            o = self.opts_var(node.value, env)
            k = self.key(node.slice)
            x = self.tmp()
            return [(x, ('idx', o, k))], ('var', x), 'pval'
        self.fail(node, 'unsupported expression')

    def pure_value(self, node, env):
        pre, p, t = self.expr(node, env)
        if t != 'pval':
            self.fail(node, 'expected an option value')
        return pre, p

    def filter_call(self, node, env):
        cname = node.func.attr
        if cname not in CLASSES:
            self.fail(node, f'filter class {cname} unknown to OptDefs.filter_id')
        cls = getattr(self.filters_mod, cname, None)
        if not inspect.isclass(cls):
            self.fail(node, f'filters.{cname} is not a class')
        ctor, want = CLASSES[cname]
        names, defaults = class_params(cls)
        if names != want:
            self.fail(node, f'{cname}.__init__ has parameters {names}, OptDefs.{ctor} has {want}')
        got = {}
        pre = []
        if len(node.args) > len(names):
            self.fail(node, 'too many positional arguments')
        for a, n in zip(node.args, names):
            if isinstance(a, ast.Starred):
                self.fail(node, 'starred argument')
            p0, p = self.pure_value(a, env)
            pre += p0
            got[n] = p
        for kw in node.keywords:
            if kw.arg is None or kw.arg not in names or kw.arg in got:
                self.fail(node, f'keyword argument {kw.arg!r}')
            p0, p = self.pure_value(kw.value, env)
            pre += p0
            got[kw.arg] = p
        args = []
        for n in names:
            if n in got:
                args.append(got[n])
            elif n in defaults and is_const(defaults[n]) and not isinstance(defaults[n], float):
                args.append(('const', defaults[n]))
            else:
                self.fail(node, f'parameter `{n}` is not passed and has no constant default')
        return pre, ('filter', ctor, args)

    # ---- conditions: -> (prelude, C)
    def cond(self, node, env):
        if isinstance(node, ast.UnaryOp) and isinstance(node.op, ast.Not):
            pre, c = self.cond(node.operand, env)
            return pre, ('not', c)
        if isinstance(node, ast.BoolOp):
            op = 'and' if isinstance(node.op, ast.And) else 'or'
            parts = []
            pre = []
            for i, v in enumerate(node.values):
                p0, c = self.cond(v, env)
                if p0 and i > 0:
                    self.fail(node, 'short-circuit operand with an effect')
                pre += p0
                parts.append(c)
            c = parts[-1]
            for p in reversed(parts[:-1]):
                c = (op, p, c)
            return pre, c
        if isinstance(node, ast.Compare):
            if len(node.ops) != 1:
                self.fail(node, 'chained comparison')
            op, right = node.ops[0], node.comparators[0]
            if isinstance(op, (ast.In, ast.NotIn)):
                if not isinstance(right, (ast.List, ast.Tuple)):
                    self.fail(node, 'membership in something that is not a literal list/tuple')
                consts = []
                for e in right.elts:
                    if not (isinstance(e, ast.Constant) and (e.value is None or isinstance(e.value, (bool, int, str)))):
                        self.fail(node, 'list element is not a None/bool/int/str constant')
                    consts.append(e.value)
                pre, p = self.pure_value(node.left, env)
                c = ('in', p, consts)
                return pre, (c if isinstance(op, ast.In) else ('not', c))
            if isinstance(op, (ast.Is, ast.IsNot)):
                if not (isinstance(right, ast.Constant) and right.value is None):
                    self.fail(node, '`is` with something other than None')
                pre, p, t = self.expr(node.left, env)
                if t == 'pval':
                    c = ('isnone', p)
                elif t == 'ofilter':
                    c = ('isnonef', p)
                else:
                    self.fail(node, '`is None` on a ' + t)
                return pre, (c if isinstance(op, ast.Is) else ('not', c))
            if isinstance(op, (ast.Lt, ast.LtE, ast.Gt, ast.GtE)):
                pre, p = self.pure_value(node.left, env)
                p1, r, _ = self.expr(right, env)
                if p1 or r[0] != 'const' or type(r[1]) is not int:
                    self.fail(node, 'ordering comparison with something other than an int constant')
                x = self.tmp()
                name = {ast.Lt: 'lt', ast.LtE: 'le', ast.Gt: 'gt', ast.GtE: 'ge'}[type(op)]
                return pre + [(x, ('cmp', name, p, r[1]))], ('bvar', x)
            if isinstance(op, (ast.Eq, ast.NotEq)):
                pre, p = self.pure_value(node.left, env)
                p1, r = self.pure_value(right, env)
                if r[0] != 'const':
                    self.fail(node, '== with something other than a constant')
                c = ('eq', p, r)
                return pre + p1, (c if isinstance(op, ast.Eq) else ('not', c))
            self.fail(node, 'unsupported comparison')
        if isinstance(node, ast.Call) and isinstance(node.func, ast.Name) and node.func.id == 'isinstance' \
                and 'isinstance' not in env and len(node.args) == 2 and not node.keywords \
                and isinstance(node.args[1], ast.Name) and node.args[1].id == 'str' and 'str' not in env:
            pre, p = self.pure_value(node.args[0], env)
            return pre, ('isstr', p)
        pre, p, t = self.expr(node, env)
        if t != 'pval':
            self.fail(node, 'truth value of a ' + t)
        return pre, ('truthy', p)

    # ---- statements
    @staticmethod
    def wrap(pre, m):
        for x, e in reversed(pre):
            m = ('bindp', x, e, m)
        return m

    def assigned(self, stmts):
        out = []

        def add(v):
            if v not in out:
                out.append(v)
        for s in stmts:
            if isinstance(s, ast.Assign):
                for t in s.targets:
                    if isinstance(t, ast.Name):
                        add(t.id)
                    elif isinstance(t, ast.Subscript) and isinstance(t.value, ast.Name):
                        add(t.value.id)
                    else:
                        self.fail(s, 'unsupported assignment target')
            elif isinstance(s, ast.Expr) and isinstance(s.value, ast.Call):
                n = s.value.func
                while isinstance(n, ast.Attribute):
                    n = n.value
                if isinstance(n, ast.Name):
                    add(n.id)
            elif isinstance(s, ast.If):
                for v in self.assigned(s.body) + self.assigned(s.orelse):
                    add(v)
            elif isinstance(s, ast.Try):
                for v in self.assigned(s.body):
                    add(v)
                for h in s.handlers:
                    for v in self.assigned(h.body):
                        add(v)
        return out

    @staticmethod
    def uses(stmts):
        return {n.id for s in stmts for n in ast.walk(s) if isinstance(n, ast.Name) and isinstance(n.ctx, ast.Load)}

    def raise_(self, s, env):
        e = s.exc
        if s.cause is not None or e is None:
            self.fail(s, 'bare raise / raise from')
        if not (isinstance(e, ast.Call) and isinstance(e.func, ast.Name) and e.func.id in RAISABLE
                and not e.keywords and len(e.args) <= 1):
            self.fail(s, 'raise of something other than a known exception class applied to a message')
        args = []
        if e.args:
            m = e.args[0]
            if isinstance(m, ast.Constant) and isinstance(m.value, str):
                pass
            elif isinstance(m, ast.Call) and isinstance(m.func, ast.Attribute) and m.func.attr == 'format' \
                    and isinstance(m.func.value, ast.Constant) and isinstance(m.func.value.value, str) \
                    and not m.keywords:
                vals = []
                for a in m.args:
                    pre, p = self.pure_value(a, env)
                    if pre:
                        self.fail(s, 'format() argument with an effect')
                    vals.append(p)
                auto = 0
                try:
                    fields = list(string.Formatter().parse(m.func.value.value))
                except ValueError:
                    self.fail(s, 'malformed format string')
                for _lit, field, spec, conv in fields:
                    if field is None:
                        continue
                    if spec or conv not in (None, 'r', 's', 'a'):
                        self.fail(s, 'format field with a format spec / unknown conversion')
                    if field == '':
                        idx = auto
                        auto += 1
                    elif field.isdigit():
                        idx = int(field)
                    else:
                        self.fail(s, 'format field that is not positional')
                    if idx >= len(vals):
                        self.fail(s, 'format field without argument')
                    args.append(vals[idx])
            else:
                self.fail(s, 'exception message is neither a str constant nor `<str>.format(vars)`')
        self.raises.append({'line': s.lineno, 'class': e.func.id, 'formats': [a[1] for a in args if a[0] == 'var']})
        return ('raise', e.func.id, args)

    def block(self, stmts, outs, env, top):
        if not stmts:
            if top:
                self.fail(self.fn, 'control reaches the end of the function without return')
            for v in outs:
                if v not in env:
                    self.fail(self.fn, f'local `{v}` may be unbound at the end of a block')
            return ('ret', list(outs))
        s, rest = stmts[0], stmts[1:]
        if isinstance(s, ast.Expr) and isinstance(s.value, ast.Constant) and isinstance(s.value.value, str):
            return self.block(rest, outs, env, top)
        if isinstance(s, ast.Pass):
            return self.block(rest, outs, env, top)
        if isinstance(s, ast.Return):
            if not top or rest:
                self.fail(s, 'return that is not the last top-level statement')
            if not (isinstance(s.value, ast.Name) and s.value.id in env):
                self.fail(s, 'return of something other than a variable')
            self.ret_type = env[s.value.id]
            return ('ret', [s.value.id])
        if isinstance(s, ast.Raise):
            if rest:
                self.fail(rest[0], 'unreachable statement after raise')
            return self.raise_(s, env)
        if isinstance(s, ast.Assign):
            if len(s.targets) != 1:
                self.fail(s, 'multiple assignment')
            t = s.targets[0]
            if isinstance(t, ast.Name):
                x = t.id
                if x in self.params:
                    self.fail(s, 'assignment to a parameter')
                if self.vtype(x) == 'ofilter' and isinstance(s.value, ast.Constant) and s.value.value is None:
                    pre, p, ty = [], ('nonef',), 'ofilter'
                else:
                    pre, p, ty = self.expr(s.value, env)
                if ty != self.vtype(x):
                    self.fail(s, f'`{x}` is used as {self.vtype(x)} but assigned a {ty}')
                env2 = dict(env)
                env2[x] = ty
                k = self.block(rest, outs, env2, top)
                if pre and p == ('var', pre[-1][0]):      # x = int(y): bind x directly
                    return self.wrap(pre[:-1], ('bindp', x, pre[-1][1], k))
                return self.wrap(pre, ('let', x, p, k))
            if isinstance(t, ast.Subscript):
                o = self.opts_var(t.value, env)
                key = self.key(t.slice)
                pre, p = self.pure_value(s.value, env)
                return self.wrap(pre, ('let', o[1], ('oset', o, key, p), self.block(rest, outs, env, top)))
            self.fail(s, 'unsupported assignment target')
        if isinstance(s, ast.Expr) and isinstance(s.value, ast.Call):
            c = s.value
            f = c.func
            if isinstance(f, ast.Attribute) and isinstance(f.value, ast.Name) and env.get(f.value.id) == 'stack' \
                    and f.attr == 'enable_grouping' and not c.args and not c.keywords:
                st = f.value.id
                return ('let', st, ('st', 'enable_grouping', ('var', st)), self.block(rest, outs, env, top))
            if isinstance(f, ast.Attribute) and f.attr == 'append' and isinstance(f.value, ast.Attribute) and \
                    isinstance(f.value.value, ast.Name) and env.get(f.value.value.id) == 'stack' and \
                    f.value.attr in STACK_LISTS and len(c.args) == 1 and not c.keywords:
                st = f.value.value.id
                which = STACK_LISTS[f.value.attr]
                pre, p, ty = self.expr(c.args[0], env)
                if ty != 'ofilter':
                    self.fail(s, 'appending something that is not a filter')
                k = self.block(rest, outs, env, top)
                if p[0] == 'some':
                    return self.wrap(pre, ('let', st, ('st', 'add_' + which, ('var', st), p[1]), k))
                return self.wrap(pre, ('bindp', st, ('addopt', which, ('var', st), p), k))
            self.fail(s, 'unsupported call statement')
        if isinstance(s, ast.If):
            pre, c = self.cond(s.test, env)
            need = self.uses(rest) | set(outs)
            o2 = [v for v in self.assigned(list(s.body) + list(s.orelse)) if v in need]
            m1 = self.block(list(s.body), o2, env, False)
            m2 = self.block(list(s.orelse), o2, env, False)
            env2 = dict(env)
            for v in o2:
                env2[v] = self.vtype(v)
            return self.wrap(pre, ('bind', o2, ('if', c, m1, m2), self.block(rest, outs, env2, top)))
        if isinstance(s, ast.Try):
            if len(s.handlers) != 1 or s.orelse or s.finalbody or s.handlers[0].name is not None:
                self.fail(s, 'try statement that is not `try: ... except (classes): ...`')
            if len(s.body) != 1:
                self.fail(s, 'try body with more than one statement')
            h = s.handlers[0]
            ts = h.type.elts if isinstance(h.type, ast.Tuple) else [h.type]
            hs = []
            for t in ts:
                if not (isinstance(t, ast.Name) and t.id in HCLS):
                    self.fail(s, 'handler class unknown to OptDefs.hcls')
                hs.append(t.id)
            need = self.uses(rest) | set(outs)
            o2 = [v for v in self.assigned(list(s.body) + list(h.body)) if v in need]
            m1 = self.block(list(s.body), o2, env, False)
            m2 = self.block(list(h.body), o2, env, False)
            env2 = dict(env)
            for v in o2:
                env2[v] = self.vtype(v)
            return ('bind', o2, ('try', m1, hs, m2), self.block(rest, outs, env2, top))
        self.fail(s, 'unsupported statement')

    def translate(self):
        a = self.fn.args
        if a.vararg or a.kwarg or a.kwonlyargs or a.defaults or a.posonlyargs or \
                [x.arg for x in a.args] != list(self.params):
            self.fail(self.fn, f'parameters are not {list(self.params)}')
        if self.fn.decorator_list:
            self.fail(self.fn, 'decorated function')
        self.ret_type = None
        return self.block(list(self.fn.body), [], dict(self.params), True)


# ---------------------------------------------------------------------------------------------
# Coq back end
def cn(x):
    return x + '_' if x in COQ_RESERVED else x


class CoqOut:
    def __init__(self, strtab):
        self.st = strtab

    def const(self, v):
        if v is None:
            return 'PNone'
        if v is True:
            return 'PBool true'
        if v is False:
            return 'PBool false'
        if isinstance(v, int):
            return f'PInt ({v})'
        if isinstance(v, str):
            return f'PStr {self.st.name(v)}'
        raise Unsupported(f'constant {v!r}')

    def P(self, p):
        k = p[0]
        if k == 'const':
            return '(' + self.const(p[1]) + ')'
        if k == 'var':
            return cn(p[1])
        if k == 'get':
            return f'(oget {self.P(p[1])} {self.st.name(p[2])} {self.P(p[3])})'
        if k == 'oset':
            return f'(oset {self.P(p[1])} {self.st.name(p[2])} {self.P(p[3])})'
        if k == 'filter':
            return '(' + ' '.join([p[1]] + [self.P(a) for a in p[2]]) + ')' if p[2] else p[1]
        if k == 'some':
            return f'(Some {self.P(p[1])})'
        if k == 'nonef':
            return '(@None filter_id)'
        if k == 'st':
            return '(' + ' '.join(['st_' + p[1]] + [self.P(a) for a in p[2:]]) + ')'
        raise Unsupported(f'IR term {p!r}')

    def C(self, c):
        k = c[0]
        if k == 'truthy':
            return f'(py_truthy {self.P(c[1])})'
        if k == 'in':
            return f'(py_in {self.P(c[1])} [' + '; '.join(self.const(v) for v in c[2]) + '])'
        if k == 'isnone':
            return f'(is_none {self.P(c[1])})'
        if k == 'isstr':
            return f'(is_str {self.P(c[1])})'
        if k == 'isnonef':
            return f'(is_nonef {self.P(c[1])})'
        if k == 'eq':
            return f'(py_eq {self.P(c[1])} {self.P(c[2])})'
        if k == 'not':
            return f'(negb {self.C(c[1])})'
        if k in ('and', 'or'):
            return f'({k}b {self.C(c[1])} {self.C(c[2])})'
        if k == 'bvar':
            return cn(c[1])
        raise Unsupported(f'IR condition {c!r}')

    def E(self, e):
        k = e[0]
        if k == 'int':
            return f'py_int icfg {self.P(e[1])}'
        if k == 'idx':
            return f'oidx {self.P(e[1])} {self.st.name(e[2])}'
        if k == 'lower':
            return f'py_lower full_lower_tab {self.P(e[1])}'
        if k == 'cmp':
            return f'py_{e[1]} {self.P(e[2])} ({e[3]})'
        if k == 'addopt':
            return f'st_add_opt st_add_{e[1]} {self.P(e[2])} {self.P(e[3])}'
        raise Unsupported(f'IR effect {e!r}')

    @staticmethod
    def tup(names):
        if not names:
            return 'tt'
        if len(names) == 1:
            return cn(names[0])
        return '(' + ', '.join(cn(n) for n in names) + ')'

    def M(self, m, ind):
        sp = ' ' * ind
        k = m[0]
        if k == 'ret':
            return f'{sp}OOk {self.tup(m[1])}'
        if k == 'let':
            return f'{sp}let {cn(m[1])} := {self.P(m[2])} in\n' + self.M(m[3], ind)
        if k == 'bindp':
            return f'{sp}{cn(m[1])} <~ {self.E(m[2])} ;;\n' + self.M(m[3], ind)
        if k == 'bind':
            names = m[1]
            pat = '_' if not names else (cn(names[0]) if len(names) == 1 else "'" + self.tup(names))
            return f'{sp}{pat} <~ (\n' + self.M(m[2], ind + 2) + f') ;;\n' + self.M(m[3], ind)
        if k == 'if':
            return (f'{sp}if {self.C(m[1])} then (\n' + self.M(m[2], ind + 2) + f')\n{sp}else (\n' +
                    self.M(m[3], ind + 2) + ')')
        if k == 'try':
            hs = '[' + '; '.join(HCLS[h] for h in m[2]) + ']'
            return (f'{sp}otry (\n' + self.M(m[1], ind + 2) + f')\n{sp}  {hs} (\n' + self.M(m[3], ind + 2) + ')')
        if k == 'raise':
            args = '[' + '; '.join(self.P(a) for a in m[2]) + ']'
            if m[1] == 'SQLParseError':
                return f'{sp}raise_sql icfg {args}'
            return f'{sp}raise_py icfg ({RAISABLE[m[1]]}) {args}'
        raise Unsupported(f'IR term {m!r}')


# ---------------------------------------------------------------------------------------------
# abstract option values (the pval of OptDefs.v) in Python, and their conversion to/from real objects
class Huge:
    """marker for a falsy/truthy `other` object"""


def of_py(x):
    if x is None:
        return ('N',)
    if x is True or x is False:
        return ('B', x)
    if type(x) is int:
        return ('I', x)
    if type(x) is float:
        if math.isnan(x):
            return ('Nan',)
        if math.isinf(x):
            return ('Inf', x < 0)
        if x.is_integer():
            return ('FI', int(x))
        return ('FF', math.floor(x))
    if type(x) is str:
        return ('S', x)
    if type(x) in (list, tuple, dict, set, frozenset, object):
        return ('O', bool(x))
    raise ValueError(f'value outside the pval type: {x!r}')


def to_py(v):
    k = v[0]
    if k == 'N':
        return None
    if k in ('B', 'I', 'S'):
        return v[1]
    if k == 'FI':
        return float(v[1])
    if k == 'FF':
        return v[1] + 0.5
    if k == 'Inf':
        return float('-inf') if v[1] else float('inf')
    if k == 'Nan':
        return float('nan')
    if k == 'O':
        return object() if v[1] else []
    raise ValueError(v)


class PyErr(Exception):
    def __init__(self, cls):
        super().__init__(cls)
        self.cls = cls


class Sem:
    """Transcription of the OptDefs.v semantics over the tagged tuples above."""

    def __init__(self, space, digit, maxdig, full_lower):
        self.space = space          # set of code points
        self.digit = digit          # code point -> 0..9
        self.maxdig = maxdig
        self.full_lower = full_lower  # code point -> [code points]

    @staticmethod
    def num_of(v):
        if v[0] == 'B':
            return 1 if v[1] else 0
        if v[0] in ('I', 'FI'):
            return v[1]
        return None

    def eq(self, a, b):
        if a[0] == 'N' and b[0] == 'N':
            return True
        if a[0] == 'S' and b[0] == 'S':
            return [ord(c) for c in a[1]] == [ord(c) for c in b[1]]
        x, y = self.num_of(a), self.num_of(b)
        return x is not None and y is not None and x == y

    def isin(self, a, consts):
        return any(self.eq(a, of_py(c)) for c in consts)

    @staticmethod
    def truthy(v):
        k = v[0]
        if k == 'N':
            return False
        if k == 'B':
            return v[1]
        if k in ('I', 'FI'):
            return v[1] != 0
        if k in ('FF', 'Inf', 'Nan'):
            return True
        if k == 'S':
            return len(v[1]) > 0
        return v[1]

    def cmp(self, op, v, c):
        k = v[0]
        if k in ('N', 'S', 'O'):
            raise PyErr('TypeError')
        if k == 'Nan':
            return False
        if op in ('ge', 'gt'):
            return not self.cmp('lt' if op == 'ge' else 'le', v, c)
        if k in ('B', 'I', 'FI'):
            z = self.num_of(v)
            return z <= c if op == 'le' else z < c
        if k == 'FF':
            return v[1] < c
        return v[1]       # Inf: neg

    def int_of_str(self, s):
        cps = [ord(c) for c in s]
        i = 0
        while i < len(cps) and cps[i] in self.space:
            i += 1
        neg = False
        if i < len(cps) and cps[i] in (43, 45):
            neg = cps[i] == 45
            i += 1
        acc, n, prev = 0, 0, 'start'
        while i < len(cps):
            c = cps[i]
            if c in self.digit:
                acc, n, prev = 10 * acc + self.digit[c], n + 1, 'digit'
            elif c == 95:
                if prev != 'digit':
                    return None
                prev = 'us'
            else:
                break
            i += 1
        if prev != 'digit':
            return None
        if not all(c in self.space for c in cps[i:]):
            return None
        if self.maxdig > 0 and n > self.maxdig:
            return None
        return -acc if neg else acc

    def int(self, v):
        k = v[0]
        if k in ('N', 'O'):
            raise PyErr('TypeError')
        if k == 'B':
            return ('I', 1 if v[1] else 0)
        if k in ('I', 'FI'):
            return ('I', v[1])
        if k == 'FF':
            return ('I', v[1] + 1 if v[1] < 0 else v[1])
        if k == 'Inf':
            raise PyErr('OverflowError')
        if k == 'Nan':
            raise PyErr('ValueError')
        z = self.int_of_str(v[1])
        if z is None:
            raise PyErr('ValueError')
        return ('I', z)

    def huge(self, z):
        return self.maxdig > 0 and abs(z) >= 10 ** self.maxdig

    def repr_raises(self, v):
        return v[0] == 'I' and self.huge(v[1])

    def lower(self, v):
        if v[0] != 'S':
            raise PyErr('AttributeError')
        if any(ord(c) == 931 for c in v[1]):
            raise PyErr('Stuck')
        out = []
        for c in v[1]:
            out += self.full_lower.get(ord(c), [ord(c)])
        return ('S', ''.join(map(chr, out)))


def ofind(o, k):
    for k2, v in o:
        if k2 == k:
            return v
    return None


def oset(o, k, v):
    out = []
    done = False
    for k2, v2 in o:
        if k2 == k and not done:
            out.append((k, v))
            done = True
        else:
            out.append((k2, v2))
    if not done:
        out.append((k, v))
    return out


EMPTY_STACK = {'pre': [], 'grouping': False, 'stmt': [], 'post': []}


class Eval:
    def __init__(self, sem):
        self.s = sem

    def P(self, p, env):
        k = p[0]
        if k == 'const':
            return of_py(p[1])
        if k == 'var':
            return env[p[1]]
        if k == 'get':
            v = ofind(self.P(p[1], env), p[2])
            return self.P(p[3], env) if v is None else v
        if k == 'oset':
            return oset(self.P(p[1], env), p[2], self.P(p[3], env))
        if k == 'filter':
            return (p[1], [self.P(a, env) for a in p[2]])
        if k == 'some':
            return self.P(p[1], env)
        if k == 'nonef':
            return None
        if k == 'st':
            st = dict(self.P(p[2], env))
            if p[1] == 'enable_grouping':
                st['grouping'] = True
            else:
                which = p[1][4:]
                st[which] = st[which] + [self.P(p[3], env)]
            return st
        raise Unsupported(f'IR term {p!r}')

    def C(self, c, env):
        k = c[0]
        if k == 'truthy':
            return self.s.truthy(self.P(c[1], env))
        if k == 'in':
            return self.s.isin(self.P(c[1], env), c[2])
        if k == 'isnone':
            return self.P(c[1], env)[0] == 'N'
        if k == 'isstr':
            return self.P(c[1], env)[0] == 'S'
        if k == 'isnonef':
            return self.P(c[1], env) is None
        if k == 'eq':
            return self.s.eq(self.P(c[1], env), self.P(c[2], env))
        if k == 'not':
            return not self.C(c[1], env)
        if k == 'and':
            return self.C(c[1], env) and self.C(c[2], env)
        if k == 'or':
            return self.C(c[1], env) or self.C(c[2], env)
        if k == 'bvar':
            return env[c[1]]
        raise Unsupported(f'IR condition {c!r}')

    def E(self, e, env):
        k = e[0]
        if k == 'int':
            return self.s.int(self.P(e[1], env))
        if k == 'idx':
            v = ofind(self.P(e[1], env), e[2])
            if v is None:
                raise PyErr('KeyError')
            return v
        if k == 'lower':
            return self.s.lower(self.P(e[1], env))
        if k == 'cmp':
            return self.s.cmp(e[1], self.P(e[2], env), e[3])
        if k == 'addopt':
            f = self.P(e[3], env)
            if f is None:
                raise PyErr('Stuck')
            st = dict(self.P(e[2], env))
            st[e[1]] = st[e[1]] + [f]
            return st
        raise Unsupported(f'IR effect {e!r}')

    def M(self, m, env):
        """-> list of values (for the names of the final ret) or raises PyErr"""
        while True:
            k = m[0]
            if k == 'ret':
                return [env[n] for n in m[1]]
            if k == 'let':
                env = dict(env)
                env[m[1]] = self.P(m[2], env)
                m = m[3]
            elif k == 'bindp':
                v = self.E(m[2], env)
                env = dict(env)
                env[m[1]] = v
                m = m[3]
            elif k == 'bind':
                vals = self.M(m[2], env)
                env = dict(env)
                for n, v in zip(m[1], vals):
                    env[n] = v
                m = m[3]
            elif k == 'if':
                m = m[2] if self.C(m[1], env) else m[3]
            elif k == 'try':
                try:
                    return self.M(m[1], env)
                except PyErr as e:
                    if not any(catches(h, e.cls) for h in m[2]):
                        raise
                    m = m[3]
            elif k == 'raise':
                if any(self.s.repr_raises(self.P(a, env)) for a in m[2]):
                    raise PyErr('ValueError')
                raise PyErr(m[1])
            else:
                raise Unsupported(f'IR term {m!r}')


def catches(h, cls):
    """OptDefs.isa"""
    table = {
        'Exception': None,
        'ValueError': {'ValueError', 'UnicodeDecodeError'},
        'TypeError': {'TypeError'},
        'OverflowError': {'OverflowError'},
        'ArithmeticError': {'OverflowError'},
        'KeyError': {'KeyError'},
        'LookupError': {'KeyError', 'IndexError', 'LookupError'},
        'IndexError': {'IndexError'},
        'AttributeError': {'AttributeError'},
    }
    t = table[h]
    return True if t is None else cls in t
