"""Dynamic half of tools/regen/gen_state.py; runs in a FRESH interpreter (PYTHONPATH = the repo under test).
stdin: JSON spec {pkg, modules, chains, bindings, gens_dir};  stdout (last line): JSON report."""
import contextlib
import hashlib
import importlib
import inspect
import io
import json
import os
import random
import re
import sys
import tempfile
import types

spec = json.load(sys.stdin)
PKG = spec['pkg']
mods = {}
for name in spec['modules']:
    if name.endswith('.__main__'):
        continue                      # importing it would run the command line
    mods[name] = importlib.import_module(name)
tokens = sys.modules[PKG + '.tokens']
TT = tokens._TokenType
MISSING = object()


def static_get(obj, a):
    if isinstance(obj, types.ModuleType):
        return vars(obj).get(a, MISSING)
    return inspect.getattr_static(obj, a, MISSING)


# ---- 1. attribute chains: do they exist right after import (no __getattr__)?
chains = []
for m, root, attrs in spec['chains']:
    mod = mods.get(m)
    obj = vars(mod).get(root, MISSING) if mod else MISSING
    ok = obj is not MISSING
    for a in attrs:
        if not ok:
            break
        obj = static_get(obj, a)
        ok = obj is not MISSING
    # ok = every element of the chain exists after import without calling _TokenType.__getattr__
    # (the last element may be a token type, or e.g. the class tokens._TokenType itself)
    path = repr(obj) if ok and isinstance(obj, TT) else ('<%s>' % type(obj).__name__ if ok else '<missing>')
    chains.append({'ok': ok, 'path': path})


# ---- 2. snapshots
def token_tree():
    seen = {}
    todo = [tokens.Token]
    for mod in mods.values():
        todo.extend(v for v in vars(mod).values() if isinstance(v, TT))
    while todo:
        t = todo.pop()
        if id(t) in seen:
            continue
        seen[id(t)] = repr(t)
        for v in vars(t).values():
            if isinstance(v, TT):
                todo.append(v)
    return seen


def attr_sets():
    out = {}
    for name, mod in mods.items():
        out[name] = sorted(vars(mod))
        for cn, c in vars(mod).items():
            if isinstance(c, type) and c.__module__ == name:
                out[name + '.' + cn] = sorted(vars(c))
                for fn, f in vars(c).items():
                    f = getattr(f, '__func__', f)
                    if isinstance(f, types.FunctionType):
                        out[name + '.' + cn + '.' + fn + '()'] = sorted(vars(f))
            elif isinstance(c, types.FunctionType) and c.__module__ == name:
                out[name + '.' + cn + '()'] = sorted(vars(c))
    return out


def fp(o, depth=0):
    if depth > 8:
        return '...'
    if isinstance(o, TT):
        return 'TT:%s@%d' % (repr(o), id(o))
    if isinstance(o, (str, bytes, int, float, bool, type(None))):
        return repr(o)
    if isinstance(o, tuple):
        return '(' + ','.join(fp(x, depth + 1) for x in o) + ')'
    if isinstance(o, list):
        return '[' + ','.join(fp(x, depth + 1) for x in o) + ']'
    if isinstance(o, (set, frozenset)):
        return '{' + ','.join(sorted(fp(x, depth + 1) for x in o)) + '}'
    if isinstance(o, dict):
        return '{' + ','.join(fp(k, depth + 1) + ':' + fp(v, depth + 1) for k, v in o.items()) + '}'
    if isinstance(o, re.Pattern):
        return 're(%r,%d)' % (o.pattern, o.flags)
    if isinstance(o, types.BuiltinMethodType) and getattr(o, '__self__', None) is not None \
            and not isinstance(o.__self__, types.ModuleType):
        return 'bm:%s(%s)' % (o.__name__, fp(o.__self__, depth + 1))
    if isinstance(o, (types.FunctionType, type, types.ModuleType)):
        return '%s:%s' % (type(o).__name__, getattr(o, '__qualname__', getattr(o, '__name__', '?')))
    return '<%s@%d>' % (type(o).__name__, id(o))


def defaults():
    out = {}
    for name, mod in mods.items():
        def add(q, f):
            f = getattr(f, '__func__', f)
            if isinstance(f, types.FunctionType):
                out[q] = fp((f.__defaults__, f.__kwdefaults__))
        for cn, c in vars(mod).items():
            if isinstance(c, type) and c.__module__ == name:
                for fn, f in vars(c).items():
                    add(name + '.' + cn + '.' + fn, f)
            elif isinstance(c, types.FunctionType) and c.__module__ == name:
                add(name + '.' + cn, c)
    return out


def resolve(name):
    if '#' in name:
        cname, fld = name.split('#', 1)
        c = resolve(cname)
        inst = vars(c).get('_default_instance') if isinstance(c, type) else None
        if inst is None:
            return MISSING
        return inspect.getattr_static(inst, fld, MISSING)
    parts = name.split('.')
    for k in range(len(parts), 0, -1):
        mn = '.'.join(parts[:k])
        if mn in mods:
            obj = mods[mn]
            for a in parts[k:]:
                obj = static_get(obj, a)
                if obj is MISSING:
                    return MISSING
            return obj
    return MISSING


def fingerprints():
    out = {}
    for n in spec['bindings']:
        o = resolve(n)
        out[n] = '<missing>' if o is MISSING else hashlib.sha256(fp(o).encode('utf-8', 'replace')).hexdigest()
    return out


tree0 = token_tree()
attrs0 = attr_sets()
defaults0 = defaults()

import sqlparse  # noqa: E402
from sqlparse import lexer  # noqa: E402

sqlparse.parse('select 1')                 # the default lexer exists from here on
fp0 = fingerprints()

# ---- 3. workload
TEXTS = [
    'select * from foo;', 'select a, b as c from t1 join t2 on t1.x = t2.y where a > 1 and b in (1,2,3) order by a desc;',
    "insert into t (a, b) values (1, 'x'), (2, 'y');", 'update t set a = 1, b = b + 1 where c is null;',
    'create table foo (id integer primary key, name varchar(10) not null default \'\');',
    'create or replace function f() returns int as $$ begin return 1; end; $$ language plpgsql;',
    'begin; declare x int; if x then select 1; end if; end;', 'with c as (select 1) select * from c union all select 2',
    "select case when a = 1 then 'x' else 'y' end, cast(a as int), a::text, b[1], `q`, \"Q\", [w] from t -- c\n/* m */",
    'select /*+ hint */ 1e3, 0xFF, .5, 1.5E-3, $1, ?, %s, :n, @v, @@g, #t from dual', 'select * from t limit 10 offset 5;',
    'for x in select 1 loop null; end loop;', 'select a from t group by a having count(*) > 1 window w as (partition by a)',
    'select count(*) over (partition by a order by b) from t;', "select 'a''b', E'\\n', U&'x', N'x', date '2020-01-01'",
    'merge into t using s on (t.a = s.a) when matched then update set b = 1;', 'grant select on t to u; revoke all on t from u;',
    'alter table t add column c int; drop table if exists t cascade;', 'select a from t where a like \'%x\' or a between 1 and 2',
    'select a<=b, a<>b, a!=b, a||b, a->b, a->>b, a#>b, ~a, a<=>b, a:=1 from t', 'explain analyze select 1;\n\nselect 2;\r\nselect 3',
    'SELECT a FROM t1 LEFT OUTER JOIN t2 USING (x) CROSS JOIN t3 NATURAL JOIN t4 STRAIGHT_JOIN t5', '', ' ', ';', ';;', '((', ')',
    'select * from (select * from (select 1) a) b where x in (select y from z)', "select 'unterminated", '/* open', '"open',
    'create table t as select * from u; comment on table t is \'x\';', 'select éè, 中文, \U0001f600 from t x',
    'DECLARE c CURSOR FOR SELECT 1; OPEN c; FETCH c; CLOSE c;', 'select interval \'1 day\', timestamp \'x\', a at time zone \'utc\'',
    'select a. b, c .d, e.*, f.g.h from t as x(y, z)', 'create index i on t (a asc, b desc nulls last);', 'values (1), (2)',
    'select * from t tablesample system (10); set x = 1; show tables; use db; call p(1);', 'a' * 50 + ' (' * 30 + ')' * 30,
]
try:
    sys.path.insert(0, spec['gens_dir'])
    import gens
    rng = random.Random(20)
    for _ in range(120):
        TEXTS.append(gens.mixed_text(rng)[0][:600])
except Exception as e:   # noqa
    GENS_NOTE = 'gens unavailable: %r' % (e,)
else:
    GENS_NOTE = 'gens ok'

OPTS = [
    {}, {'reindent': True}, {'reindent': True, 'indent_width': 4, 'indent_tabs': True, 'wrap_after': 20, 'comma_first': True},
    {'reindent_aligned': True}, {'keyword_case': 'upper', 'identifier_case': 'lower'}, {'keyword_case': 'capitalize'},
    {'strip_comments': True, 'strip_whitespace': True}, {'use_space_around_operators': True, 'reindent': True},
    {'truncate_strings': 3, 'truncate_char': '~'}, {'output_format': 'python'}, {'output_format': 'php', 'reindent': True},
    {'right_margin': 20}, {'indent_after_first': True, 'reindent': True, 'indent_columns': True}, {'compact': True, 'reindent': True},
    {'strip_comments': True, 'reindent': True, 'keyword_case': 'lower', 'identifier_case': 'upper', 'wrap_after': 1},
]
BAD_OPTS = [{'keyword_case': 'x'}, {'identifier_case': 1}, {'output_format': 3}, {'indent_width': 'a'}, {'indent_width': -1},
            {'truncate_strings': 'x'}, {'truncate_strings': 0}, {'wrap_after': 'x'}, {'right_margin': 'x'}, {'right_margin': 2},
            {'reindent': 2}, {'strip_comments': 2}, {'comma_first': 2}, {'indent_tabs': 2}, {'reindent_aligned': 2},
            {'use_space_around_operators': 2}, {'strip_whitespace': 2}, {'indent_after_first': 2}, {'indent_columns': 2},
            {'compact': 2}]
errors = {}


def attempt(f):
    try:
        return f()
    except BaseException as e:   # noqa
        errors[type(e).__name__] = errors.get(type(e).__name__, 0) + 1
        return None


sink = io.StringIO()
with contextlib.redirect_stdout(sink), contextlib.redirect_stderr(sink):
    for i, t in enumerate(TEXTS):
        attempt(lambda: sqlparse.parse(t))
        attempt(lambda: [repr(s) for s in sqlparse.parse(t)])
        attempt(lambda: [s.get_type() for s in sqlparse.parse(t)])
        attempt(lambda: [(x.get_name(), x.get_real_name(), x.get_alias(), x.get_parent_name())
                         for s in sqlparse.parse(t) for x in s.flatten() if False] or
                [[getattr(g, 'get_name', lambda: None)() for g in s.get_sublists()] for s in sqlparse.parse(t)])
        attempt(lambda: sqlparse.split(t))
        attempt(lambda: sqlparse.split(t, strip_semicolon=True))
        attempt(lambda: sqlparse.parse(t.encode('utf-8')))
        attempt(lambda: sqlparse.parse(t.encode('utf-8', 'replace'), encoding='latin-1'))
        for o in (OPTS if i < 45 else OPTS[i % len(OPTS):][:2]):
            attempt(lambda: sqlparse.format(t, **o))
        g = attempt(lambda: sqlparse.parsestream(t))
        if g is not None:
            attempt(lambda: next(g))
            del g
    for o in BAD_OPTS:
        attempt(lambda: sqlparse.format('select 1', **o))
    attempt(lambda: sqlparse.parse(12))
    attempt(lambda: sqlparse.parse(None))
    attempt(lambda: sqlparse.parse(io.StringIO('select 1; select 2')))
    # deep nesting: recursion limit
    attempt(lambda: sqlparse.parse('(' * 400 + ')' * 400))
    attempt(lambda: sqlparse.format('select ' + '(' * 300 + '1' + ')' * 300, reindent=True))   # SQLParseError (recursion)
    # the command line front end
    d = tempfile.mkdtemp()
    inp = os.path.join(d, 'in.sql')
    with open(inp, 'w') as f:
        f.write('select a, b from t where x = 1; insert into t values (1);')
    cli = sys.modules.get(PKG + '.cli')
    if cli is not None:
        for extra in ([], ['-r'], ['-k', 'upper', '-a'], ['-l', 'python'], ['--indent_width', '-3'], ['--nonexistent']):
            attempt(lambda: cli.main([inp, '-o', os.path.join(d, 'out.sql')] + extra))
        attempt(lambda: cli.main([os.path.join(d, 'missing.sql')]))
    # lexer reconfiguration, ending with default_initialization()
    lx = lexer.Lexer.get_default_instance()
    attempt(lambda: lx.clear())
    attempt(lambda: sqlparse.parse('select 1'))
    attempt(lambda: lx.set_SQL_REGEX([(r'\w+', tokens.Name), (r'\s+', tokens.Whitespace)]))
    attempt(lambda: lx.add_keywords({'FOO': tokens.Keyword}))
    attempt(lambda: sqlparse.format('foo bar', keyword_case='upper'))
    attempt(lambda: lx.default_initialization())
    attempt(lambda: sqlparse.parse('select 1 from foo'))

tree1 = token_tree()
attrs1 = attr_sets()
defaults1 = defaults()
fp1 = fingerprints()

new_tt = sorted(v for k, v in tree1.items() if k not in tree0)
new_attrs = []
for k in sorted(attrs1):
    a0 = set(attrs0.get(k, []))
    for a in attrs1[k]:
        if a not in a0:
            new_attrs.append(k + '.' + a)
for k in sorted(attrs0):
    if k not in attrs1:
        new_attrs.append(k + ' (removed)')
    else:
        for a in attrs0[k]:
            if a not in attrs1[k]:
                new_attrs.append(k + '.' + a + ' (removed)')
changed_defaults = sorted(k for k in defaults1 if defaults0.get(k) != defaults1[k])
stable = {n: fp0[n] == fp1[n] and fp0[n] != '<missing>' for n in fp0}
print(json.dumps({'chains': chains, 'new_tokentypes': new_tt, 'new_attributes': new_attrs,
                  'changed_defaults': changed_defaults, 'stable': stable,
                  'tokentypes_at_import': len(tree0), 'workload': {'texts': len(TEXTS), 'errors': errors, 'gens': GENS_NOTE},
                  'unresolved_bindings': sorted(n for n in fp0 if fp0[n] == '<missing>')}))
