"""Gen/PassTab.v: the tables of sqlparse/engine/grouping.py that Group/Passes.v models by hand, extracted
from the SOURCE TEXT (python `ast`) of grouping.py, sql.py and utils.py:

  a. the pass order of `group(stmt)`;
  b. M_OPEN / M_CLOSE / M_EXTEND of the classes grouping.py consults;
  c. T_NUMERICAL, T_STRING, T_NAME;
  d. per pass: the `@recurse(...)` decorator; for the passes built on `_group_matching` the class; for the
     passes built on `_group` the class, the `extend=` / `recurse=` flags, every local tuple constant and
     the `match` / `valid_prev` / `valid_next` / `post` callbacks translated into the IR of
     Group/PassIR.v (`pexpr`, `ppost`); for the ad-hoc passes (while loops) every class / token type /
     match tuple / keyword / extend literal ("site"), while the rest of the function (its SKELETON: the AST
     with the sites replaced by placeholders) must be identical to the skeleton pinned in
     gen_passes_pins.py, from which Passes.v was written.
  e. pins (normalised AST, docstrings dropped) of the two generic drivers `_group_matching`, `_group`, of
     `group`, of utils.imt / utils.recurse and of the sql.Token / sql.TokenList primitives the passes call.

Everything that is not recognised raises Unsupported (fail closed).  Inst/PassTabOk.v proves every generated
item equal to what Passes.v uses.

    python gen_passes.py            print the generated file
    python gen_passes.py --pins     print the pins of the current source (to refresh gen_passes_pins.py
                                    after the model has been adapted to a source change)
"""
import ast
import difflib
import os
import sys

from common import Unsupported, HEADER, REPO, assert_repo, coq_comment, coq_text, coq_ttype

KNOWN_CLS = {
    'Statement': 'CStatement', 'Identifier': 'CIdentifier', 'IdentifierList': 'CIdentifierList',
    'TypedLiteral': 'CTypedLiteral', 'Parenthesis': 'CParenthesis', 'SquareBrackets': 'CSquareBrackets',
    'Assignment': 'CAssignment', 'If': 'CIf', 'For': 'CFor', 'Comparison': 'CComparison',
    'Comment': 'CComment', 'Where': 'CWhere', 'Over': 'COver', 'Having': 'CHaving', 'Case': 'CCase',
    'Function': 'CFunction', 'Begin': 'CBegin', 'Operation': 'COperation', 'Values': 'CValues',
    'Command': 'CCommand', 'TokenList': 'CTokenList',
}
M_ATTRS = ('M_OPEN', 'M_CLOSE', 'M_EXTEND')
GROUP_PARAMS = ['tlist', 'cls', 'match', 'valid_prev', 'valid_next', 'post', 'extend', 'recurse']
FLAGS = {'is_keyword': 'IsKeyword', 'is_whitespace': 'IsWhitespace', 'is_newline': 'IsNewline',
         'is_group': 'IsGroup'}
# functions of sql.py / utils.py whose bodies the hand-written primitives of Tree/Node.v mirror
SQL_PINS = [('Token', '__init__'), ('Token', 'match'), ('TokenList', '__init__'), ('TokenList', '__iter__'),
            ('TokenList', '__getitem__'), ('TokenList', 'get_sublists'), ('TokenList', '_groupable_tokens'),
            ('TokenList', '_token_matching'), ('TokenList', 'token_next_by'),
            ('TokenList', 'token_not_matching'), ('TokenList', 'token_prev'), ('TokenList', 'token_next'),
            ('TokenList', 'token_index'), ('TokenList', 'group_tokens'),
            ('Parenthesis', '_groupable_tokens'), ('SquareBrackets', '_groupable_tokens')]
UTILS_PINS = ['imt', 'recurse']
FORBIDDEN_DUNDERS = ('__bool__', '__len__', '__eq__', '__ne__', '__hash__', '__getattr__',
                     '__getattribute__', '__instancecheck__', '__subclasscheck__', '__init_subclass__')


class NotConst(Exception):
    pass


class Cls:
    """a class of sqlparse.sql used as a value"""

    def __init__(self, name):
        self.name = name

    def __eq__(self, o):
        return isinstance(o, Cls) and o.name == self.name

    def __hash__(self):
        return hash(('Cls', self.name))

    def __repr__(self):
        return 'sql.' + self.name


def span(node):
    return {'line': getattr(node, 'lineno', None), 'end_line': getattr(node, 'end_lineno', None)}


def strip_doc(body):
    if body and isinstance(body[0], ast.Expr) and isinstance(body[0].value, ast.Constant) \
            and isinstance(body[0].value.value, str):
        return body[1:]
    return body


def is_ttype(v):
    from sqlparse import tokens
    return isinstance(v, tokens._TokenType)


def kind_of(v):
    """the kind of a named constant, from its value"""
    if is_ttype(v):
        return 'ttype'
    if isinstance(v, Cls):
        return 'cls'
    if isinstance(v, str):
        return 'text'
    if isinstance(v, tuple) and v:
        if all(is_ttype(x) for x in v):
            return 'ttypes'
        if all(isinstance(x, Cls) for x in v):
            return 'classes'
        if all(isinstance(x, str) for x in v):
            return 'texts'
        if is_pat(v):
            return 'pat'
    if isinstance(v, list) and v and all(is_pat(x) for x in v):
        return 'pats'
    raise Unsupported(f'constant {v!r}: not a tuple of token types / classes / strings, nor a match tuple')


def is_pat(v):
    if not (isinstance(v, tuple) and len(v) == 2 and is_ttype(v[0])):
        return False
    vals = v[1]
    return vals is None or isinstance(vals, str) or \
        (isinstance(vals, tuple) and vals and all(isinstance(x, str) for x in vals))


COQ_TYPE = {'ttype': 'ttype', 'ttypes': 'list ttype', 'cls': 'cls', 'classes': 'list cls', 'text': 'text',
            'texts': 'list text', 'pat': 'pat', 'pats': 'list pat', 'tspec': 'tspec', 'bool': 'bool'}


def lit(v, kind, what='?'):
    """a Python value as a Coq literal of the given kind"""
    def bad():
        raise Unsupported(f'{what}: value {v!r} is not usable as {kind}')
    if kind == 'ttype':
        return coq_ttype(v) if is_ttype(v) else bad()
    if kind == 'ttypes':
        if isinstance(v, tuple) and not is_ttype(v) and all(is_ttype(x) for x in v):
            return '[' + '; '.join(coq_ttype(x) for x in v) + ']'
        bad()
    if kind == 'cls':
        if isinstance(v, Cls):
            return KNOWN_CLS[v.name]
        bad()
    if kind == 'classes':
        if isinstance(v, Cls):
            return '[' + KNOWN_CLS[v.name] + ']'
        if isinstance(v, tuple) and all(isinstance(x, Cls) for x in v):
            return '[' + '; '.join(KNOWN_CLS[x.name] for x in v) + ']'
        bad()     # a list of classes makes isinstance raise TypeError
    if kind == 'text':
        return coq_text(v) if isinstance(v, str) else bad()
    if kind == 'texts':
        if isinstance(v, tuple) and all(isinstance(x, str) for x in v):
            return '[' + '; '.join(coq_text(x) for x in v) + ']'
        bad()
    if kind == 'pat':
        if isinstance(v, tuple) and len(v) == 3:
            raise Unsupported(f'{what}: match tuple {v!r} with a regex flag (the model has no regex matching)')
        if not is_pat(v):
            bad()
        vals = v[1]
        if vals is None:
            return f'({coq_ttype(v[0])}, None)'
        if isinstance(vals, str):
            vals = (vals,)       # Token.match: `if isinstance(values, str): values = (values,)`
        return f'({coq_ttype(v[0])}, Some [' + '; '.join(coq_text(x) for x in vals) + '])'
    if kind == 'pats':
        # utils.imt: a list -> any(token.match(*pattern)); otherwise token.match(*m)
        if isinstance(v, list):
            return '[' + '; '.join(lit(x, 'pat', what) for x in v) + ']'
        return '[' + lit(v, 'pat', what) + ']'
    if kind == 'tspec':
        # utils.imt: a list -> any(token.ttype in ttype ...); otherwise token.ttype in t, which is
        # _TokenType.__contains__ (prefix) for a token type and tuple membership (equality) for a tuple
        if is_ttype(v):
            return f'(TOne {coq_ttype(v)})'
        if isinstance(v, tuple) and all(is_ttype(x) for x in v):
            return '(TMany ' + lit(v, 'ttypes', what) + ')'
        if isinstance(v, list) and all(is_ttype(x) for x in v):
            return '(TList [' + '; '.join(coq_ttype(x) for x in v) + '])'
        bad()
    if kind == 'bool':
        if v is True or v is False:
            return 'true' if v else 'false'
        bad()
    bad()


def coerce(name, have, want, what):
    if have == want:
        return name
    if (have, want) == ('ttypes', 'tspec'):
        return f'(TMany {name})'
    if (have, want) == ('ttype', 'tspec'):
        return f'(TOne {name})'
    if (have, want) == ('pat', 'pats'):
        return f'[{name}]'
    if (have, want) == ('cls', 'classes'):
        return f'[{name}]'
    raise Unsupported(f'{what}: constant {name} of kind {have} used where {want} is expected')


class Scope:
    def __init__(self, parent=None):
        self.parent = parent
        self.names = {}      # python name -> (coq name, kind, value)

    def get(self, name):
        s = self
        while s is not None:
            if name in s.names:
                return s.names[name]
            s = s.parent
        return None

    def add(self, name, ref, where):
        if self.get(name) is not None:
            raise Unsupported(f'{where}: `{name}` is bound twice (or shadows an outer constant)')
        self.names[name] = ref


class SqlInfo:
    """the facts about sqlparse/sql.py the translation relies on"""

    def __init__(self, src):
        self.mod = ast.parse(src)
        self.talias = None
        for n in self.mod.body:
            if isinstance(n, ast.ImportFrom) and n.module == 'sqlparse':
                for a in n.names:
                    if a.name == 'tokens':
                        self.talias = a.asname or a.name
        if self.talias != 'T':
            raise Unsupported('sqlparse/sql.py: the tokens module is not imported as T')
        self.classes = {}
        for n in self.mod.body:
            if isinstance(n, ast.ClassDef):
                if n.name in self.classes:
                    raise Unsupported(f'sqlparse/sql.py: class {n.name} defined twice')
                self.classes[n.name] = n
            elif isinstance(n, (ast.Import, ast.ImportFrom)) or \
                    (isinstance(n, ast.Expr) and isinstance(n.value, ast.Constant)):
                continue
            else:
                raise Unsupported('sqlparse/sql.py: module-level statement besides imports and classes: '
                                  + ast.unparse(n)[:80], span(n))
        for need in KNOWN_CLS:
            if need not in self.classes:
                raise Unsupported(f'sqlparse/sql.py: class {need} not found')
        # Tree/Node.v `inst`: every group class derives directly from TokenList
        for name, c in self.classes.items():
            bases = [ast.unparse(b) for b in c.bases]
            if c.decorator_list or c.keywords:
                raise Unsupported(f'sqlparse/sql.py: class {name} has decorators / a metaclass')
            if name == 'TokenList':
                ok = bases == ['Token']
            elif name in ('Token', 'NameAliasMixin'):
                ok = bases == []
            elif name in KNOWN_CLS:
                ok = bases in (['TokenList'], ['NameAliasMixin', 'TokenList'])
            else:
                raise Unsupported(f'sqlparse/sql.py: class {name} is unknown to the model (Tree/Node.v cls)')
            if not ok:
                raise Unsupported(f'sqlparse/sql.py: class {name} has bases {bases}')
            # `token` in a boolean context = `token is not None`; `==` on token types is tuple equality;
            # isinstance is the plain one
            for m in c.body:
                if isinstance(m, ast.FunctionDef) and m.name in FORBIDDEN_DUNDERS:
                    raise Unsupported(f'sqlparse/sql.py: class {name} defines {m.name}')

    def method(self, cname, fname):
        c = self.classes.get(cname)
        got = [m for m in (c.body if c else []) if isinstance(m, ast.FunctionDef) and m.name == fname]
        if len(got) != 1:
            raise Unsupported(f'sqlparse/sql.py: {cname}.{fname} not found exactly once')
        return got[0]

    def class_attr(self, cname, attr):
        """the expression assigned to cname.attr in the class body (exactly one assignment)"""
        c = self.classes[cname]
        got = []
        for s in ast.walk(c):
            tg = []
            if isinstance(s, ast.Assign):
                tg = s.targets
            elif isinstance(s, (ast.AugAssign, ast.AnnAssign)):
                tg = [s.target]
            for t in tg:
                for x in ast.walk(t):
                    if (isinstance(x, ast.Name) and x.id == attr) or \
                            (isinstance(x, ast.Attribute) and x.attr == attr):
                        got.append(s)
        if len(got) != 1 or got[0] not in c.body or not isinstance(got[0], ast.Assign) or \
                len(got[0].targets) != 1 or not isinstance(got[0].targets[0], ast.Name):
            raise Unsupported(f'sqlparse/sql.py: {cname}.{attr} is not assigned exactly once, plainly, in the '
                              f'class body')
        return got[0].value


class Consts:
    """evaluation of constant expressions (token types, classes, strings, tuples, lists, `+`)"""

    def __init__(self, sqlinfo, sql_alias='sql', t_alias='T'):
        self.sqlinfo = sqlinfo
        self.sql_alias = sql_alias
        self.t_alias = t_alias
        self.used_m = {}     # (class, attr) -> value   (the M_* attributes consulted)

    def ttype_chain(self, node, alias):
        chain = []
        n = node
        while isinstance(n, ast.Attribute):
            chain.append(n.attr)
            n = n.value
        if isinstance(n, ast.Name) and n.id == alias and chain:
            from sqlparse import tokens
            tt = tokens
            for i, a in enumerate(reversed(chain)):
                if a.startswith('_'):
                    raise NotConst()
                if i == 0 and a not in vars(tokens):
                    raise Unsupported(f'`{ast.unparse(node)}`: sqlparse.tokens has no `{a}`')
                tt = getattr(tt, a)
            if not isinstance(tt, tokens._TokenType):
                raise NotConst()
            coq_ttype(tt)       # components must be known to Base.tcomp
            return tt
        return None

    def m_attr(self, cname, attr):
        key = (cname, attr)
        if key not in self.used_m:
            e = self.sqlinfo.class_attr(cname, attr)
            try:
                v = self.value(e, Scope(), in_sql=True)
            except NotConst:
                raise Unsupported(f'sqlparse/sql.py: {cname}.{attr} = {ast.unparse(e)} is not a constant')
            # cross-check with the imported module
            import sqlparse.sql as live
            lv = getattr(getattr(live, cname), attr)
            if not same_value(v, lv):
                raise Unsupported(f'sql.{cname}.{attr}: source text gives {v!r}, the imported class has {lv!r}')
            self.used_m[key] = v
        return self.used_m[key]

    def value(self, node, scope, in_sql=False):
        talias = self.sqlinfo.talias if in_sql else self.t_alias
        if isinstance(node, ast.Constant):
            if isinstance(node.value, str) or node.value is None:
                return node.value
            raise NotConst()
        tt = self.ttype_chain(node, talias)
        if tt is not None:
            return tt
        if isinstance(node, ast.Attribute) and not in_sql:
            if isinstance(node.value, ast.Name) and node.value.id == self.sql_alias:
                if node.attr not in KNOWN_CLS:
                    raise Unsupported(f'`{ast.unparse(node)}`: class unknown to the model (Tree/Node.v cls)')
                return Cls(node.attr)
            if node.attr in M_ATTRS and isinstance(node.value, ast.Attribute) and \
                    isinstance(node.value.value, ast.Name) and node.value.value.id == self.sql_alias:
                if node.value.attr not in KNOWN_CLS:
                    raise Unsupported(f'`{ast.unparse(node)}`: class unknown to the model')
                return self.m_attr(node.value.attr, node.attr)
            raise NotConst()
        if isinstance(node, ast.Name):
            ref = scope.get(node.id)
            if ref is None:
                raise NotConst()
            return ref[2]
        if isinstance(node, ast.Tuple):
            return tuple(self.value(e, scope, in_sql) for e in node.elts)
        if isinstance(node, ast.List):
            return [self.value(e, scope, in_sql) for e in node.elts]
        if isinstance(node, ast.BinOp) and isinstance(node.op, ast.Add):
            a = self.value(node.left, scope, in_sql)
            b = self.value(node.right, scope, in_sql)
            if isinstance(a, tuple) and isinstance(b, tuple) and not is_ttype(a) and not is_ttype(b):
                return a + b
            raise NotConst()
        raise NotConst()

    def render(self, node, scope, kind, what):
        """Coq text of a constant expression; named constants stay symbolic"""
        try:
            v = self.value(node, scope)
        except NotConst:
            raise Unsupported(f'{what}: `{ast.unparse(node)}` is not a recognised constant', span(node))
        if isinstance(node, ast.Name):
            name, have, _ = scope.get(node.id)
            return coerce(name, have, kind, what)
        if isinstance(node, ast.BinOp) and kind in ('ttypes', 'classes', 'texts'):
            return '(' + self.render(node.left, scope, kind, what) + ' ++ ' + \
                self.render(node.right, scope, kind, what) + ')'
        if isinstance(node, ast.BinOp) and kind == 'tspec':
            return '(TMany ' + self.render(node, scope, 'ttypes', what) + ')'
        return lit(v, kind, what)


def same_value(a, b):
    """structural equality that distinguishes list / tuple / token type"""
    if is_ttype(a) or is_ttype(b):
        return is_ttype(a) and is_ttype(b) and tuple(a) == tuple(b)
    if isinstance(a, (tuple, list)):
        return type(a) is type(b) and len(a) == len(b) and all(same_value(x, y) for x, y in zip(a, b))
    return type(a) is type(b) and a == b


# =====================================================================================================
# boolean expressions over the token  ->  PassIR.pexpr
# =====================================================================================================
class PX:
    def __init__(self, consts, scope, tok, what):
        self.c = consts
        self.scope = scope
        self.tok = tok
        self.what = what

    def fail(self, node, why=''):
        raise Unsupported(f'{self.what}: unsupported expression `{ast.unparse(node)}` {why}', span(node))

    def is_tok(self, node):
        return isinstance(node, ast.Name) and node.id == self.tok

    def tok_attr(self, node):
        if isinstance(node, ast.Attribute) and self.is_tok(node.value):
            return node.attr
        return None

    def const(self, node, kind):
        return self.c.render(node, self.scope, kind, self.what)

    def fold(self, op, parts):
        e = parts[0]
        for p in parts[1:]:
            e = f'({op} {e} {p})'
        return e

    def imt_args(self, call):
        """keywords i/m/t of an imt(...) / token_next_by(...) call -> (i, m, t) as Coq text"""
        out = {'i': '[]', 'm': '[]', 't': 'TNone'}
        kinds = {'i': 'classes', 'm': 'pats', 't': 'tspec'}
        seen = set()
        for kw in call.keywords:
            if kw.arg not in kinds or kw.arg in seen:
                self.fail(call, f'(keyword {kw.arg})')
            seen.add(kw.arg)
            if isinstance(kw.value, ast.Constant) and kw.value.value is None:
                continue
            out[kw.arg] = self.const(kw.value, kinds[kw.arg])
        return out['i'], out['m'], out['t']

    def tr(self, node):
        if isinstance(node, ast.Constant) and node.value is True:
            return 'PTrue'
        if isinstance(node, ast.Constant) and node.value is False:
            return 'PFalse'
        if self.is_tok(node):
            return 'Truthy'
        if isinstance(node, ast.UnaryOp) and isinstance(node.op, ast.Not):
            return f'(Not {self.tr(node.operand)})'
        if isinstance(node, ast.BoolOp):
            op = 'And' if isinstance(node.op, ast.And) else 'Or'
            return self.fold(op, [self.tr(v) for v in node.values])
        a = self.tok_attr(node)
        if a in FLAGS:
            return FLAGS[a]
        if isinstance(node, ast.Compare) and len(node.ops) == 1:
            op, left, right = node.ops[0], node.left, node.comparators[0]
            neg = isinstance(op, (ast.IsNot, ast.NotEq, ast.NotIn))

            def wrap(e):
                return f'(Not {e})' if neg else e
            if self.is_tok(left) and isinstance(op, (ast.Is, ast.IsNot)) and \
                    isinstance(right, ast.Constant) and right.value is None:
                return 'NotNone' if neg else 'IsNone'
            la = self.tok_attr(left)
            if la == 'ttype' and isinstance(op, (ast.Eq, ast.NotEq, ast.Is, ast.IsNot)):
                return wrap(f'(TtypeEq {self.const(right, "ttype")})')
            if la == 'ttype' and isinstance(op, (ast.In, ast.NotIn)):
                try:
                    v = self.c.value(right, self.scope)
                except NotConst:
                    self.fail(node)
                if is_ttype(v):
                    return wrap(f'(TtypeWithin {self.const(right, "ttype")})')
                if isinstance(v, tuple):
                    return wrap(f'(TtypeIn {self.const(right, "ttypes")})')
                self.fail(node, '(membership in something that is neither a token type nor a tuple)')
            if la in ('normalized', 'value') and isinstance(op, (ast.Eq, ast.NotEq)):
                ctor = 'NormalizedEq' if la == 'normalized' else 'ValueEq'
                return wrap(f'({ctor} {self.const(right, "text")})')
            if isinstance(op, (ast.Eq, ast.NotEq)) and ast.unparse(left) == f'{self.tok}.value.upper()':
                return wrap(f'(ValueUpperEq {self.const(right, "text")})')
            self.fail(node)
        if isinstance(node, ast.Call):
            f = node.func
            if isinstance(f, ast.Attribute) and self.is_tok(f.value) and f.attr == 'match':
                if node.keywords:
                    self.fail(node, '(keyword arguments of Token.match)')
                if len(node.args) == 1 and isinstance(node.args[0], ast.Starred):
                    try:
                        v = self.c.value(node.args[0].value, self.scope)
                    except NotConst:
                        self.fail(node)
                    if not isinstance(v, tuple):
                        self.fail(node, '(starred argument is not a tuple)')
                    return f'(TokenMatch {self.const(node.args[0].value, "pat")})'
                if len(node.args) == 2 and not any(isinstance(x, ast.Starred) for x in node.args):
                    tup = ast.Tuple(elts=list(node.args), ctx=ast.Load())
                    ast.copy_location(tup, node)
                    return f'(TokenMatch {self.const(tup, "pat")})'
                self.fail(node, '(Token.match with a regex flag or an unusual argument list)')
            if isinstance(f, ast.Name) and f.id == 'isinstance' and len(node.args) == 2 and \
                    not node.keywords and self.is_tok(node.args[0]):
                return f'(InstanceIn {self.const(node.args[1], "classes")})'
            if isinstance(f, ast.Name) and f.id == 'imt' and len(node.args) == 1 and self.is_tok(node.args[0]):
                i, m, t = self.imt_args(node)
                return f'(Imt {i} {m} {t})'
            self.fail(node)
        self.fail(node)


def tr_block(stmts, px, what):
    """a block that always returns a boolean: `return e` / if-elif-else chains of returns"""
    if not stmts:
        raise Unsupported(f'{what}: control reaches the end of the function without return')
    s, rest = stmts[0], stmts[1:]
    if isinstance(s, ast.Return):
        if s.value is None:
            raise Unsupported(f'{what}: bare return', span(s))
        return px.tr(s.value)
    if isinstance(s, ast.If):
        c = px.tr(s.test)
        a = tr_block(list(s.body), px, what)
        b = tr_block(list(s.orelse) + rest, px, what)
        if a == 'PTrue' and b == 'PFalse':
            return c
        if a == 'PFalse' and b == 'PTrue':
            return f'(Not {c})'
        if a == 'PTrue':
            return f'(Or {c} {b})'
        if b == 'PFalse':
            return f'(And {c} {a})'
        if a == 'PFalse':
            return f'(And (Not {c}) {b})'
        if b == 'PTrue':
            return f'(Or (Not {c}) {a})'
        raise Unsupported(f'{what}: if-statement whose branches are both non-constant', span(s))
    raise Unsupported(f'{what}: statement `{ast.unparse(s)[:80]}`', span(s))


class Emitter:
    def __init__(self):
        self.lines = []
        self.names = set()

    def comment(self, text):
        self.lines.append('(* ' + coq_comment(text) + ' *)')

    def blank(self):
        self.lines.append('')

    def define(self, name, kind_or_type, body, src=None):
        if name in self.names:
            raise Unsupported(f'internal: {name} generated twice')
        self.names.add(name)
        ty = COQ_TYPE.get(kind_or_type, kind_or_type)
        if src is not None:
            self.comment(src)
        self.lines.append(f'Definition {name} : {ty} := {body}.')


class PassTranslator:
    def __init__(self, grouping_src, sqlinfo):
        self.mod = ast.parse(grouping_src)
        self.sqlinfo = sqlinfo
        self.consts = Consts(sqlinfo)
        self.em = Emitter()
        self.scope = Scope()
        self.side = {'passes': {}}
        self.funs = {}
        self.group_sig = None

    # ---- module level ----------------------------------------------------------------------------
    def module_level(self):
        imports = []
        for n in self.mod.body:
            if isinstance(n, ast.Expr) and isinstance(n.value, ast.Constant) and isinstance(n.value.value, str):
                continue
            if isinstance(n, (ast.Import, ast.ImportFrom)):
                imports.append(ast.unparse(n))
            elif isinstance(n, ast.FunctionDef):
                if n.name in self.funs:
                    raise Unsupported(f'grouping.py: function {n.name} defined twice', span(n))
                self.funs[n.name] = n
            elif isinstance(n, ast.Assign) and len(n.targets) == 1 and isinstance(n.targets[0], ast.Name):
                name = n.targets[0].id
                try:
                    v = self.consts.value(n.value, self.scope)
                except NotConst:
                    raise Unsupported(f'grouping.py: module-level `{ast.unparse(n)}` is not a constant', span(n))
                kind = kind_of(v)
                body = self.consts.render(n.value, self.scope, kind, name)
                self.em.define('pt_' + name, kind, body, f'line {n.lineno}: {ast.unparse(n)}')
                self.scope.add(name, ('pt_' + name, kind, v), 'grouping.py')
            else:
                raise Unsupported('grouping.py: unexpected module-level statement: ' + ast.unparse(n)[:80], span(n))
        want = ['from sqlparse import sql', 'from sqlparse import tokens as T',
                'from sqlparse.utils import recurse, imt']
        if imports != want:
            raise Unsupported(f'grouping.py: imports are {imports}, expected {want}')
        for need in ('T_NUMERICAL', 'T_STRING', 'T_NAME'):
            ref = self.scope.get(need)
            if ref is None or ref[1] != 'ttypes':
                raise Unsupported(f'grouping.py: {need} is not a module-level tuple of token types')
        self.em.blank()

    # ---- group(stmt) -----------------------------------------------------------------------------
    def pass_order(self):
        g = self.funs.get('group')
        if g is None:
            raise Unsupported('grouping.py: def group(stmt) not found')
        body = strip_doc(g.body)
        lst = None
        if len(body) == 2 and isinstance(body[0], ast.For) and isinstance(body[0].iter, ast.List):
            lst = body[0].iter
        if lst is None or not all(isinstance(e, ast.Name) for e in lst.elts):
            raise Unsupported('grouping.group: expected `for func in [<function names>]: func(stmt)`', span(g))
        order = [e.id for e in lst.elts]
        body[0].iter = ast.copy_location(ast.Name(id='LIT_pass_order', ctx=ast.Load()), lst)
        check_pin('grouping.group', g)
        if len(set(order)) != len(order):
            raise Unsupported(f'grouping.group: a pass occurs twice in {order}')
        for name in order:
            if name not in self.funs:
                raise Unsupported(f'grouping.group: `{name}` is not a function of grouping.py')
        extra = set(self.funs) - set(order) - {'group', '_group', '_group_matching'}
        if extra:
            raise Unsupported(f'grouping.py: functions {sorted(extra)} are not called by group() '
                              f'(unknown to the model)')
        return order

    def decorator(self, fn):
        if not fn.decorator_list:
            return 'NoDecorator'
        if len(fn.decorator_list) == 1:
            d = fn.decorator_list[0]
            if isinstance(d, ast.Call) and isinstance(d.func, ast.Name) and d.func.id == 'recurse' \
                    and not d.keywords and not any(isinstance(a, ast.Starred) for a in d.args):
                cs = [self.consts.render(a, self.scope, 'cls', fn.name + ' decorator') for a in d.args]
                return 'Recurse [' + '; '.join(cs) + ']'
        raise Unsupported(f'{fn.name}: decorators {[ast.unparse(d) for d in fn.decorator_list]}', span(fn))

    def check_signature(self, fn, names, what):
        a = fn.args
        if [x.arg for x in a.args] != names or a.vararg or a.kwarg or a.kwonlyargs or a.posonlyargs \
                or a.defaults or a.kw_defaults or fn.returns is not None:
            raise Unsupported(f'{what}: signature is not ({", ".join(names)})', span(fn))

    def group_signature(self):
        g = self.funs.get('_group')
        gm = self.funs.get('_group_matching')
        if g is None or gm is None:
            raise Unsupported('grouping.py: _group / _group_matching not found')
        check_pin('grouping._group', g)
        check_pin('grouping._group_matching', gm)
        a = g.args
        if [x.arg for x in a.args] != GROUP_PARAMS or a.vararg or a.kwarg or a.kwonlyargs or a.posonlyargs:
            raise Unsupported('grouping._group: parameter list changed')
        d = dict(zip(GROUP_PARAMS[-len(a.defaults):], a.defaults))
        for k in ('valid_prev', 'valid_next'):
            if ast.unparse(d[k]) != 'lambda t: True':
                raise Unsupported(f'grouping._group: default of {k}')
        if ast.unparse(d['post']) != 'None':
            raise Unsupported('grouping._group: default of post')
        self.group_sig = {}
        for k in ('extend', 'recurse'):
            if not (isinstance(d[k], ast.Constant) and isinstance(d[k].value, bool)):
                raise Unsupported(f'grouping._group: default of {k}')
            self.group_sig[k] = d[k].value
            self.em.define(f'pt__group_default_{k}', 'bool', lit(d[k].value, 'bool'),
                           f'_group(..., {k}={d[k].value}): the default')
        self.em.blank()

    # ---- one pass --------------------------------------------------------------------------------
    def translate_pass(self, fn):
        self.check_signature(fn, ['tlist'], fn.name)
        body = strip_doc(fn.body)
        pre = 'pt_' + fn.name
        self.em.comment(f'==== {fn.name} (lines {fn.lineno}-{fn.end_lineno}) ====')
        decor = self.decorator(fn)
        self.em.define(pre + '_decor', 'pdecor', decor,
                       ' '.join('@' + ast.unparse(d) for d in fn.decorator_list) or 'no decorator')
        info = {'lines': span(fn), 'decor': decor}
        calls = [n for n in ast.walk(fn) if isinstance(n, ast.Call) and isinstance(n.func, ast.Name)
                 and n.func.id in ('_group', '_group_matching')]
        if len(body) == 1 and isinstance(body[0], ast.Expr) and isinstance(body[0].value, ast.Call) \
                and ast.unparse(body[0].value.func) == '_group_matching':
            info['kind'] = 'matching'
            c = body[0].value
            if len(c.args) != 2 or c.keywords or ast.unparse(c.args[0]) != 'tlist':
                raise Unsupported(f'{fn.name}: arguments of _group_matching', span(c))
            v = self.consts.value(c.args[1], self.scope)
            if not isinstance(v, Cls):
                raise Unsupported(f'{fn.name}: class argument of _group_matching', span(c))
            self.em.define(pre + '_cls', 'cls', lit(v, 'cls'), ast.unparse(c))
            for attr in ('M_OPEN', 'M_CLOSE'):
                mv = self.consts.m_attr(v.name, attr)
                if not is_pat(mv):       # token.match(*cls.M_OPEN)
                    raise Unsupported(f'sql.{v.name}.{attr} = {mv!r} is not a (ttype, values) tuple')
        elif any(ast.unparse(c.func) == '_group' for c in calls):
            info['kind'] = '_group'
            info['calls'] = self.translate_group_pass(fn, body, pre)
        else:
            if calls:
                raise Unsupported(f'{fn.name}: mixes _group_matching with other statements', span(fn))
            info['kind'] = 'adhoc'
            info['sites'] = self.translate_adhoc(fn, pre)
        self.em.blank()
        self.side['passes'][fn.name] = info

    # ---- passes built on _group ------------------------------------------------------------------
    def local_const(self, s, scope, pre, what):
        """`name = <constant tuple>` -> a Definition; False when s is no such statement"""
        if not (isinstance(s, ast.Assign) and len(s.targets) == 1 and isinstance(s.targets[0], ast.Name)):
            return False
        try:
            v = self.consts.value(s.value, scope)
        except NotConst:
            return False
        if not isinstance(v, (tuple, list)):
            return False
        name = s.targets[0].id
        kind = kind_of(v)
        body = self.consts.render(s.value, scope, kind, what)
        cname = f'{pre}_{name}'
        self.em.define(cname, kind, body, f'line {s.lineno}: {ast.unparse(s)}')
        scope.add(name, (cname, kind, v), what)
        return True

    def translate_group_pass(self, fn, body, pre):
        scope = Scope(self.scope)
        defs = {}
        alias = {}
        calls = []
        for s in body:
            if calls and not (isinstance(s, ast.Expr) and isinstance(s.value, ast.Call)
                              and ast.unparse(s.value.func) == '_group'):
                raise Unsupported(f'{fn.name}: statement after the _group call: {ast.unparse(s)[:60]}', span(s))
            if isinstance(s, ast.FunctionDef):
                if s.name in defs or s.name in alias or scope.get(s.name) or s.decorator_list:
                    raise Unsupported(f'{fn.name}: nested def {s.name} rebinds a name / is decorated', span(s))
                defs[s.name] = s
            elif isinstance(s, ast.Assign) and all(isinstance(t, ast.Name) for t in s.targets) and \
                    isinstance(s.value, ast.Name) and (s.value.id in defs or s.value.id in alias):
                for t in s.targets:
                    if t.id in defs or t.id in alias or scope.get(t.id):
                        raise Unsupported(f'{fn.name}: `{t.id}` bound twice', span(s))
                    alias[t.id] = alias.get(s.value.id, s.value.id)
            elif isinstance(s, ast.Expr) and isinstance(s.value, ast.Call) and \
                    ast.unparse(s.value.func) == '_group':
                calls.append(s.value)
            elif self.local_const(s, scope, pre, fn.name):
                pass
            else:
                raise Unsupported(f'{fn.name}: unsupported statement `{ast.unparse(s)[:80]}`', span(s))
        if not calls:
            raise Unsupported(f'{fn.name}: no _group call')
        used = set()
        out = []
        fn_consts_done = {}
        for k, c in enumerate(calls, 1):
            cp = pre if len(calls) == 1 else f'{pre}_c{k}'
            if any(isinstance(a, ast.Starred) for a in c.args) or any(kw.arg is None for kw in c.keywords):
                raise Unsupported(f'{fn.name}: starred arguments in the _group call', span(c))
            bound = dict(zip(GROUP_PARAMS, c.args))
            if len(c.args) > len(GROUP_PARAMS):
                raise Unsupported(f'{fn.name}: too many arguments of _group', span(c))
            for kw in c.keywords:
                if kw.arg in bound or kw.arg not in GROUP_PARAMS:
                    raise Unsupported(f'{fn.name}: keyword {kw.arg} of _group', span(c))
                bound[kw.arg] = kw.value
            if ast.unparse(bound.get('tlist', ast.Constant(value=None))) != 'tlist':
                raise Unsupported(f'{fn.name}: first argument of _group is not tlist', span(c))
            self.em.comment(f'line {c.lineno}: {ast.unparse(c)}')
            cv = self.consts.value(bound['cls'], scope) if 'cls' in bound else None
            if not isinstance(cv, Cls):
                raise Unsupported(f'{fn.name}: class argument of _group', span(c))
            self.em.define(cp + '_cls', 'cls', lit(cv, 'cls'))
            rec = {'cls': cv.name}
            for flag in ('extend', 'recurse'):
                if flag in bound:
                    e = bound[flag]
                    if not (isinstance(e, ast.Constant) and isinstance(e.value, bool)):
                        raise Unsupported(f'{fn.name}: {flag}={ast.unparse(e)} is not a boolean literal', span(c))
                    self.em.define(f'{cp}_{flag}', 'bool', lit(e.value, 'bool'))
                    rec[flag] = e.value
                else:
                    self.em.define(f'{cp}_{flag}', 'bool', f'pt__group_default_{flag}')
                    rec[flag] = self.group_sig[flag]
            for role in ('match', 'valid_prev', 'valid_next', 'post'):
                if role not in bound:
                    if role in ('valid_prev', 'valid_next'):
                        self.em.define(f'{cp}_{role}', 'pexpr', 'PTrue', 'default: lambda t: True')
                        continue
                    raise Unsupported(f'{fn.name}: _group called without {role}', span(c))
                e = bound[role]
                if not isinstance(e, ast.Name):
                    raise Unsupported(f'{fn.name}: {role}={ast.unparse(e)} is not a local function name', span(c))
                dname = alias.get(e.id, e.id)
                if dname not in defs:
                    raise Unsupported(f'{fn.name}: {role}={e.id} is not a local def', span(c))
                used.add(dname)
                d = defs[dname]
                dscope = fn_consts_done.get(dname)
                first = dscope is None
                if first:
                    dscope = Scope(scope)
                    fn_consts_done[dname] = dscope
                src = f'{role} = {dname} (line {d.lineno}): ' + ' ; '.join(ast.unparse(x) for x in strip_doc(d.body))
                if role == 'post':
                    body_ = self.tr_post(d, dscope, f'{pre}_{dname}', f'{fn.name}.{dname}', first)
                    self.em.define(f'{cp}_{role}', 'ppost', body_, src)
                else:
                    body_ = self.tr_pred(d, dscope, f'{pre}_{dname}', f'{fn.name}.{dname}', first)
                    self.em.define(f'{cp}_{role}', 'pexpr', body_, src)
                rec[role] = dname
            out.append(rec)
        unused = set(defs) - used
        if unused:
            raise Unsupported(f'{fn.name}: local functions {sorted(unused)} are not passed to _group')
        return out

    def split_consts(self, d, dscope, pre, what, first):
        """leading `name = <constant>` statements of a nested def"""
        body = strip_doc(d.body)
        i = 0
        while i < len(body):
            s = body[i]
            if first:
                if not self.local_const(s, dscope, pre, what):
                    break
            else:
                if not (isinstance(s, ast.Assign) and len(s.targets) == 1 and
                        isinstance(s.targets[0], ast.Name) and s.targets[0].id in dscope.names):
                    break
            i += 1
        return body[i:]

    def tr_pred(self, d, dscope, pre, what, first):
        a = d.args
        if len(a.args) != 1 or a.vararg or a.kwarg or a.kwonlyargs or a.posonlyargs or a.defaults:
            raise Unsupported(f'{what}: expected one parameter', span(d))
        tok = a.args[0].arg
        if dscope.get(tok) is not None:
            raise Unsupported(f'{what}: parameter {tok} shadows a constant', span(d))
        rest = self.split_consts(d, dscope, pre, what, first)
        px = PX(self.consts, dscope, tok, what)
        # for ttype, value in (<pairs>): if token.match(ttype, value): return True / return False
        if len(rest) == 2 and isinstance(rest[0], ast.For) and not rest[0].orelse and \
                isinstance(rest[0].target, ast.Tuple) and len(rest[0].target.elts) == 2 and \
                all(isinstance(e, ast.Name) for e in rest[0].target.elts):
            f = rest[0]
            v1, v2 = (e.id for e in f.target.elts)
            if ast.unparse(f.body) == f'if {tok}.match({v1}, {v2}):\n    return True' and \
                    ast.unparse(rest[1]) == 'return False' and isinstance(f.iter, ast.Tuple) and f.iter.elts \
                    and len({v1, v2, tok}) == 3:
                parts = ['(TokenMatch ' + self.consts.render(e, dscope, 'pat', what) + ')' for e in f.iter.elts]
                return px.fold('Or', parts)
            raise Unsupported(f'{what}: for-loop of an unknown shape', span(f))
        return tr_block(rest, px, what)

    def tr_post(self, d, dscope, pre, what, first):
        self.check_signature(d, ['tlist', 'pidx', 'tidx', 'nidx'], what)
        rest = self.split_consts(d, dscope, pre, what, first)
        ix = {'pidx': 'IxP', 'tidx': 'IxT', 'nidx': 'IxN'}

        def pair(e):
            if isinstance(e, ast.Tuple) and len(e.elts) == 2 and \
                    all(isinstance(x, ast.Name) and x.id in ix for x in e.elts):
                return ix[e.elts[0].id], ix[e.elts[1].id]
            raise Unsupported(f'{what}: returned value `{ast.unparse(e)}` is not a pair of pidx/tidx/nidx', span(e))
        if not rest or not isinstance(rest[-1], ast.Return) or rest[-1].value is None:
            raise Unsupported(f'{what}: does not end with a return', span(d))
        ret = rest[-1].value
        mid = rest[:-1]
        if not mid:
            a, b = pair(ret)
            return f'(PostPair {a} {b})'
        srcs = [ast.unparse(s) for s in mid]
        # next_ = tlist[nidx] if nidx is not None else None ; v = <expr(next_)> ; return (a, b) if v else (c, d)
        if len(mid) == 2 and srcs[0] == 'next_ = tlist[nidx] if nidx is not None else None' and \
                isinstance(mid[1], ast.Assign) and len(mid[1].targets) == 1 and \
                isinstance(mid[1].targets[0], ast.Name) and isinstance(ret, ast.IfExp) and \
                isinstance(ret.test, ast.Name) and ret.test.id == mid[1].targets[0].id and \
                ret.test.id not in ('tlist', 'next_') + tuple(ix) and dscope.get(ret.test.id) is None:
            c = PX(self.consts, dscope, 'next_', what).tr(mid[1].value)
            a, b = pair(ret.body)
            a2, b2 = pair(ret.orelse)
            return f'(PostIfNext {c} {a} {b} {a2} {b2})'
        # snidx, _ = tlist.token_next_by(m=<m>, idx=nidx) ; nidx = snidx or nidx ; return a, b
        if len(mid) == 2 and isinstance(mid[0], ast.Assign) and isinstance(mid[0].value, ast.Call) and \
                ast.unparse(mid[0].targets[0]) == '(snidx, _)' and len(mid[0].targets) == 1 and \
                ast.unparse(mid[0].value.func) == 'tlist.token_next_by' and not mid[0].value.args and \
                sorted(kw.arg for kw in mid[0].value.keywords) == ['idx', 'm'] and \
                srcs[1] == 'nidx = snidx or nidx':
            kws = {kw.arg: kw.value for kw in mid[0].value.keywords}
            if ast.unparse(kws['idx']) != 'nidx':
                raise Unsupported(f'{what}: token_next_by(idx={ast.unparse(kws["idx"])})', span(mid[0]))
            m = self.consts.render(kws['m'], dscope, 'pats', what)
            a, b = pair(ret)
            return f'(PostSeekNext {m} {a} {b})'
        # tlist[tidx].ttype = T.X ; return a, b
        if len(mid) == 1 and isinstance(mid[0], ast.Assign) and len(mid[0].targets) == 1 and \
                ast.unparse(mid[0].targets[0]) == 'tlist[tidx].ttype':
            ty = self.consts.render(mid[0].value, dscope, 'ttype', what)
            a, b = pair(ret)
            return f'(PostRetype {ty} {a} {b})'
        raise Unsupported(f'{what}: body of an unknown shape: ' + ' ; '.join(srcs), span(d))

    # ---- ad-hoc passes: literal sites + pinned skeleton ------------------------------------------------
    def translate_adhoc(self, fn, pre):
        sk = Skeleton(self, fn, pre)
        sk.run()
        check_pin('grouping.' + fn.name, sk.fn)
        return sk.sites_side


KIND_OF_SITE = {'i': 'classes', 'm': 'pats', 't': 'tspec', 'cls': 'cls', 'isa': 'cls', 'ext': 'bool',
                's': 'text'}


class Skeleton(ast.NodeTransformer):
    """replaces the literal sites of an ad-hoc pass by placeholders LIT_<name> and emits one Definition per
    site; two sites of the same kind with the same source text share a placeholder"""

    def __init__(self, tr, fn, pre):
        self.tr = tr
        self.pre = pre
        self.fname = fn.name
        self.scope = Scope(tr.scope)
        self.sites = {}
        self.counter = {}
        self.sites_side = []
        import copy
        self.fn = copy.deepcopy(fn)
        self.fn.decorator_list = []
        self.fn.body = strip_doc(self.fn.body)

    def run(self):
        self.fn.body = [self.visit(s) for s in self.fn.body]

    def site(self, node, kind):
        src = ast.unparse(node)
        key = (kind, src)
        if key not in self.sites:
            n = self.counter.get(kind, 0) + 1
            self.counter[kind] = n
            name = f'{kind}{n}'
            ck = KIND_OF_SITE[kind]
            if kind == 'ext':
                if not (isinstance(node, ast.Constant) and isinstance(node.value, bool)):
                    raise Unsupported(f'{self.fname}: extend={src} is not a boolean literal', span(node))
                body = lit(node.value, 'bool')
            elif kind == 'isa':
                try:
                    v = self.tr.consts.value(node, self.scope)
                except NotConst:
                    raise Unsupported(f'{self.fname}: isinstance(_, {src})', span(node))
                if not isinstance(v, Cls):
                    raise Unsupported(f'{self.fname}: isinstance(_, {src}): the model tests one class here',
                                      span(node))
                body = self.tr.consts.render(node, self.scope, 'cls', self.fname)
            else:
                body = self.tr.consts.render(node, self.scope, ck, self.fname)
            self.tr.em.define(f'{self.pre}_{name}', ck, body, f'line {node.lineno}: {kind}={src}'
                              if kind in 'imt' else f'line {node.lineno}: {src}')
            self.sites[key] = name
            self.sites_side.append({'name': name, 'kind': kind, 'src': src, 'line': node.lineno})
        return ast.copy_location(ast.Name(id='LIT_' + self.sites[key], ctx=ast.Load()), node)

    def visit_FunctionDef(self, node):
        raise Unsupported(f'{self.fname}: nested def {node.name} in an ad-hoc pass', span(node))

    def visit_Assign(self, node):
        if len(node.targets) == 1 and isinstance(node.targets[0], ast.Name):
            try:
                v = self.tr.consts.value(node.value, self.scope)
            except NotConst:
                v = None
            if isinstance(v, (tuple, list)):
                name = node.targets[0].id
                self.tr.local_const(node, self.scope, self.pre, self.fname)
                self.sites_side.append({'name': name, 'kind': 'const', 'src': ast.unparse(node.value),
                                        'line': node.lineno})
                node.value = ast.copy_location(ast.Name(id='LIT_' + name, ctx=ast.Load()), node.value)
                return node
        return self.generic_visit(node)

    def visit_Call(self, node):
        f = node.func
        if (isinstance(f, ast.Name) and f.id == 'imt') or \
                (isinstance(f, ast.Attribute) and f.attr == 'token_next_by'):
            limit = 1 if isinstance(f, ast.Name) else 0
            if len(node.args) > limit:
                raise Unsupported(f'{self.fname}: positional i/m/t arguments in `{ast.unparse(node)}`', span(node))
            for kw in node.keywords:
                if kw.arg in ('i', 'm', 't'):
                    if not (isinstance(kw.value, ast.Constant) and kw.value.value is None):
                        kw.value = self.site(kw.value, kw.arg)
        elif isinstance(f, ast.Name) and f.id == 'isinstance' and len(node.args) == 2:
            node.args[1] = self.site(node.args[1], 'isa')
        elif isinstance(f, ast.Attribute) and f.attr == 'group_tokens' and node.args:
            node.args[0] = self.site(node.args[0], 'cls')
            for kw in node.keywords:
                if kw.arg == 'extend':
                    kw.value = self.site(kw.value, 'ext')
        return self.generic_visit(node)

    def visit_Compare(self, node):
        if len(node.ops) == 1 and isinstance(node.ops[0], (ast.Eq, ast.NotEq)):
            r = node.comparators[0]
            if isinstance(r, ast.Constant) and isinstance(r.value, str):
                node.comparators[0] = self.site(r, 's')
            elif isinstance(node.left, ast.Constant) and isinstance(node.left.value, str):
                node.left = self.site(node.left, 's')
        return self.generic_visit(node)


# =====================================================================================================
# pins
# =====================================================================================================
CURRENT_PINS = {}      # filled while translating: name -> normalised source of what was met


def norm_fn(fn):
    """the function without decorators and docstring, unparsed"""
    import copy
    f = copy.deepcopy(fn)
    f.body = strip_doc(f.body) or [ast.Pass()]
    return ast.unparse(f)


def check_pin(name, fn):
    got = norm_fn(fn)
    CURRENT_PINS[name] = got
    if os.environ.get('GEN_PASSES_NO_PIN_CHECK'):
        return
    from gen_passes_pins import PINS
    want = PINS.get(name)
    if want is None:
        raise Unsupported(f'{name}: no pinned AST for this function (the model does not know it)')
    try:
        same = ast.dump(ast.parse(want)) == ast.dump(ast.parse(got))
    except SyntaxError:
        same = False
    if not same:
        diff = list(difflib.unified_diff(want.splitlines(), got.splitlines(), 'pinned', 'source', lineterm='', n=1))
        raise Unsupported(f'{name}: the code differs from the AST the hand-written model was made from '
                          f'(literal sites abstracted as LIT_x):\n' + '\n'.join(diff[:40]))


def read(rel):
    with open(os.path.join(REPO, rel), encoding='utf-8') as f:
        return f.read()


def generate():
    assert_repo()
    import sqlparse.engine.grouping as live_g
    import sqlparse.sql as live_sql
    import sqlparse.utils as live_u
    for mod, rel in ((live_g, 'sqlparse/engine/grouping.py'), (live_sql, 'sqlparse/sql.py'),
                     (live_u, 'sqlparse/utils.py')):
        if os.path.realpath(mod.__file__) != os.path.realpath(os.path.join(REPO, rel)):
            raise Unsupported(f'{rel}: the imported module comes from {mod.__file__}')
    CURRENT_PINS.clear()
    sqlinfo = SqlInfo(read('sqlparse/sql.py'))
    for cname, fname in SQL_PINS:
        check_pin(f'sql.{cname}.{fname}', sqlinfo.method(cname, fname))
    # sqlparse/tokens.py: `ttype in T.X` is the prefix test (Base.tin), `==` is tuple equality
    tmod = ast.parse(read('sqlparse/tokens.py'))
    tcls = [n for n in tmod.body if isinstance(n, ast.ClassDef) and n.name == '_TokenType']
    if len(tcls) != 1 or [ast.unparse(b) for b in tcls[0].bases] != ['tuple'] or tcls[0].decorator_list \
            or tcls[0].keywords:
        raise Unsupported('sqlparse/tokens.py: class _TokenType(tuple) not found exactly once')
    tmeth = {m.name: m for m in tcls[0].body if isinstance(m, ast.FunctionDef)}
    if sorted(tmeth) != ['__contains__', '__getattr__', '__repr__']:
        raise Unsupported(f'sqlparse/tokens.py: _TokenType defines {sorted(tmeth)}')
    check_pin('tokens._TokenType.__contains__', tmeth['__contains__'])
    check_pin('tokens._TokenType.__getattr__', tmeth['__getattr__'])
    umod = ast.parse(read('sqlparse/utils.py'))
    ufuns = {}
    for n in umod.body:
        if isinstance(n, ast.FunctionDef):
            if n.name in ufuns:
                raise Unsupported(f'utils.py: {n.name} defined twice')
            ufuns[n.name] = n
        elif isinstance(n, ast.Assign):
            for t in n.targets:
                for x in ast.walk(t):
                    if isinstance(x, ast.Name) and x.id in UTILS_PINS:
                        raise Unsupported(f'utils.py: {x.id} is rebound at module level')
    for fname in UTILS_PINS:
        if fname not in ufuns:
            raise Unsupported(f'utils.py: {fname} not found')
        if ufuns[fname].decorator_list:
            raise Unsupported(f'utils.py: {fname} is decorated')
        check_pin('utils.' + fname, ufuns[fname])

    tr = PassTranslator(read('sqlparse/engine/grouping.py'), sqlinfo)
    em = tr.em
    em.lines += [HEADER.rstrip('\n'),
                 '(* tables of sqlparse/engine/grouping.py (see tools/regen/gen_passes.py); proved equal to the',
                 '   hand-written model of Group/Passes.v in Inst/PassTabOk.v *)',
                 'From Coq Require String.',
                 'From SqlModel Require Import Base PyStr Node Passes PassIR.',
                 'From SqlModel.Gen Require Import CaseTabs.', '']
    tr.module_level()
    tr.group_signature()
    order = tr.pass_order()
    for name in order:
        tr.translate_pass(tr.funs[name])

    # the M_* attributes that were consulted, per class
    em.comment('==== M_OPEN / M_CLOSE / M_EXTEND of the classes grouping.py consults (sqlparse/sql.py) ====')
    used = tr.consts.used_m
    for (cname, attr) in sorted(used):
        v = used[(cname, attr)]
        e = sqlinfo.class_attr(cname, attr)
        em.define(f'pt_{attr}_{cname}', 'pats', lit(v, 'pats', f'sql.{cname}.{attr}'),
                  f'sql.{cname}.{attr} = {ast.unparse(e)}')
    for attr, fname in (('M_OPEN', 'pt_m_open'), ('M_CLOSE', 'pt_m_close')):
        em.blank()
        em.lines.append(f'Definition {fname} (c : cls) : list pat :=')
        em.lines.append('  match c with')
        for (cname, a) in sorted(used):
            if a == attr:
                em.lines.append(f'  | {KNOWN_CLS[cname]} => pt_{attr}_{cname}')
        em.lines.append('  | _ => []')
        em.lines.append('  end.')
    em.blank()
    em.comment('==== the pass order of grouping.group ====')
    em.lines.append('Module PassOrder.')
    em.lines.append('Import String.    (* local: String.String would shadow the token type component *)')
    em.lines.append('Definition pass_order : list string := [')
    em.lines.append(';\n'.join(f'  "{n}"%string' for n in order))
    em.lines.append('].')
    em.lines.append('End PassOrder.')
    em.lines.append('Definition pass_order : list String.string := PassOrder.pass_order.')
    em.blank()
    side = tr.side
    side['order'] = order
    side['m_attrs'] = {f'{c}.{a}': repr(v) for (c, a), v in used.items()}
    side['pinned'] = sorted(CURRENT_PINS)
    return {'PassTab.v': '\n'.join(em.lines) + '\n'}, side


def print_pins():
    os.environ['GEN_PASSES_NO_PIN_CHECK'] = '1'
    generate()
    print('"""Pinned normalised source (docstrings and decorators dropped; literal sites of the ad-hoc passes')
    print('abstracted as LIT_x) of the functions Group/Passes.v and Tree/Node.v were hand-written from.')
    print('Refresh with `python gen_passes.py --pins` AFTER adapting the model."""')
    print('PINS = {')
    for k in sorted(CURRENT_PINS):
        print(f'    {k!r}: (')
        for ln in CURRENT_PINS[k].splitlines():
            print(f'        {ln + chr(10)!r}')
        print('    ),')
    print('}')


if __name__ == '__main__':
    if '--pins' in sys.argv:
        print_pins()
    else:
        files, side = generate()
        print(files['PassTab.v'])
