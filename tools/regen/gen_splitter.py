"""Gen/SplitTab.v: StatementSplitter._reset / _change_splitlevel / terminator test / EOS_TTYPE,
translated from the AST of sqlparse/engine/statement_splitter.py."""
import ast
import inspect

from common import Unsupported, HEADER, assert_repo, coq_comment
from pyfun import ExprTr, FunTr, Ty, span

FIELDS = {
    'self._in_declare': ('in_declare', Ty.BOOL),
    'self._case_depth': ('case_depth', Ty.Z),
    'self._is_create': ('is_create', Ty.BOOL),
    'self._begin_depth': ('begin_depth', Ty.Z),
}
RESET_EXPECT = {
    'self._in_declare': 'False', 'self._case_depth': '0', 'self._is_create': 'False',
    'self._begin_depth': '0', 'self.consume_ws': 'False', 'self.tokens': '[]', 'self.level': '0',
}


PROCESS_SHAPE = """
EOS_TTYPE = EOS_TUPLE
for (ttype, value) in stream:
    if self.consume_ws and ttype not in EOS_TTYPE:
        yield sql.Statement(self.tokens)
        self._reset()
    self.level += self._change_splitlevel(ttype, value)
    self.tokens.append(sql.Token(ttype, value))
    if TERMINATOR_TEST:
        self.consume_ws = True
if self.tokens and (not all((t.is_whitespace for t in self.tokens))):
    yield sql.Statement(self.tokens)
"""


def generate():
    assert_repo()
    from sqlparse.engine import statement_splitter as ss
    src = inspect.getsource(ss)
    mod = ast.parse(src)
    cls = [n for n in mod.body if isinstance(n, ast.ClassDef) and n.name == 'StatementSplitter']
    if len(cls) != 1:
        raise Unsupported('class StatementSplitter not found')
    funs = {n.name: n for n in cls[0].body if isinstance(n, ast.FunctionDef)}
    for need in ('_reset', '_change_splitlevel', 'process', '__init__'):
        if need not in funs:
            raise Unsupported(f'StatementSplitter.{need} not found')
    extra = set(funs) - {'_reset', '_change_splitlevel', 'process', '__init__'}
    if extra:
        raise Unsupported(f'StatementSplitter has unmodelled methods {sorted(extra)}')
    talias = None
    for n in mod.body:
        if isinstance(n, ast.ImportFrom) and n.module == 'sqlparse':
            for a in n.names:
                if a.name == 'tokens':
                    talias = a.asname or a.name
    if talias != 'T':
        raise Unsupported('tokens module is not imported as T')

    # ---- _reset
    got = {}
    for s in funs['_reset'].body:
        if isinstance(s, ast.Expr) and isinstance(s.value, ast.Constant):
            continue
        if not (isinstance(s, ast.Assign) and len(s.targets) == 1):
            raise Unsupported('_reset: ' + ast.unparse(s), span(s))
        got[ast.unparse(s.targets[0])] = ast.unparse(s.value)
    if got != RESET_EXPECT:
        raise Unsupported(f'_reset assigns {got}, the model knows {RESET_EXPECT}')
    init_body = [s for s in funs['__init__'].body if not (isinstance(s, ast.Expr) and isinstance(s.value, ast.Constant))]
    if [ast.unparse(s) for s in init_body] != ['self._reset()']:
        raise Unsupported('__init__ is not just self._reset()')

    # ---- _change_splitlevel
    f = funs['_change_splitlevel']
    args = [a.arg for a in f.args.args]
    if args != ['self', 'ttype', 'value']:
        raise Unsupported(f'_change_splitlevel arguments {args}')
    env = {'ttype': ('ttype', Ty.TTYPE), 'value': ('value', Ty.TEXT)}
    ft = FunTr('_change_splitlevel', 'st', FIELDS, env, {'unified': Ty.TEXT})
    body = ft.tr_block(list(f.body), 'st', {})

    # ---- process: EOS_TTYPE, the yield test and the terminator test
    p = funs['process']
    eos = None
    term = None
    yield_test = None
    loops = [n for n in p.body if isinstance(n, ast.For)]
    if len(loops) != 1 or ast.unparse(loops[0].target) != '(ttype, value)' or ast.unparse(loops[0].iter) != 'stream':
        raise Unsupported('process: expected exactly one `for ttype, value in stream` loop')
    for n in ast.walk(p):
        if isinstance(n, ast.Assign) and ast.unparse(n.targets[0]) == 'EOS_TTYPE':
            eos = n.value
    for n in ast.walk(loops[0]):
        if isinstance(n, ast.If) and [ast.unparse(s) for s in n.body] == ['self.consume_ws = True']:
            if term is not None:
                raise Unsupported('process: two terminator tests')
            term = n.test
        if isinstance(n, ast.If) and n.body and isinstance(n.body[0], ast.Expr) and \
                isinstance(n.body[0].value, ast.Yield) and yield_test is None:
            yield_test = n.test
    tail = [n for n in p.body if isinstance(n, ast.If)]
    if len(tail) != 1 or ast.unparse(tail[0].test) != \
            'self.tokens and (not all((t.is_whitespace for t in self.tokens)))':
        raise Unsupported('process: final pending-statement test changed: ' +
                          (ast.unparse(tail[0].test) if tail else 'missing'))
    if eos is None or term is None or yield_test is None:
        raise Unsupported('process: EOS_TTYPE / terminator test / yield test not found')
    # the ORDER of the steps of the loop body (yield + reset, level change, append, terminator test): the hand-written
    # process loop of Split/Splitter.v was written from exactly this shape
    pb = [n for n in p.body if not (isinstance(n, ast.Expr) and isinstance(n.value, ast.Constant))]
    shape = ast.parse(ast.unparse(ast.Module(body=pb, type_ignores=[])))
    for n in ast.walk(shape):
        if isinstance(n, ast.Assign) and ast.unparse(n.targets[0]) == 'EOS_TTYPE':
            n.value = ast.Name(id='EOS_TUPLE', ctx=ast.Load())
        if isinstance(n, ast.If) and [ast.unparse(x) for x in n.body] == ['self.consume_ws = True']:
            n.test = ast.Name(id='TERMINATOR_TEST', ctx=ast.Load())
    if ast.dump(ast.parse(ast.unparse(shape))) != ast.dump(ast.parse(PROCESS_SHAPE)):
        raise Unsupported('process: the loop differs from the shape the model was written from:\n' + ast.unparse(shape))
    et0 = ExprTr({}, fname='process')
    eos_e, eos_t = et0.tr(eos)
    if eos_t != Ty.TTYPES:
        raise Unsupported('EOS_TTYPE is not a tuple of token types')
    if ast.unparse(yield_test) != 'self.consume_ws and ttype not in EOS_TTYPE':
        raise Unsupported('process: yield test is `%s`' % ast.unparse(yield_test))
    et = ExprTr({'ttype': ('ttype', Ty.TTYPE), 'value': ('value', Ty.TEXT), 'self.level': ('level', Ty.Z)},
                fname='process')
    term_e = et.bool(term)

    out = [HEADER, 'From SqlModel Require Import Base PyStr SplitDefs.', 'From SqlModel.Gen Require Import CaseTabs.', '',
           'Definition reset_sstate : sstate :=',
           '  {| in_declare := false; case_depth := 0%Z; is_create := false; begin_depth := 0%Z |}.', '',
           '(* StatementSplitter._change_splitlevel *)',
           'Definition change_splitlevel (st : sstate) (ttype : ttype) (value : text) : sstate * Z :=',
           '  ' + body + '.', '',
           f'(* EOS_TTYPE = {coq_comment(ast.unparse(eos))}  (tuple membership: equality, not prefix) *)',
           f'Definition eos_ttypes : list ttype := {eos_e}.', '',
           f'(* {coq_comment(ast.unparse(term))} *)',
           'Definition is_terminator (level : Z) (ttype : ttype) (value : text) : bool :=',
           '  ' + term_e + '.', '']
    side = {'change_splitlevel_lines': span(f), 'terminator': ast.unparse(term), 'eos': ast.unparse(eos)}
    return {'SplitTab.v': '\n'.join(out)}, side


if __name__ == '__main__':
    files, side = generate()
    print(files['SplitTab.v'])
