"""Regex -> Gallina translation (via CPython's own re._parser) and exhaustive atom evaluation."""
import re
import re._compiler as _compiler
import re._constants as C
import re._parser as P

from common import coq_comment, Unsupported, MAXCP, ranges_of, cset_term, cache_get, cache_put, PYVER

_ALL = None


def _all_chars():
    global _ALL
    if _ALL is None:
        _ALL = ''.join(map(chr, range(MAXCP)))
    return _ALL


SEM_FLAGS = re.IGNORECASE | re.UNICODE | re.DOTALL | re.ASCII | re.LOCALE


class Atoms:
    """Collects the distinct single-character atoms; each is evaluated by CPython's re itself on
    every code point under the pattern's flags."""

    def __init__(self):
        self.by_key = {}      # (repr(node), flags) -> name
        self.by_set = {}      # tuple(ranges) -> name
        self.defs = []        # (name, ranges, descr)

    def eval_node(self, node, flags):
        flags &= SEM_FLAGS
        key = f'atom|{PYVER}|{node!r}|{int(flags)}'
        got = cache_get(key)
        if got is not None:
            return [tuple(r) for r in got]
        st = P.State()
        st.flags = flags
        sp = P.SubPattern(st, [node])
        pat = _compiler.compile(sp, flags)
        cps = [m.start() for m in pat.finditer(_all_chars())]
        # every match of a one-node pattern has width 1
        rs = ranges_of(cps)
        cache_put(key, rs)
        return rs

    def name_for(self, node, flags, descr=None):
        k = (repr(node), int(flags & SEM_FLAGS))
        if k in self.by_key:
            return self.by_key[k]
        rs = tuple(self.eval_node(node, flags))
        if rs in self.by_set:
            name = self.by_set[rs]
        else:
            name = f'a_{len(self.defs)}'
            self.by_set[rs] = name
            self.defs.append((name, rs, descr or repr(node)))
        self.by_key[k] = name
        return name

    def word(self, flags):
        return self.name_for((C.IN, [(C.CATEGORY, C.CATEGORY_WORD)]), flags, r'\w')

    def space(self, flags):
        return self.name_for((C.IN, [(C.CATEGORY, C.CATEGORY_SPACE)]), flags, r'\s')

    def ranges(self, name):
        for n, rs, _ in self.defs:
            if n == name:
                return rs
        raise KeyError(name)

    def emit(self):
        out = []
        for name, rs, descr in self.defs:
            d = coq_comment(descr)
            out.append(f'(* {d} : {len(rs)} ranges *)\nDefinition {name} : cset := {cset_term(rs)}.\n')
        return '\n'.join(out)


def _seq(items):
    if not items:
        return 'Eps'
    if len(items) == 1:
        return items[0]
    return f'(Seq {items[0]} {_seq(items[1:])})'


def _alt(items):
    if len(items) == 1:
        return items[0]
    return f'(Alt {items[0]} {_alt(items[1:])})'


def _single_set(sub):
    """The body of a look-behind must be exactly one single-character atom."""
    items = list(sub)
    if len(items) != 1:
        return None
    op, av = items[0]
    if op in (C.LITERAL, C.NOT_LITERAL, C.IN, C.ANY):
        return items[0]
    return None


def translate(pattern, flags, atoms):
    """pattern string -> (Coq term of type re, number of groups)."""
    parsed = P.parse(pattern, flags)
    eff = parsed.state.flags
    if (eff & SEM_FLAGS) != ((flags | re.UNICODE) & SEM_FLAGS):
        raise Unsupported(f'inline flags change semantics in {pattern!r}')

    def tr_sub(sub):
        return _seq([tr(node) for node in sub])

    def tr(node):
        op, av = node
        if op in (C.LITERAL, C.NOT_LITERAL, C.IN, C.ANY):
            return f'(Atom {atoms.name_for(node, eff)})'
        if op is C.BRANCH:
            _, branches = av
            return _alt([tr_sub(b) for b in branches])
        if op is C.SUBPATTERN:
            group, add_flags, del_flags, p = av
            if add_flags or del_flags:
                raise Unsupported(f'scoped inline flags in {pattern!r}')
            body = tr_sub(p)
            if group is None:
                return body
            return f'(Group {group} {body})'
        if op in (C.MAX_REPEAT, C.MIN_REPEAT):
            lo, hi, p = av
            greedy = 'true' if op is C.MAX_REPEAT else 'false'
            his = 'None' if hi is C.MAXREPEAT else f'(Some {int(hi)})'
            if int(lo) > 64 or (hi is not C.MAXREPEAT and int(hi) > 64):
                raise Unsupported(f'repeat bound too large in {pattern!r}')
            return f'(Rep {greedy} {int(lo)} {his} {tr_sub(p)})'
        if op is C.GROUPREF:
            if not (eff & re.IGNORECASE):
                raise Unsupported('case-sensitive back-reference (model compares through lower)')
            return f'(Backref {int(av)})'
        if op in (C.ASSERT, C.ASSERT_NOT):
            direction, p = av
            neg = 'true' if op is C.ASSERT_NOT else 'false'
            if direction == 1:
                return f'(Ahead {neg} {tr_sub(p)})'
            one = _single_set(p)
            if one is None:
                raise Unsupported(f'look-behind of width other than one atom in {pattern!r}')
            return f'(Behind {neg} {atoms.name_for(one, eff)})'
        if op is C.AT:
            if av is C.AT_BOUNDARY:
                return f'(Bound {atoms.word(eff)})'
            if av is C.AT_END:
                if eff & re.MULTILINE:
                    raise Unsupported('$ under MULTILINE')
                return 'AtEnd'
            raise Unsupported(f'anchor {av} in {pattern!r}')
        raise Unsupported(f'regex construct {op} in {pattern!r}')

    return tr_sub(parsed), parsed.state.groups
