"""Gen/CallGraph.v: where can the library recurse, and is that inside the RecursionError guard?

Python `ast` over every file of /repo/sqlparse.  Output (plain constructor terms, types in
Sys/Budget.v):

  recursive_functions  every function/method that lies on a cycle of the CONSERVATIVE call graph
                       (calls are resolved by NAME: `x.process(..)` may target every method called
                       `process`; a call through a local variable or parameter is resolved by following
                       the value through the package's call sites -- decorator arguments, literal lists
                       of functions, nested functions and lambdas passed down, `getattr(self, f'prefix..')`
                       -- and, where that fails, may target every function value that escapes anywhere in
                       the package, every lambda and every getattr target; the side file lists the calls
                       that needed the fallback), tagged
                         RecChildren  the cycle has an edge evaluated in a loop over child tokens
                                      (`.tokens`, `get_sublists()`, `list(tlist)`, a stream parameter)
                                      or a `yield from`: recursion on TREE DEPTH
                         RecOther     any other cycle (e.g. ReindentFilter._next_token: BETWEEN chains)
                       and `direct` when a child-loop edge targets a function of the same simple name.
  entry_points         sqlparse.parse / parsestream / split / format and cli.main
  guard                FilterStack.run: its whole body is one `try` whose only handler is
                       `except RecursionError as err: raise SQLParseError(..) from err`
  reach                for every entry point: every call site of the entry function itself
                       (OutsideGuard, with the kind of tree value its arguments can carry) and, when the
                       entry point consumes or returns the generator of FilterStack.run, every call
                       site lexically inside run's `try` (InsideGuard), each with the recursive
                       functions reachable from it.

Fail-closed: every syntactic form in the functions the classification depends on (FilterStack,
the four entry points, cli.main, StatementSplitter.process, utils.recurse) must be one the
translator knows, otherwise `Unsupported` (the generated file is replaced by text that does not
compile).
"""
import ast
import os

from common import Unsupported, HEADER, REPO, assert_repo, coq_comment

PKG = 'sqlparse'
BUILTIN_STR = {'str', 'repr', 'print', 'format', 'ascii'}
BUILTIN_ITER = {'list', 'tuple', 'enumerate', 'iter', 'next', 'sorted', 'reversed', 'any', 'all', 'sum',
                'map', 'filter', 'zip', 'max', 'min', 'set', 'dict', 'frozenset'}
BUILTIN_PLAIN = {'len', 'isinstance', 'issubclass', 'type', 'id', 'int', 'bool', 'float', 'vars', 'locals',
                 'setattr', 'hasattr', 'open', 'super', 'range', 'ord', 'chr', 'abs', 'callable', 'object',
                 'TypeError', 'ValueError', 'NotImplementedError', 'IndexError', 'OSError', 'property',
                 'staticmethod', 'classmethod', 'RecursionError', 'UnicodeDecodeError', 'Exception',
                 'StopIteration', 'AttributeError', 'KeyError', 'SystemExit', 'getattr'}
KNOWN_DECORATORS = {'property', 'staticmethod', 'classmethod', 'contextmanager'}


# ------------------------------------------------------------------------------------------------
class Fn:
    def __init__(self, mod, qual, node, cls=None, parent=None):
        self.mod = mod            # 'sqlparse/engine/grouping.py'
        self.qual = qual          # 'TokenList.flatten' / '_group' / 'group_as.<locals>.match'
        self.node = node
        self.cls = cls            # enclosing class name (methods only)
        self.parent = parent      # enclosing Fn (nested functions and lambdas)
        self.name = node.name if not isinstance(node, ast.Lambda) else '<lambda>'
        self.id = f'{mod}:{qual}'
        self.params = set()
        self.locals = set()
        self.nested = {}          # name -> Fn
        self.is_gen = False
        self.decorators = []
        self.edges = []           # (target id, line, childloop, how)
        self.line = node.lineno

    def __repr__(self):
        return self.id


class Package:
    def __init__(self):
        self.files = {}           # relpath -> ast.Module
        self.fns = {}             # id -> Fn
        self.methods = {}         # simple name -> [Fn]   (methods of any class)
        self.modfuncs = {}        # simple name -> [Fn]   (module-level functions)
        self.classes = {}         # class name -> [(mod, ClassDef)]
        self.modalias = {}        # mod -> set of names bound to package modules / `re`-like modules
        self.extalias = {}        # mod -> names bound to modules outside the package
        self.properties = {}      # attr name -> [Fn]
        self.escaped = set()      # Fn ids whose function VALUE is used other than by calling it
        self.lambdas = []
        self.lambda_of = {}
        self.dyn_fallbacks = []   # (fn id, line, name): calls through a variable resolved to 'anything'
        self.getattr_targets = set()
        self.lazy_stores = []     # (fn id, line, text): generator stored into an attribute


def load_package():
    pk = Package()
    root = os.path.join(REPO, PKG)
    for d, _, fs in sorted(os.walk(root)):
        for f in sorted(fs):
            if not f.endswith('.py'):
                continue
            p = os.path.join(d, f)
            rel = os.path.relpath(p, REPO)
            with open(p, encoding='utf-8') as fh:
                pk.files[rel] = ast.parse(fh.read(), filename=rel)
    if f'{PKG}/engine/filter_stack.py' not in pk.files or f'{PKG}/__init__.py' not in pk.files:
        raise Unsupported('sqlparse/engine/filter_stack.py or sqlparse/__init__.py missing')
    return pk


def own_nodes(fn_node):
    """Nodes of a function body, not descending into nested defs / lambdas / classes
    (comprehensions and generator expressions are part of the function)."""
    body = fn_node.body if isinstance(fn_node.body, list) else [fn_node.body]
    todo = list(body)
    if not isinstance(fn_node, ast.Lambda):
        for a in fn_node.args.defaults + fn_node.args.kw_defaults:
            if a is not None:
                todo.append(a)
    while todo:
        n = todo.pop()
        yield n
        if isinstance(n, (ast.FunctionDef, ast.AsyncFunctionDef, ast.Lambda, ast.ClassDef)):
            continue
        todo.extend(ast.iter_child_nodes(n))


def index(pk):
    for mod, tree in pk.files.items():
        pk.modalias[mod] = set()
        pk.extalias[mod] = set()
        for n in tree.body:
            if isinstance(n, ast.Import):
                for a in n.names:
                    nm = (a.asname or a.name).split('.')[0]
                    (pk.modalias if a.name.split('.')[0] == PKG else pk.extalias)[mod].add(nm)
            elif isinstance(n, ast.ImportFrom):
                frm = n.module or ''
                for a in n.names:
                    nm = a.asname or a.name
                    if frm.split('.')[0] == PKG or n.level:
                        # `from sqlparse import sql` binds a module; `from sqlparse.utils import imt` a function:
                        # both are resolved by simple name below, so record the name as package-bound
                        pk.modalias[mod].add(nm)
                    else:
                        pk.extalias[mod].add(nm)

        def add_fn(node, qual, cls, parent):
            fn = Fn(mod, qual, node, cls, parent)
            if fn.id in pk.fns:
                raise Unsupported(f'duplicate definition {fn.id}')
            pk.fns[fn.id] = fn
            a = node.args
            for x in a.posonlyargs + a.args + a.kwonlyargs:
                fn.params.add(x.arg)
            if a.vararg:
                fn.params.add(a.vararg.arg)
            if a.kwarg:
                fn.params.add(a.kwarg.arg)
            if not isinstance(node, ast.Lambda):
                for d in node.decorator_list:
                    fn.decorators.append(d)
            for n in own_nodes(node):
                if isinstance(n, (ast.Yield, ast.YieldFrom)):
                    fn.is_gen = True
                if isinstance(n, ast.Name) and isinstance(n.ctx, ast.Store):
                    fn.locals.add(n.id)
                if isinstance(n, ast.ExceptHandler) and n.name:
                    fn.locals.add(n.name)
                if isinstance(n, (ast.AsyncFunctionDef, ast.AsyncFor, ast.AsyncWith, ast.Await)):
                    raise Unsupported(f'async construct in {fn.id}')
                if isinstance(n, (ast.Global, ast.Nonlocal)):
                    raise Unsupported(f'global/nonlocal in {fn.id}')
                if isinstance(n, ast.FunctionDef):
                    sub = add_fn(n, f'{qual}.<locals>.{n.name}', None, fn)
                    fn.nested[n.name] = sub
                    fn.locals.discard(n.name)
                if isinstance(n, ast.Lambda):
                    sub = add_fn(n, f'{qual}.<locals>.<lambda>@{n.lineno}:{n.col_offset}', None, fn)
                    pk.lambdas.append(sub)
                    pk.lambda_of[id(n)] = sub
                if isinstance(n, ast.ClassDef):
                    raise Unsupported(f'class defined inside function {fn.id}')
            return fn

        for n in tree.body:
            if isinstance(n, ast.FunctionDef):
                fn = add_fn(n, n.name, None, None)
                pk.modfuncs.setdefault(n.name, []).append(fn)
            elif isinstance(n, ast.ClassDef):
                pk.classes.setdefault(n.name, []).append((mod, n))
                for m in n.body:
                    if isinstance(m, ast.FunctionDef):
                        fn = add_fn(m, f'{n.name}.{m.name}', n.name, None)
                        pk.methods.setdefault(m.name, []).append(fn)
                        for d in m.decorator_list:
                            if isinstance(d, ast.Name) and d.id == 'property':
                                pk.properties.setdefault(m.name, []).append(fn)
                    elif isinstance(m, ast.ClassDef):
                        raise Unsupported(f'nested class {n.name}.{m.name}')
                    elif isinstance(m, ast.Assign):
                        # class attribute bound to a function value (would be callable as a method)
                        if isinstance(m.value, (ast.Lambda,)):
                            raise Unsupported(f'class attribute bound to a lambda in {n.name}')
            elif isinstance(n, (ast.AsyncFunctionDef,)):
                raise Unsupported('async def')
    # module-level code outside defs (executed at import, not by the entry points): lambdas there
    for mod, tree in pk.files.items():
        for n in tree.body:
            if isinstance(n, (ast.FunctionDef, ast.ClassDef)):
                continue
            for x in ast.walk(n):
                if isinstance(x, ast.Lambda):
                    raise Unsupported(f'module-level lambda in {mod}:{x.lineno}')


def class_inits(pk, cname, seen=None):
    """__init__ methods a constructor call C(...) can run: C's own, else its bases' (by name)."""
    seen = seen or set()
    if cname in seen:
        return []
    seen.add(cname)
    out = []
    for mod, c in pk.classes.get(cname, []):
        own = [pk.fns[f'{mod}:{cname}.__init__']] if f'{mod}:{cname}.__init__' in pk.fns else []
        if own:
            out += own
        else:
            for b in c.bases:
                bn = b.attr if isinstance(b, ast.Attribute) else getattr(b, 'id', None)
                if bn:
                    out += class_inits(pk, bn, seen)
    return out


def dunder(pk, name):
    return list(pk.methods.get(name, []))


def root_name(e):
    while isinstance(e, ast.Attribute):
        e = e.value
    return e.id if isinstance(e, ast.Name) else None


def is_local(fn, name):
    f = fn
    while f is not None:
        if name in f.params or name in f.locals:
            return True
        f = f.parent
    return False


def nested_lookup(fn, name):
    f = fn
    while f is not None:
        if name in f.nested:
            return f.nested[name]
        f = f.parent
    return None



def owner_of(fn, name):
    f = fn
    while f is not None:
        if name in f.params or name in f.locals:
            return f
        f = f.parent
    return None


def stores_of(fn, nm):
    return [x for x in own_nodes(fn.node) if isinstance(x, ast.Name) and isinstance(x.ctx, ast.Store) and x.id == nm]


def resolve_value(pk, fn, e, visiting):
    """The package functions an expression used as a callable VALUE can denote (constructors are
    given by their __init__), [] when it can only be a callable from outside the package, None when
    unknown."""
    if isinstance(e, ast.Lambda):
        return [pk.lambda_of[id(e)]]
    if isinstance(e, (ast.List, ast.Tuple)):
        out = []
        for x in e.elts:
            r = resolve_value(pk, fn, x, visiting)
            if r is None:
                return None
            out += r
        return out
    if isinstance(e, ast.Name):
        t = nested_lookup(fn, e.id)
        if t is not None:
            return [t]
        if is_local(fn, e.id):
            return resolve_local(pk, fn, e.id, visiting)
        if e.id in pk.modfuncs:
            return list(pk.modfuncs[e.id])
        if e.id in pk.classes:
            return class_inits(pk, e.id)
        return None
    if isinstance(e, ast.Attribute):
        rn = root_name(e)
        if isinstance(e.value, ast.Name) and e.value.id == 'self' and is_local(fn, 'self'):
            ms = pk.methods.get(e.attr, [])
            return list(ms) if ms else None
        if rn and rn in pk.modalias[fn.mod] and not is_local(fn, rn):
            if e.attr in pk.classes:
                return class_inits(pk, e.attr)
            if e.attr in pk.modfuncs:
                return list(pk.modfuncs[e.attr])
            return None
        if rn and rn in pk.extalias[fn.mod] and not is_local(fn, rn):
            return []
        if isinstance(e.value, ast.Call):
            r2 = root_name(e.value.func)
            if r2 and r2 in pk.extalias[fn.mod] and not is_local(fn, r2):
                return []                                      # re.compile(..).match
        return None
    return None


def resolve_param(pk, o, nm, visiting):
    key = (o.id, nm)
    if key in visiting:
        return []
    visiting = visiting | {key}
    a = o.node.args
    pos = [x.arg for x in a.posonlyargs + a.args]
    if nm not in pos:
        return None
    idx = pos.index(nm)
    if nm == 'cls' and idx == 0 and o.cls and any(isinstance(d, ast.Name) and d.id == 'classmethod' for d in o.decorators):
        return class_inits(pk, o.cls)
    # re-bindings of the parameter may only wrap it:  funcs = (funcs,) / (funcs,) if .. else funcs /
    # [lambda tk: .. for func in funcs]
    extra = []

    def wraps(v):
        if isinstance(v, ast.Name) and v.id == nm:
            return True
        if isinstance(v, (ast.Tuple, ast.List)) and len(v.elts) == 1:
            return wraps(v.elts[0])
        if isinstance(v, ast.IfExp):
            return wraps(v.body) and wraps(v.orelse)
        if isinstance(v, ast.ListComp) and isinstance(v.elt, ast.Lambda) and len(v.generators) == 1 \
                and wraps(v.generators[0].iter):
            extra.append(pk.lambda_of[id(v.elt)])
            return True
        return False
    for x in own_nodes(o.node):
        if isinstance(x, ast.Assign) and any(isinstance(t, ast.Name) and t.id == nm for t in x.targets):
            if not wraps(x.value):
                return None
    if len(stores_of(o, nm)) != sum(1 for x in own_nodes(o.node) if isinstance(x, ast.Assign) and
                                     any(isinstance(t, ast.Name) and t.id == nm for t in x.targets)):
        return None
    is_method = o.cls is not None
    defaults = dict(zip(reversed(pos), reversed(a.defaults)))
    out = list(extra)
    # (a) o is the inner function of a decorator factory:  @dec(...) def g  ==> dec(...)(g)
    if o.parent is not None:
        top = o.parent
        if isinstance(o.node, ast.Lambda) or not (top.parent is None and top.name in pk.modfuncs and idx == 0 and len(pos) == 1):
            return None
        found = False
        for g in pk.fns.values():
            for d in g.decorators:
                if isinstance(d, ast.Call) and isinstance(d.func, ast.Name) and d.func.id == top.name:
                    out.append(g)
                    found = True
        for g in pk.fns.values():                              # the factory is used in no other way
            for x in own_nodes(g.node):
                if isinstance(x, ast.Name) and x.id == top.name and isinstance(x.ctx, ast.Load) \
                        and not is_local(g, top.name):
                    return None
        return out if found else None
    if o.id in pk.escaped:
        return None                                            # taken as a value: callers unknown
    # (b) every package call of o (by name) passes a known function value; callables supplied by user
    #     code to public methods are outside the package
    for g in pk.fns.values():
        for x in own_nodes(g.node):
            if not isinstance(x, ast.Call):
                continue
            f = x.func
            hit = (isinstance(f, ast.Name) and f.id == o.name and not is_local(g, o.name)) or \
                  (isinstance(f, ast.Attribute) and f.attr == o.name)
            if not hit:
                continue
            if any(isinstance(z, ast.Starred) for z in x.args) or any(k.arg is None for k in x.keywords):
                return None
            k = idx - (1 if is_method and isinstance(f, ast.Attribute) else 0)
            arg = None
            if 0 <= k < len(x.args):
                arg = x.args[k]
            else:
                for kw in x.keywords:
                    if kw.arg == nm:
                        arg = kw.value
            if arg is None:
                arg = defaults.get(nm)
                if arg is None:
                    return None
                if isinstance(arg, ast.Constant):
                    continue
                r = resolve_value(pk, o, arg, visiting)
            else:
                r = resolve_value(pk, g, arg, visiting)
            if r is None:
                return None
            out += r
    return out


def resolve_local(pk, fn, nm, visiting):
    """Targets of the local name / parameter nm of fn (or of an enclosing function) used as a callable."""
    o = owner_of(fn, nm)
    if nm in o.params:
        return resolve_param(pk, o, nm, visiting)
    key = (o.id, nm)
    if key in visiting:
        return []
    visiting = visiting | {key}
    out = []
    nstores = len(stores_of(o, nm))
    handled = 0
    for x in own_nodes(o.node):
        if isinstance(x, (ast.For, ast.comprehension)):
            tg = x.target
            if isinstance(tg, ast.Name) and tg.id == nm:
                handled += 1
                r = resolve_value(pk, o, x.iter, visiting)     # a literal list, or a name bound to one
                if r is None:
                    return None
                out += r
            elif isinstance(tg, ast.Tuple) and any(isinstance(t, ast.Name) and t.id == nm for t in tg.elts):
                handled += 1
                i = [isinstance(t, ast.Name) and t.id == nm for t in tg.elts].index(True)
                it = x.iter
                if not (isinstance(it, ast.Attribute) and isinstance(it.value, ast.Name) and it.value.id == 'self' and o.cls):
                    return None
                # every assignment of self.<attr> anywhere: a list comprehension of tuples whose i-th
                # component is a callable from outside the package, or an empty list
                nass = 0
                for g in pk.fns.values():
                    for y in own_nodes(g.node):
                        if isinstance(y, ast.Attribute) and y.attr == it.attr and isinstance(y.ctx, (ast.Store, ast.Del)):
                            asg = [z for z in own_nodes(g.node) if isinstance(z, ast.Assign) and y in z.targets]
                            if len(asg) != 1:
                                return None
                            v = asg[0].value
                            nass += 1
                            if isinstance(v, ast.List) and not v.elts:
                                continue
                            if not (isinstance(v, ast.ListComp) and isinstance(v.elt, ast.Tuple) and i < len(v.elt.elts)):
                                return None
                            r = resolve_value(pk, g, v.elt.elts[i], visiting)
                            if r is None:
                                return None
                            out += r
                if not nass:
                    return None
        elif isinstance(x, ast.Assign) and any(isinstance(t, ast.Name) and t.id == nm for t in x.targets):
            handled += 1
            v = x.value
            if isinstance(v, ast.Call) and isinstance(v.func, ast.Name) and v.func.id == 'getattr' and len(v.args) == 3 \
                    and not is_local(o, 'getattr'):
                r = resolve_value(pk, o, v.args[2], visiting)
                if r is None:
                    return None
                out += [pk.fns[t] for t in sorted(pk.getattr_targets)] + r
            else:
                r = resolve_value(pk, o, v, visiting)
                if r is None:
                    return None
                out += r
    if handled != nstores or not nstores:
        return None
    return out


def resolve_dynamic(pk, fn, nm, dyn_targets):
    return resolve_local(pk, fn, nm, frozenset())



CHILD_ITER_ATTRS = {'tokens', 'get_sublists', 'get_identifiers', 'flatten', 'get_cases'}


def child_loop_lines(fn):
    """line ranges of loops / comprehensions of this function whose iterable ranges over child tokens"""
    spans = []

    def is_child_iter(it):
        for x in ast.walk(it):
            if isinstance(x, ast.Attribute) and x.attr in CHILD_ITER_ATTRS:
                return True
            if isinstance(x, ast.Name) and x.id in fn.params and x.id != 'self':
                return True          # for token in stream / enumerate(list(tlist))
        return False
    for n in own_nodes(fn.node):
        if isinstance(n, ast.For) and is_child_iter(n.iter):
            spans.append((n.lineno, n.end_lineno))
        if isinstance(n, (ast.ListComp, ast.GeneratorExp, ast.SetComp, ast.DictComp)):
            if any(is_child_iter(g.iter) for g in n.generators):
                spans.append((n.lineno, n.end_lineno))
        if isinstance(n, ast.YieldFrom):
            spans.append((n.lineno, n.end_lineno))
    return spans


def build_edges(pk):
    """Conservative call edges of every function."""
    # pass 1: escaping function values and getattr targets
    for fn in pk.fns.values():
        call_funcs = set()
        for n in own_nodes(fn.node):
            if isinstance(n, ast.Call):
                call_funcs.add(id(n.func))
        for n in own_nodes(fn.node):
            if isinstance(n, ast.Call) and isinstance(n.func, ast.Name) and n.func.id == 'getattr':
                if len(n.args) < 2:
                    raise Unsupported(f'getattr with < 2 arguments in {fn.id}:{n.lineno}')
                recv = n.args[0]
                if isinstance(recv, ast.Name) and recv.id == 'str' and not is_local(fn, 'str'):
                    continue                                   # a str method: outside the package
                if isinstance(n.args[1], ast.Constant):
                    for t in pk.methods.get(n.args[1].value, []):
                        pk.getattr_targets.add(t.id)
                    continue
                if not (isinstance(recv, ast.Name) and recv.id == 'self' and fn.cls):
                    raise Unsupported(f'computed getattr on {ast.unparse(recv)} in {fn.id}:{n.lineno}')
                # name = f'<prefix>{...}' [.lower()]
                prefix = None
                nm = n.args[1]
                if isinstance(nm, ast.Call) and isinstance(nm.func, ast.Attribute) and nm.func.attr == 'lower':
                    nm = nm.func.value
                if isinstance(nm, ast.Name):
                    for a in own_nodes(fn.node):
                        if isinstance(a, ast.Assign) and len(a.targets) == 1 and \
                                isinstance(a.targets[0], ast.Name) and a.targets[0].id == nm.id and \
                                isinstance(a.value, ast.JoinedStr) and a.value.values and \
                                isinstance(a.value.values[0], ast.Constant):
                            prefix = a.value.values[0].value
                if not prefix:
                    raise Unsupported(f'computed getattr name without constant prefix in {fn.id}:{n.lineno}')
                found = False
                for ms in pk.methods.values():
                    for t in ms:
                        if t.name.startswith(prefix.lower()):
                            pk.getattr_targets.add(t.id)       # conservatively: in any class
                            found = True
                if not found:
                    raise Unsupported(f'getattr prefix {prefix!r} matches no method ({fn.id})')
            # function values used other than by calling them
            if isinstance(n, ast.Name) and isinstance(n.ctx, ast.Load) and id(n) not in call_funcs:
                t = nested_lookup(fn, n.id)
                if t is not None:
                    pk.escaped.add(t.id)
                elif not is_local(fn, n.id):
                    for t in pk.modfuncs.get(n.id, []):
                        pk.escaped.add(t.id)
            if isinstance(n, ast.Attribute) and isinstance(n.ctx, ast.Load) and id(n) not in call_funcs:
                if n.attr in pk.properties:
                    continue                                   # evaluated: handled as a call in pass 2
                for t in pk.methods.get(n.attr, []):
                    pk.escaped.add(t.id)                       # bound method taken as a value
                rn = root_name(n.value)
                if rn and rn in pk.modalias[fn.mod] and not is_local(fn, rn):
                    for t in pk.modfuncs.get(n.attr, []):
                        pk.escaped.add(t.id)
        # decorated definitions are passed to their decorator
        for d in fn.decorators:
            dn = d.func if isinstance(d, ast.Call) else d
            nm = dn.id if isinstance(dn, ast.Name) else (dn.attr if isinstance(dn, ast.Attribute) else None)
            if nm in KNOWN_DECORATORS:
                continue
            if nm in pk.modfuncs:
                pk.escaped.add(fn.id)
            else:
                raise Unsupported(f'unknown decorator {ast.unparse(d)} on {fn.id}')
    # module-level lists of functions etc. are inside functions already (group()); module-level
    # statements referencing functions as values:
    for mod, tree in pk.files.items():
        for n in tree.body:
            if isinstance(n, (ast.FunctionDef, ast.ClassDef, ast.Import, ast.ImportFrom)):
                continue
            for x in ast.walk(n):
                if isinstance(x, ast.Name) and isinstance(x.ctx, ast.Load):
                    for t in pk.modfuncs.get(x.id, []):
                        pk.escaped.add(t.id)
    dyn_targets = sorted(pk.escaped | pk.getattr_targets | {l.id for l in pk.lambdas})

    # pass 2: edges
    for fn in pk.fns.values():
        loops = child_loop_lines(fn)

        def inloop(n):
            return any(a <= n.lineno <= b for a, b in loops)

        def edge(targets, n, how):
            for t in targets:
                tid = t if isinstance(t, str) else t.id
                fn.edges.append((tid, n.lineno, inloop(n), how, _node_key(n)))

        def callable_name(n, nm, how):
            """targets of calling the plain name nm"""
            t = nested_lookup(fn, nm)
            if t is not None:
                return decorated([t])
            if is_local(fn, nm):
                r = resolve_dynamic(pk, fn, nm, dyn_targets)   # call through a variable / parameter
                if r is None:
                    pk.dyn_fallbacks.append((fn.id, n.lineno, nm))
                    return dyn_targets
                out = []
                for t in r:
                    out += decorated([t])
                return out
            out = list(pk.modfuncs.get(nm, []))
            for _ in pk.classes.get(nm, []):
                out += class_inits(pk, nm)
            return decorated(out)

        def decorated(ts):
            """calling a decorated function runs what its decorator returned: conservatively every
            function nested in the decorator, plus the function itself"""
            out = list(ts)
            for t in ts:
                for d in t.decorators:
                    dn = d.func if isinstance(d, ast.Call) else d
                    nm = dn.id if isinstance(dn, ast.Name) else (dn.attr if isinstance(dn, ast.Attribute) else None)
                    if nm in KNOWN_DECORATORS:
                        continue
                    for dec in pk.modfuncs.get(nm, []):
                        out.append(dec)
                        out += [f for f in pk.fns.values() if f.id.startswith(dec.id + '.<locals>.')]
            return out

        for n in own_nodes(fn.node):
            if isinstance(n, ast.Call):
                f = n.func
                if isinstance(f, ast.Name):
                    nm = f.id
                    if nm in BUILTIN_STR and not is_local(fn, nm) and nm not in pk.modfuncs:
                        edge(dunder(pk, '__str__') + dunder(pk, '__repr__'), n, 'str()')
                    elif nm in BUILTIN_ITER and not is_local(fn, nm) and nm not in pk.modfuncs:
                        edge(dunder(pk, '__iter__') + dunder(pk, '__next__'), n, 'iter()')
                        # map(str, xs): function values among the arguments are called
                        for a in n.args:
                            if isinstance(a, ast.Name) and a.id in BUILTIN_STR and not is_local(fn, a.id):
                                edge(dunder(pk, '__str__') + dunder(pk, '__repr__'), n, 'map(str)')
                            elif isinstance(a, ast.Name) and (nested_lookup(fn, a.id) or a.id in pk.modfuncs):
                                edge(callable_name(n, a.id, 'map(f)'), n, 'map(f)')
                        for k in n.keywords:
                            if isinstance(k.value, (ast.Name, ast.Lambda, ast.Attribute)):
                                edge(dyn_targets, n, 'key=')
                    elif nm == 'len' and not is_local(fn, nm):
                        edge(dunder(pk, '__len__'), n, 'len()')
                    elif nm in BUILTIN_PLAIN and not is_local(fn, nm) and nm not in pk.modfuncs \
                            and nm not in pk.classes:
                        pass
                    else:
                        ts = callable_name(n, nm, 'name')
                        if not ts and not is_local(fn, nm) and nm not in pk.extalias[fn.mod] \
                                and nm not in pk.modalias[fn.mod] and nm not in pk.classes:
                            raise Unsupported(f'call of unknown name {nm} in {fn.id}:{n.lineno}')
                        edge(ts, n, 'name')
                elif isinstance(f, ast.Attribute):
                    recv = f.value
                    rn = root_name(recv)
                    if isinstance(recv, (ast.Constant, ast.JoinedStr)):
                        # a method of a str literal ('..'.join / '..'.format): formatting calls __str__/__repr__
                        edge(dunder(pk, '__str__') + dunder(pk, '__repr__') + dunder(pk, '__iter__'), n, 'str-method')
                    elif rn and rn in pk.extalias[fn.mod] and not is_local(fn, rn):
                        pass                                   # re.search, sys.stderr.write, itertools.islice ...
                    elif rn and rn in pk.modalias[fn.mod] and not is_local(fn, rn):
                        ts = list(pk.modfuncs.get(f.attr, []))
                        for _ in pk.classes.get(f.attr, []):
                            ts += class_inits(pk, f.attr)
                        # a package name can also be an object imported by name (none today): methods too
                        edge(decorated(ts) + pk.methods.get(f.attr, []), n, 'module.attr')
                    else:
                        edge(decorated(list(pk.methods.get(f.attr, []))), n, 'method-by-name')
                elif isinstance(f, (ast.Call, ast.Subscript, ast.Lambda, ast.IfExp, ast.BoolOp)):
                    # recurse(...)(f) style / computed callee
                    edge(dyn_targets, n, 'computed')
                else:
                    raise Unsupported(f'call form {ast.unparse(f)} in {fn.id}:{n.lineno}')
            elif isinstance(n, ast.Attribute) and isinstance(n.ctx, ast.Load) and n.attr in pk.properties:
                edge(pk.properties[n.attr], n, 'property')
            elif isinstance(n, (ast.For, ast.comprehension)):
                it = n.iter
                anchor = n if isinstance(n, ast.For) else it
                edge(dunder(pk, '__iter__') + dunder(pk, '__next__'), anchor, 'for')
            elif isinstance(n, ast.Subscript) and isinstance(n.ctx, ast.Load):
                edge(dunder(pk, '__getitem__'), n, '[]')
            elif isinstance(n, ast.Compare) and any(isinstance(o, (ast.In, ast.NotIn)) for o in n.ops):
                edge(dunder(pk, '__contains__'), n, 'in')
            elif isinstance(n, ast.Compare) and any(isinstance(o, (ast.Eq, ast.NotEq)) for o in n.ops):
                edge(dunder(pk, '__eq__') + dunder(pk, '__ne__'), n, '==')
            elif isinstance(n, ast.FormattedValue):
                edge(dunder(pk, '__str__') + dunder(pk, '__repr__') + dunder(pk, '__format__'), n, 'f-string')
            elif isinstance(n, ast.With):
                edge(dunder(pk, '__enter__') + dunder(pk, '__exit__'), n, 'with')
            elif isinstance(n, ast.Assign) and isinstance(n.value, ast.Call):
                # generator stored into an attribute: evaluated lazily, later, by whoever iterates it
                tgt = n.targets[0]
                if isinstance(tgt, (ast.Attribute, ast.Subscript)):
                    f = n.value.func
                    nm = f.attr if isinstance(f, ast.Attribute) else getattr(f, 'id', None)
                    cands = pk.methods.get(nm, []) + pk.modfuncs.get(nm, [])
                    if any(c.is_gen for c in cands):
                        pk.lazy_stores.append((fn.id, n.lineno, ast.unparse(n)))
    for fn in pk.fns.values():
        seen = set()
        out = []
        for e in fn.edges:
            k = e
            if k not in seen:
                seen.add(k)
                out.append(e)
        fn.edges = out


# ------------------------------------------------------------------------------------------------
def sccs(nodes, succ):
    """Tarjan, iterative."""
    index_of, low, on, stack, out = {}, {}, set(), [], []
    counter = [0]
    for root in nodes:
        if root in index_of:
            continue
        work = [(root, iter(succ(root)))]
        index_of[root] = low[root] = counter[0]
        counter[0] += 1
        stack.append(root)
        on.add(root)
        while work:
            v, it = work[-1]
            adv = False
            for w in it:
                if w not in index_of:
                    index_of[w] = low[w] = counter[0]
                    counter[0] += 1
                    stack.append(w)
                    on.add(w)
                    work.append((w, iter(succ(w))))
                    adv = True
                    break
                elif w in on:
                    low[v] = min(low[v], index_of[w])
            if adv:
                continue
            work.pop()
            if work:
                u = work[-1][0]
                low[u] = min(low[u], low[v])
            if low[v] == index_of[v]:
                comp = []
                while True:
                    w = stack.pop()
                    on.discard(w)
                    comp.append(w)
                    if w == v:
                        break
                out.append(comp)
    return out


def recursive_set(pk):
    ids = sorted(pk.fns)
    succ = {i: sorted({e[0] for e in pk.fns[i].edges if e[0] in pk.fns}) for i in ids}
    comps = sccs(ids, lambda v: succ[v])
    comp_of = {}
    for k, c in enumerate(comps):
        for v in c:
            comp_of[v] = k
    rec = {}
    for c in comps:
        cyc = len(c) > 1 or c[0] in succ[c[0]]
        if not cyc:
            continue
        cs = set(c)
        # does the component contain a child-descending edge?
        desc = False
        for v in c:
            for (t, line, childloop, how, _k) in pk.fns[v].edges:
                if t in cs and childloop:
                    desc = True
        for v in c:
            fn = pk.fns[v]
            direct = any(t in cs and childloop and pk.fns[t].name == fn.name
                         for (t, line, childloop, how, _k) in fn.edges)
            rec[v] = {'children': desc, 'direct': direct, 'scc': comp_of[v], 'scc_size': len(c),
                      'line': fn.line}
    return rec, succ


def reachable_rec(start_ids, succ, rec):
    seen = set()
    todo = list(start_ids)
    while todo:
        v = todo.pop()
        if v in seen:
            continue
        seen.add(v)
        todo.extend(succ.get(v, []))
    return sorted(v for v in seen if v in rec)


# ------------------------------------------------------------------------------------------------
def strip_doc(body):
    if body and isinstance(body[0], ast.Expr) and isinstance(body[0].value, ast.Constant) \
            and isinstance(body[0].value.value, str):
        return body[1:]
    return body


def check_guard(pk):
    """FilterStack: __init__/enable_grouping/run have exactly the shape the classification relies on."""
    mod = f'{PKG}/engine/filter_stack.py'
    need = {f'{mod}:FilterStack.__init__', f'{mod}:FilterStack.enable_grouping', f'{mod}:FilterStack.run'}
    have = {i for i in pk.fns if i.startswith(mod + ':FilterStack.')}
    if have != need:
        raise Unsupported(f'FilterStack methods {sorted(have)}; the classification knows {sorted(need)}')
    init = pk.fns[f'{mod}:FilterStack.__init__'].node
    src = [ast.unparse(s) for s in strip_doc(init.body)]
    if src != ['self.preprocess = []', 'self.stmtprocess = []', 'self.postprocess = []',
               'self._grouping = False',
               'if strip_semicolon:\n    self.stmtprocess.append(StripTrailingSemicolonFilter())']:
        raise Unsupported('FilterStack.__init__ changed: ' + ' | '.join(src))
    eg = [ast.unparse(s) for s in strip_doc(pk.fns[f'{mod}:FilterStack.enable_grouping'].node.body)]
    if eg != ['self._grouping = True']:
        raise Unsupported('FilterStack.enable_grouping changed')
    # `_grouping` is written nowhere else
    for fn in pk.fns.values():
        for n in own_nodes(fn.node):
            if isinstance(n, ast.Attribute) and n.attr == '_grouping' and isinstance(n.ctx, ast.Store) \
                    and fn.id not in (f'{mod}:FilterStack.__init__', f'{mod}:FilterStack.enable_grouping'):
                raise Unsupported(f'_grouping assigned in {fn.id}')
    run = pk.fns[f'{mod}:FilterStack.run'].node
    body = strip_doc(run.body)
    if len(body) != 1 or not isinstance(body[0], ast.Try):
        raise Unsupported('FilterStack.run: the body is not a single try statement')
    t = body[0]
    if t.orelse or t.finalbody or len(t.handlers) != 1:
        raise Unsupported('FilterStack.run: try has else/finally or several handlers')
    h = t.handlers[0]
    if not (isinstance(h.type, ast.Name) and h.type.id == 'RecursionError'):
        raise Unsupported('FilterStack.run: handler is not `except RecursionError`')
    if len(h.body) != 1 or not isinstance(h.body[0], ast.Raise) or \
            not (isinstance(h.body[0].exc, ast.Call) and ast.unparse(h.body[0].exc.func) == 'SQLParseError'):
        raise Unsupported('FilterStack.run: handler does not raise SQLParseError')
    for a in h.body[0].exc.args:
        if not isinstance(a, ast.Constant):
            raise Unsupported('FilterStack.run: SQLParseError(..) argument is computed inside the handler')
    if not pk.fns[f'{mod}:FilterStack.run'].is_gen:
        raise Unsupported('FilterStack.run is not a generator')
    # exactly one yield, of `stmt`, inside the try; grouping only under `if self._grouping`
    ys = [n for n in ast.walk(t) if isinstance(n, (ast.Yield, ast.YieldFrom))]
    if len(ys) != 1 or not isinstance(ys[0], ast.Yield) or ast.unparse(ys[0].value) != 'stmt':
        raise Unsupported('FilterStack.run: expected exactly one `yield stmt`')
    grp_calls = [n for n in ast.walk(t) if isinstance(n, ast.Call) and ast.unparse(n.func) == 'grouping.group']
    ifs = [n for n in ast.walk(t) if isinstance(n, ast.If) and ast.unparse(n.test) == 'self._grouping']
    if len(grp_calls) != 1 or len(ifs) != 1 or grp_calls[0] not in list(ast.walk(ifs[0])):
        raise Unsupported('FilterStack.run: grouping.group is not called exactly once under `if self._grouping`')
    # SQLParseError / RecursionError are the expected names
    modtree = pk.files[mod]
    imp = [ast.unparse(n) for n in modtree.body if isinstance(n, ast.ImportFrom)]
    if 'from sqlparse.exceptions import SQLParseError' not in imp:
        raise Unsupported('filter_stack does not import SQLParseError from sqlparse.exceptions')
    return t


def check_splitter_flat(pk):
    """StatementSplitter.process yields sql.Statement(self.tokens) and self.tokens only ever receives
    sql.Token(..) leaves: an ungrouped statement has depth 1."""
    mod = f'{PKG}/engine/statement_splitter.py'
    p = pk.fns.get(f'{mod}:StatementSplitter.process')
    if p is None:
        raise Unsupported('StatementSplitter.process not found')
    for n in ast.walk(p.node):
        if isinstance(n, ast.Yield) and ast.unparse(n.value) != 'sql.Statement(self.tokens)':
            raise Unsupported('StatementSplitter.process yields ' + ast.unparse(n.value))
    for fn in pk.fns.values():
        if not fn.id.startswith(mod + ':'):
            continue
        for n in own_nodes(fn.node):
            if isinstance(n, ast.Call) and isinstance(n.func, ast.Attribute) and \
                    ast.unparse(n.func.value) == 'self.tokens':
                if n.func.attr != 'append' or len(n.args) != 1 or \
                        not (isinstance(n.args[0], ast.Call) and ast.unparse(n.args[0].func) == 'sql.Token'):
                    raise Unsupported(f'{fn.id}: self.tokens.{n.func.attr}({ast.unparse(n.args[0]) if n.args else ""})')
            if isinstance(n, ast.Assign) and any(ast.unparse(t) == 'self.tokens' for t in n.targets) \
                    and ast.unparse(n.value) != '[]':
                raise Unsupported(f'{fn.id}: self.tokens = {ast.unparse(n.value)}')
    # the only statement filter of a non-grouping split() stack creates no group
    stf = pk.fns.get(f'{PKG}/filters/others.py:StripTrailingSemicolonFilter.process')
    if stf is None:
        raise Unsupported('StripTrailingSemicolonFilter.process not found')
    for n in own_nodes(stf.node):
        if isinstance(n, ast.Call):
            txt = ast.unparse(n.func)
            if txt not in ('stmt.tokens.pop',):
                raise Unsupported(f'StripTrailingSemicolonFilter.process calls {txt}')


K_NONE, K_OPTION, K_FLAT, K_DEEP = 'KNone', 'KCallerOption', 'KFlatStmt', 'KDeepTree'
KRANK = {K_NONE: 0, K_OPTION: 1, K_FLAT: 2, K_DEEP: 3}


def analyse_entry(pk, fn, ename, entry_returns_gen):
    """Call sites of one entry function.  Returns (sites, consumes_run, returns)."""
    stackvars = {}            # name -> 'plain' | 'options'
    grouping = {}             # name -> bool (enable_grouping called)
    serial = {}               # name -> SerializerUnicode appended to postprocess
    kinds = {}                # variable -> kind
    for p in fn.params:
        kinds[p] = K_OPTION if p in ('options', 'args') else K_NONE
    sites = []
    consumes = False
    returns = 'KNone'
    init_mod = f'{PKG}/__init__.py'

    def is_run(e):
        return isinstance(e, ast.Call) and isinstance(e.func, ast.Attribute) and e.func.attr == 'run' \
            and isinstance(e.func.value, ast.Name) and e.func.value.id in stackvars

    def is_genentry(e):
        return isinstance(e, ast.Call) and isinstance(e.func, ast.Name) and e.func.id in entry_returns_gen \
            and fn.mod == init_mod and not is_local(fn, e.func.id)

    def elem_kind(e):
        if is_genentry(e):
            return entry_returns_gen[e.func.id]
        sv = e.func.value.id
        if serial.get(sv):
            return K_NONE                                      # SerializerUnicode.process returns a str
        if grouping.get(sv) or stackvars[sv] == 'options':
            return K_DEEP
        return K_FLAT

    def kind_of(e, env):
        k = K_NONE
        for x in ast.walk(e):
            if isinstance(x, ast.Name) and isinstance(x.ctx, ast.Load):
                kk = env.get(x.id, kinds.get(x.id, K_NONE))
                if KRANK[kk] > KRANK[k]:
                    k = kk
        return k

    gens_seen = []

    def visit_expr(e, env, lineno_stmt):
        """emit sites for every call in expression e (outside the guard), handling the consumption forms"""
        nonlocal consumes
        if e is None:
            return
        # consumption forms
        if isinstance(e, ast.Call):
            g = None
            how = None
            if isinstance(e.func, ast.Name) and e.func.id in ('tuple', 'list') and len(e.args) == 1 \
                    and (is_run(e.args[0]) or is_genentry(e.args[0])):
                g, how = e.args[0], e.func.id + '(..)'
            if isinstance(e.func, ast.Attribute) and e.func.attr == 'join' and isinstance(e.func.value, ast.Constant) \
                    and len(e.args) == 1 and (is_run(e.args[0]) or is_genentry(e.args[0])):
                g, how = e.args[0], "''.join(..)"
            if g is not None:
                consumes = True
                gens_seen.append(g)
                sites.append({'line': e.lineno, 'expr': ast.unparse(e), 'pos': 'InsideGuard', 'kind': K_NONE,
                              'callee': ['@run'], 'how': 'iterates the generator of FilterStack.run: ' + how})
                for a in g.args:
                    visit_expr(a, env, lineno_stmt)
                return
        if isinstance(e, (ast.ListComp, ast.GeneratorExp, ast.SetComp)):
            env2 = dict(env)
            for gen in e.generators:
                if is_run(gen.iter) or is_genentry(gen.iter):
                    consumes = True
                    gens_seen.append(gen.iter)
                    if not isinstance(gen.target, ast.Name):
                        raise Unsupported(f'{fn.id}: comprehension target {ast.unparse(gen.target)}')
                    env2[gen.target.id] = elem_kind(gen.iter)
                    sites.append({'line': gen.iter.lineno, 'expr': 'for %s in %s' % (gen.target.id, ast.unparse(gen.iter)),
                                  'pos': 'InsideGuard', 'kind': K_NONE, 'callee': ['@run'],
                                  'how': 'iterates the generator of FilterStack.run: comprehension'})
                    for a in gen.iter.args:
                        visit_expr(a, env2, lineno_stmt)
                else:
                    visit_expr(gen.iter, env2, lineno_stmt)
                    for t in ast.walk(gen.target):
                        if isinstance(t, ast.Name):
                            env2[t.id] = kind_of(gen.iter, env2)
                for c in gen.ifs:
                    visit_expr(c, env2, lineno_stmt)
            visit_expr(e.elt, env2, lineno_stmt)
            return
        if is_run(e) or is_genentry(e):
            raise Unsupported(f'{fn.id}:{e.lineno}: generator of run() used in an unknown way')
        if isinstance(e, ast.Call):
            callee = e.func
            k = K_NONE
            for a in list(e.args) + [kw.value for kw in e.keywords]:
                kk = kind_of(a, env)
                if KRANK[kk] > KRANK[k]:
                    k = kk
            if isinstance(callee, ast.Attribute):
                kk = kind_of(callee.value, env)
                if KRANK[kk] > KRANK[k]:
                    k = kk
            sites.append({'line': e.lineno, 'expr': ast.unparse(e), 'pos': 'OutsideGuard', 'kind': k,
                          'callee_node': e, 'how': 'evaluated by the entry function itself'})
            if isinstance(callee, ast.Attribute):
                visit_expr(callee.value, env, lineno_stmt)
            for a in e.args:
                visit_expr(a.value if isinstance(a, ast.Starred) else a, env, lineno_stmt)
            for kw in e.keywords:
                visit_expr(kw.value, env, lineno_stmt)
            return
        if isinstance(e, ast.JoinedStr):
            for v in e.values:
                if isinstance(v, ast.FormattedValue):
                    k = kind_of(v.value, env)
                    sites.append({'line': v.lineno, 'expr': 'f"{%s}"' % ast.unparse(v.value), 'pos': 'OutsideGuard',
                                  'kind': k, 'callee': ['@str'], 'how': 'f-string placeholder'})
                    visit_expr(v.value, env, lineno_stmt)
            return
        if isinstance(e, ast.Lambda):
            raise Unsupported(f'{fn.id}: lambda in an entry point')
        for c in ast.iter_child_nodes(e):
            if isinstance(c, ast.expr):
                visit_expr(c, env, lineno_stmt)

    def assign_kind(target, value, env):
        if isinstance(target, ast.Name):
            if isinstance(value, ast.Call) and isinstance(value.func, ast.Name) and value.func.id in ('tuple', 'list') \
                    and value.args and (is_run(value.args[0]) or is_genentry(value.args[0])):
                kinds[target.id] = elem_kind(value.args[0])
            elif isinstance(value, ast.Call) and ast.unparse(value.func) == "''.join":
                kinds[target.id] = K_NONE
            else:
                kinds[target.id] = kind_of(value, env)

    def visit_stmt(s):
        nonlocal returns, consumes
        if isinstance(s, ast.Assign):
            if len(s.targets) != 1:
                raise Unsupported(f'{fn.id}:{s.lineno}: multiple assignment targets')
            tgt, v = s.targets[0], s.value
            # stack = engine.FilterStack(..)
            if isinstance(tgt, ast.Name) and isinstance(v, ast.Call) and ast.unparse(v.func) == 'engine.FilterStack':
                stackvars[tgt.id] = 'plain'
                grouping[tgt.id] = False
                serial[tgt.id] = False
            elif isinstance(tgt, ast.Name) and isinstance(v, ast.Call) and \
                    ast.unparse(v.func) == 'formatter.build_filter_stack':
                if not (v.args and isinstance(v.args[0], ast.Name) and v.args[0].id in stackvars):
                    raise Unsupported(f'{fn.id}:{s.lineno}: build_filter_stack on an unknown stack')
                stackvars[tgt.id] = 'options'
                grouping.setdefault(tgt.id, False)
                serial[tgt.id] = False
            visit_expr(v, {}, s.lineno)
            assign_kind(tgt, v, {})
            if not isinstance(tgt, ast.Name):
                visit_expr(tgt, {}, s.lineno)
        elif isinstance(s, ast.Expr):
            v = s.value
            if isinstance(v, ast.Call) and isinstance(v.func, ast.Attribute) and isinstance(v.func.value, ast.Name) \
                    and v.func.value.id in stackvars and v.func.attr == 'enable_grouping':
                grouping[v.func.value.id] = True
            if isinstance(v, ast.Call) and ast.unparse(v.func).endswith('.postprocess.append') and \
                    root_name(v.func) in stackvars:
                if len(v.args) == 1 and ast.unparse(v.args[0]) == 'filters.SerializerUnicode()':
                    serial[root_name(v.func)] = True
                else:
                    raise Unsupported(f'{fn.id}:{s.lineno}: postprocess.append({ast.unparse(v.args[0])})')
            visit_expr(v, {}, s.lineno)
        elif isinstance(s, ast.Return):
            if s.value is not None and is_run(s.value):
                returns = 'gen:' + elem_kind(s.value)
                gens_seen.append(s.value)
                sites.append({'line': s.lineno, 'expr': ast.unparse(s.value), 'pos': 'InsideGuard', 'kind': K_NONE,
                              'callee': ['@run'], 'how': 'returns the generator of FilterStack.run unevaluated: '
                                                         'its body runs when the CALLER iterates it'})
                for a in s.value.args:
                    visit_expr(a, {}, s.lineno)
            else:
                visit_expr(s.value, {}, s.lineno)
                if s.value is not None:
                    # kind of the returned value
                    v = s.value
                    if isinstance(v, ast.Call) and isinstance(v.func, ast.Name) and v.func.id in ('tuple', 'list') and \
                            v.args and (is_run(v.args[0]) or is_genentry(v.args[0])):
                        returns = elem_kind(v.args[0])
                    elif isinstance(v, (ast.ListComp,)):
                        returns = K_NONE if isinstance(v.elt, ast.Call) and ast.unparse(v.elt.func).startswith('str(') \
                            else kind_of(v, kinds)
                    else:
                        returns = kind_of(v, kinds) if not (isinstance(v, ast.Call) and
                                                            ast.unparse(v.func) == "''.join") else K_NONE
        elif isinstance(s, ast.If):
            visit_expr(s.test, {}, s.lineno)
            for x in s.body + s.orelse:
                visit_stmt(x)
        elif isinstance(s, ast.Try):
            for x in s.body + s.orelse + s.finalbody:
                visit_stmt(x)
            for h in s.handlers:
                if h.type is not None and 'RecursionError' in ast.unparse(h.type):
                    raise Unsupported(f'{fn.id}: an entry point handles RecursionError itself')
                if h.type is None or ast.unparse(h.type) in ('Exception', 'BaseException', 'RuntimeError'):
                    raise Unsupported(f'{fn.id}: an entry point has a catch-all handler')
                if h.name:
                    kinds[h.name] = K_NONE                     # an exception object
                for x in h.body:
                    visit_stmt(x)
        elif isinstance(s, ast.With):
            for it in s.items:
                visit_expr(it.context_expr, {}, s.lineno)
                if it.optional_vars is not None and isinstance(it.optional_vars, ast.Name):
                    kinds[it.optional_vars.id] = K_NONE
            for x in s.body:
                visit_stmt(x)
        elif isinstance(s, ast.Pass):
            pass
        else:
            raise Unsupported(f'{fn.id}:{s.lineno}: statement form {type(s).__name__} in an entry point')

    for s in strip_doc(fn.node.body):
        visit_stmt(s)
    return sites, consumes or returns.startswith('gen:'), returns


def guard_sites(pk, trynode, runfn):
    """call sites lexically inside the try of FilterStack.run"""
    out = []
    todo = list(trynode.body)
    while todo:
        n = todo.pop()
        if isinstance(n, ast.Call):
            out.append({'line': n.lineno, 'expr': ast.unparse(n), 'pos': 'InsideGuard', 'kind': K_DEEP,
                        'callee_node': n, 'how': 'lexically inside the try of FilterStack.run'})
        if isinstance(n, ast.For):
            out.append({'line': n.lineno, 'expr': 'for %s in %s' % (ast.unparse(n.target), ast.unparse(n.iter)),
                        'pos': 'InsideGuard', 'kind': K_DEEP, 'callee': ['@iter'],
                        'how': 'resumes the lexer / pre-filters / splitter generators; lexically inside the try'})
        todo.extend(ast.iter_child_nodes(n))
    out.sort(key=lambda s: (s['line'], s['expr']))
    return out


def generate():
    assert_repo()
    pk = load_package()
    index(pk)
    build_edges(pk)
    rec, succ = recursive_set(pk)
    trynode = check_guard(pk)
    check_splitter_flat(pk)

    def reach_of_expr(fn, expr_node):
        return reachable_rec([t for t in _starts(fn, expr_node) if t in pk.fns], succ, rec)

    rec_ids = sorted(rec)
    rec_index = {v: k for k, v in enumerate(rec_ids)}
    str_targets = [f.id for f in dunder(pk, '__str__') + dunder(pk, '__repr__') + dunder(pk, '__format__')]
    iter_targets = [f.id for f in dunder(pk, '__iter__') + dunder(pk, '__next__')]

    init_mod = f'{PKG}/__init__.py'
    entries = [('EParse', f'{init_mod}:parse'), ('EParsestream', f'{init_mod}:parsestream'),
               ('ESplit', f'{init_mod}:split'), ('EFormat', f'{init_mod}:format'),
               ('ECliMain', f'{PKG}/cli.py:main')]
    for _, fid in entries:
        if fid not in pk.fns:
            raise Unsupported(f'entry point {fid} not found')
    extra_pub = sorted(n for n, fs in pk.modfuncs.items() if any(f.mod == init_mod for f in fs))
    if extra_pub != ['format', 'parse', 'parsestream', 'split']:
        raise Unsupported(f'sqlparse/__init__.py defines {extra_pub}: the entry point list is out of date')

    runfn = pk.fns[f'{PKG}/engine/filter_stack.py:FilterStack.run']
    gsites = guard_sites(pk, trynode, runfn)
    for s in gsites:
        if 'callee_node' in s:
            s['reach'] = reach_of_expr(runfn, s['callee_node'])
        else:
            s['reach'] = reachable_rec(iter_targets + [
                # resuming `stream` runs the generator bodies created by the calls above
                t for g in gsites if 'callee_node' in g for t in _starts(runfn, g['callee_node'])], succ, rec)
        s['file'] = runfn.mod

    all_sites = []
    returns = {}
    entry_returns_gen = {}
    # parsestream first: parse consumes it
    order = sorted(entries, key=lambda e: 0 if e[0] == 'EParsestream' else 1)
    per_entry = {}
    for ename, fid in order:
        fn = pk.fns[fid]
        sites, uses_run, ret = analyse_entry(pk, fn, ename, entry_returns_gen)
        if ret.startswith('gen:'):
            entry_returns_gen[fn.name] = ret[4:]
        returns[ename] = ret
        for s in sites:
            s['file'] = fn.mod
            if 'callee_node' in s:
                s['reach'] = reach_of_expr(fn, s['callee_node'])
            elif s.get('callee') == ['@str']:
                s['reach'] = reachable_rec(str_targets, succ, rec)
            else:
                s['reach'] = []      # '@run': accounted for by the sites inside run below
        # cli.main reaches run through sqlparse.format
        calls_format = any('callee_node' in s and ast.unparse(s['callee_node'].func) in ('sqlparse.format',)
                           for s in sites)
        if ename == 'ECliMain':
            if not calls_format:
                raise Unsupported('cli.main does not call sqlparse.format')
            # the call of the entry point format is classified under EFormat: drop its reach here
            for s in sites:
                if 'callee_node' in s and ast.unparse(s['callee_node'].func) == 'sqlparse.format':
                    s['reach'] = []
                    s['how'] = 'calls the entry point sqlparse.format (its sites are listed under EFormat)'
            uses_run = True
        per_entry[ename] = (sites, uses_run)
    for ename, fid in entries:
        sites, uses_run = per_entry[ename]
        for s in sites:
            all_sites.append(dict(s, entry=ename))
        if uses_run and ename != 'ECliMain':
            for s in gsites:
                all_sites.append(dict(s, entry=ename))
    if not all(per_entry[e][1] for e, _ in entries):
        raise Unsupported('an entry point does not go through FilterStack.run')

    # lazily stored generators: must not be reachable from grouping.group (parse/parsestream return trees)
    grp_reach = set()
    todo = [f.id for f in pk.modfuncs.get('group', [])]
    while todo:
        v = todo.pop()
        if v in grp_reach:
            continue
        grp_reach.add(v)
        todo.extend(succ.get(v, []))
    lazy_in_group = [l for l in pk.lazy_stores if l[0] in grp_reach and not l[0].startswith(f'{PKG}/filters/')]

    # ---- emit
    def q(s):
        return '"' + str(s).replace('"', "'") + '"'

    def short(fid):
        return fid[len(PKG) + 1:]

    out = [HEADER, 'From Coq Require Import List String NArith.', 'From SqlModel Require Import Budget.',
           'Import ListNotations.', 'Open Scope string_scope.', '',
           '(* functions on a cycle of the conservative call graph; RecChildren: the cycle descends into child',
           '   token lists (recursion on tree depth); direct: it calls a same-named function on a child *)',
           'Definition recursive_functions : list recfun := [']
    lines = []
    for k, v in enumerate(rec_ids):
        r = rec[v]
        lines.append('  mk_recfun %d%%N %s %s %s %d%%N' % (
            k, q(short(v)), 'RecChildren' if r['children'] else 'RecOther',
            'true' if r['direct'] else 'false', r['line']))
    out.append(';\n'.join(lines) + '\n].\n')
    out.append('Definition entry_points : list (entry * string) := [')
    out.append(';\n'.join('  (%s, %s)' % (e, q(short(f))) for e, f in entries) + '\n].\n')
    out.append('(* entry points that only call another entry point *)')
    out.append('Definition delegates : list (entry * entry) := [(ECliMain, EFormat)].\n')
    out.append('(* what each entry point hands back to its caller (operations on it are the caller\'s, outside the guard) *)')
    out.append('Definition returned : list (entry * retkind) := [')

    def retk(r):
        if r.startswith('gen:'):
            return 'RGenerator ' + r[4:]
        return 'RValue ' + r
    out.append(';\n'.join('  (%s, %s)' % (e, retk(returns[e])) for e, _ in entries) + '\n].\n')
    out.append('(* FilterStack.run verified: single try, single handler `except RecursionError` raising SQLParseError,')
    out.append('   one `yield stmt`, grouping.group only under `if self._grouping`; StatementSplitter yields flat')
    out.append('   sql.Statement(list of sql.Token) *)')
    out.append('Definition guard_shape_checked : bool := true.\n')
    out.append('Definition lazy_generators_stored_by_grouping : list string := [' +
               '; '.join(q(short(l[0]) + ':' + str(l[1])) for l in lazy_in_group) + '].\n')
    # reach sets are shared by many sites: name them
    rsets = {}
    for st in all_sites:
        key = tuple(rec_index[r] for r in st['reach'])
        if key and key not in rsets:
            rsets[key] = 'reach_set_%d' % len(rsets)
    for key, nm in rsets.items():
        out.append('Definition %s : list N := [%s]%%N.' % (nm, '; '.join(str(i) for i in key)))
    out.append('')
    out.append('Definition reach : list site := [')
    lines = []
    for st in all_sites:
        key = tuple(rec_index[r] for r in st['reach'])
        lines.append('  mk_site %s %s %d%%N %s %s %s  (* %s *)' % (
            st['entry'], q(short(st['file'])), st['line'], st['pos'], st['kind'],
            rsets[key] if key else '[]', coq_comment(st['expr'])[:110]))
    out.append(';\n'.join(lines) + '\n].\n')
    out.append('(* state that outlives a call: attributes of classes / modules assigned inside functions *)')
    out.append('Definition persistent_state : list string := [' + '; '.join(q(x) for x in persistent_state(pk)) + '].')
    out.append('Definition persistent_state_attrs : list string := [' +
               '; '.join(q(x) for x in persistent_state(pk, lines=False)) + '].')
    out.append('(* ... assigned BEFORE a later statement of the same block that contains a call: if that call raises, the')
    out.append('   half-initialised value stays visible to every later call of the process *)')
    out.append('Definition persistent_state_published_early : list string := [' +
               '; '.join(q(x) for x in persistent_state(pk, early=True)) + '].\n')

    side = {
        'recursive_functions': [dict(id=v, index=k, **rec[v]) for k, v in enumerate(rec_ids)],
        'entries': dict((e, f) for e, f in entries),
        'returns': returns,
        'sites': [{k: v for k, v in s.items() if k != 'callee_node'} for s in all_sites],
        'lazy_stores': pk.lazy_stores,
        'escaped_function_values': sorted(pk.escaped),
        'getattr_targets': sorted(pk.getattr_targets),
        'edges': {f.id: sorted({(t, ln, cl, how) for (t, ln, cl, how, _k) in f.edges}) for f in pk.fns.values() if f.edges},
        'n_functions': len(pk.fns),
        'persistent_state': persistent_state(pk),
        'persistent_state_published_early': persistent_state(pk, early=True),
        'dynamic_calls_unresolved': pk.dyn_fallbacks,
    }
    return {'CallGraph.v': '\n'.join(out)}, side


def persistent_state(pk, early=False, lines=True):
    """attributes of classes / modules assigned inside functions (state that outlives a call).
    early=True: only those followed, in the same block, by a statement containing a call -- the new value
    is visible to later calls even when that call raises (e.g. RecursionError)."""
    out = []
    for fn in pk.fns.values():
        blocks = []
        for n in [fn.node] + [x for x in own_nodes(fn.node)]:
            for fld in ('body', 'orelse', 'finalbody'):
                b = getattr(n, fld, None)
                if isinstance(b, list) and b and isinstance(b[0], ast.stmt):
                    blocks.append(b)
        for b in blocks:
            for i, st in enumerate(b):
                if not isinstance(st, (ast.Assign, ast.AugAssign, ast.AnnAssign)):
                    continue
                tgts = st.targets if isinstance(st, ast.Assign) else [st.target]
                for n in tgts:
                    if not isinstance(n, ast.Attribute):
                        continue
                    rn = root_name(n)
                    if rn == 'cls' or (rn in pk.classes and not is_local(fn, rn)) or \
                            (rn in pk.modalias[fn.mod] and not is_local(fn, rn)):
                        later_call = any(isinstance(x, ast.Call) for s2 in b[i + 1:] for x in ast.walk(s2))
                        if early and not later_call:
                            continue
                        out.append(('%s:%d %s' if lines else '%s %s') % (
                            (fn.id[len(PKG) + 1:], n.lineno, ast.unparse(n)) if lines else
                            (fn.id[len(PKG) + 1:], ast.unparse(n))))
    return sorted(set(out))


def _node_key(x):
    return (x.lineno, getattr(x, 'col_offset', -1), type(x).__name__)


def _starts(fn, expr_node):
    inside = {_node_key(x) for x in ast.walk(expr_node) if hasattr(x, 'lineno')}
    return sorted({e[0] for e in fn.edges if e[4] in inside})


if __name__ == '__main__':
    files, side = generate()
    print(files['CallGraph.v'])
