"""Gen/SplitRx.v: the regex ASTs of utils.SPLIT_REGEX and utils.LINE_MATCH (what the serializer
`SerializerUnicode` / `split_unquoted_newlines` consults), with their own atom tables.

Fail closed when: the compiled patterns carry flags other than VERBOSE|UNICODE / UNICODE, do not have
exactly one capturing group spanning the whole pattern, or the bodies of `split_unquoted_newlines` /
`SerializerUnicode.process` no longer have the shape the hand-written model (Filters/Serializer.v)
was written against."""
import ast
import inspect
import re
import textwrap

from common import coq_comment, Unsupported, GEN, HEADER, write_if_changed, assert_repo
import rx

EXPECTED_SUN = ("text = str(stmt)|lines = SPLIT_REGEX.split(text)|outputlines = ['']|for line in lines:\n"
                "    if not line:\n        continue\n    elif LINE_MATCH.match(line):\n"
                "        outputlines.append('')\n    else:\n        outputlines[-1] += line|return outputlines")
EXPECTED_SER = "lines = split_unquoted_newlines(stmt)|return '\\n'.join((line.rstrip() for line in lines))"


def norm_body(fn):
    """Statements of a function body (docstring dropped), unparsed and joined by '|'."""
    src = textwrap.dedent(inspect.getsource(fn))
    t = ast.parse(src).body[0]
    body = t.body
    if body and isinstance(body[0], ast.Expr) and isinstance(body[0].value, ast.Constant) \
            and isinstance(body[0].value.value, str):
        body = body[1:]
    return '|'.join(ast.unparse(s) for s in body)


def generate():
    assert_repo()
    from sqlparse import utils
    from sqlparse.filters import others
    got = norm_body(utils.split_unquoted_newlines)
    if got != EXPECTED_SUN:
        raise Unsupported('utils.split_unquoted_newlines changed shape: ' + got, 'sqlparse/utils.py')
    got = norm_body(others.SerializerUnicode.process)
    if got != EXPECTED_SER:
        raise Unsupported('SerializerUnicode.process changed shape: ' + got, 'sqlparse/filters/others.py')
    if others.split_unquoted_newlines is not utils.split_unquoted_newlines:
        raise Unsupported('filters.others does not use utils.split_unquoted_newlines')
    sr, lm = utils.SPLIT_REGEX, utils.LINE_MATCH
    if not isinstance(sr, re.Pattern) or not isinstance(lm, re.Pattern):
        raise Unsupported('SPLIT_REGEX / LINE_MATCH are not compiled patterns')
    if sr.flags != (re.VERBOSE | re.UNICODE) or lm.flags != re.UNICODE:
        raise Unsupported(f'flags of SPLIT_REGEX/LINE_MATCH: {sr.flags!r} {lm.flags!r}')
    if sr.groups != 1 or lm.groups != 1:
        raise Unsupported('SPLIT_REGEX / LINE_MATCH must have exactly one capturing group')
    atoms = rx.Atoms()
    t_split, g1 = rx.translate(sr.pattern, sr.flags, atoms)
    t_line, g2 = rx.translate(lm.pattern, lm.flags, atoms)
    if not t_split.startswith('(Group 1 ') or not t_line.startswith('(Group 1 '):
        raise Unsupported('the capturing group of SPLIT_REGEX / LINE_MATCH does not span the whole pattern')

    def ren(s):
        return re.sub(r'\ba_(\d+)\b', r'sx_\1', s)

    out = [HEADER, 'From SqlModel Require Import Base Re.\n',
           ren(atoms.emit()),
           f'(* utils.SPLIT_REGEX (flags {sr.flags!r}): {coq_comment(" ".join(sr.pattern.split()))} *)',
           f'Definition split_regex : re := {ren(t_split)}.\n',
           f'(* utils.LINE_MATCH: {coq_comment(lm.pattern)} *)',
           f'Definition line_match_regex : re := {ren(t_line)}.\n',
           '(* the quote characters SPLIT_REGEX treats as string delimiters, CR and LF *)',
           "Definition sx_squote : N := 39%N.  Definition sx_dquote : N := 34%N.",
           "Definition sx_bslash : N := 92%N.  Definition sx_cr : N := 13%N.  Definition sx_lf : N := 10%N.",
           '']
    side = {'split_regex': sr.pattern, 'line_match': lm.pattern, 'flags': [int(sr.flags), int(lm.flags)]}
    return {'SplitRx.v': '\n'.join(out)}, side


if __name__ == '__main__':
    files, side = generate()
    for name, content in files.items():
        ch = write_if_changed(f'{GEN}/{name}', content)
        print(name, 'changed' if ch else 'same', len(content))
