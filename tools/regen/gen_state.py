"""Gen/StateInv.v: the inventory of PERSISTENT MUTABLE STATE of the sqlparse package (C20).

Static part (Python `ast` over every module of the package under VERIF_REPO):
  * every module-level and class-level binding, with the classification of its value
        Immutable   str/bytes/number/None/tuple of immutables/token type/compiled regex/object() sentinel
        ConstTable  list/dict/set display or comprehension (a mutable object: admissible only when the package has
                    no write site for it -- the write sites are listed and the rule is checked in Coq)
        LexerConfig Lexer._default_instance, Lexer._lock and the instance fields _SQL_REGEX/_keywords of Lexer
        TokenAttr   attributes of _TokenType instances (created by _TokenType.__getattr__)
        Other       everything else (an obligation that fails)
  * every binding created or rebound after import (`global x`, `cls.x = ...`, `Class.x = ...`, `module.x = ...`,
    `self.__class__.x = ...`, `type(self).x = ...`), every instance field of a class that has persistent
    instances (a class instantiated into a module-level/class-level binding, at import or later),
  * every mutable default argument, function attribute, `nonlocal` cell, functools cache decorator,
  * every WRITE site (rebinding, item/attribute store, in-place operator, mutating method call, setattr/delattr)
    whose receiver is rooted at such a binding, with its enclosing function.
  Writes rooted at a local variable/parameter or at `self` of a class without persistent instances are
  call-local by the classification rule (counted, not listed); the rule is validated dynamically (below).
  Fail-closed: `exec`/`eval`/`globals()`/`vars()`/`__dict__`/`__import__`, `getattr`/`setattr` on token types with a
  computed name, unknown decorators, star-imports -> Unsupported.

Dynamic part (tools/regen/state_probe.py in a FRESH interpreter): imports every module, resolves every `T.<path>`
attribute chain used anywhere in the package WITHOUT triggering `_TokenType.__getattr__` (created at import?),
snapshots the token-type tree, the attribute sets of all modules/classes/functions, the default arguments and a deep
fingerprint of every inventoried binding, runs a broad workload (parse/split/format with all options, invalid
options, abandoned generators, lexer reconfiguration + default_initialization(), the cli), and diffs."""
import ast
import json
import os
import subprocess
import sys

from common import Unsupported, HEADER, assert_repo, coq_comment, REPO
from pyfun import span

MUTATORS = {'append', 'extend', 'insert', 'pop', 'remove', 'clear', 'sort', 'reverse', 'update', 'setdefault',
            'popitem', 'add', 'discard', 'appendleft', 'extendleft', 'popleft', 'rotate', 'difference_update',
            'intersection_update', 'symmetric_difference_update', '__setitem__', '__delitem__', '__setattr__',
            '__delattr__', '__iadd__', '__imul__', 'move_to_end', 'subtract'}
SAFE_DECORATORS = {'classmethod', 'staticmethod', 'property', 'contextmanager', 'contextlib.contextmanager',
                   'abc.abstractmethod', 'abstractmethod'}
CACHE_DECORATORS = {'lru_cache', 'cache', 'cached_property', 'functools.lru_cache', 'functools.cache',
                    'functools.cached_property', 'singledispatch', 'functools.singledispatch'}
FORBIDDEN_CALLS = {'exec', 'eval', 'globals', '__import__', 'compile'}
# calls that change process-global state of other modules
FOREIGN_SETTERS = ('sys.setrecursionlimit', 'sys.settrace', 'sys.setprofile', 'sys.setswitchinterval',
                   'locale.setlocale', 'os.chdir', 'os.putenv', 'os.umask', 'warnings.simplefilter',
                   'warnings.filterwarnings', 'signal.signal', 'random.seed', 'gc.disable', 'gc.enable',
                   'gc.set_threshold', 'threading.settrace', 'threading.setprofile', 'sys.setdefaultencoding')
LEXER_CONFIG = {'sqlparse.lexer.Lexer._default_instance', 'sqlparse.lexer.Lexer._lock',
                'sqlparse.lexer.Lexer#_SQL_REGEX', 'sqlparse.lexer.Lexer#_keywords'}
# modules that are not part of the parse/split/format API (command-line front end): listed, scope "cli"
CLI_MODULES = {'sqlparse.cli', 'sqlparse.__main__'}


def _nodoc(body):
    return [s for s in body if not (isinstance(s, ast.Expr) and isinstance(s.value, ast.Constant)
                                    and isinstance(s.value.value, str))]


class Mod:
    def __init__(self, name, path, is_pkg):
        self.name = name
        self.path = path
        self.is_pkg = is_pkg
        with open(path, encoding='utf-8') as f:
            self.src = f.read()
        self.tree = ast.parse(self.src)
        self.imports = {}      # local name -> ('module', fullname) | ('object', module, name)
        self.defs = {}         # module-level name -> 'class' | 'func' | 'var'
        self.classes = {}      # class name -> ClassDef (module-level classes)


class Inventory:
    def __init__(self, pkgdir, pkgname='sqlparse'):
        self.pkgdir = pkgdir
        self.pkg = pkgname
        self.mods = {}
        for root, dirs, files in os.walk(pkgdir):
            dirs[:] = sorted(d for d in dirs if d != '__pycache__')
            for fn in sorted(files):
                if not fn.endswith('.py'):
                    continue
                p = os.path.join(root, fn)
                rel = os.path.relpath(p, pkgdir)[:-3].split(os.sep)
                is_pkg = rel[-1] == '__init__'
                if is_pkg:
                    rel = rel[:-1]
                name = '.'.join([pkgname] + rel)
                self.mods[name] = Mod(name, p, is_pkg)
        self.bindings = {}       # name -> dict(kind, value, where, writers[], notes[])
        self.order = []
        self.writes = []         # every persistent write site
        self.local_writes = 0    # call-local write sites (rule)
        self.inst_writes = {}    # class qualname -> {field: [writer...]}
        self.persistent_classes = {}   # class qualname -> reason
        self.tt_uses = []        # (module, function, line, root name, [attrs])
        self.class_attr_names = {}     # attr name -> [binding names] (class-level bindings)
        self.notes = []

    # ---------------------------------------------------------------- imports / definitions
    def resolve_module(self, cur, level, module):
        if level == 0:
            return module
        base = cur.name.split('.')
        if not cur.is_pkg:
            base = base[:-1]
        if level > 1:
            base = base[:-(level - 1)]
        return '.'.join(base + ([module] if module else []))

    def scan_header(self, m):
        for node in ast.walk(m.tree):
            if isinstance(node, ast.ImportFrom):
                src = self.resolve_module(m, node.level, node.module)
                for a in node.names:
                    if a.name == '*':
                        raise Unsupported(f'{m.name}: star import', span(node))
                    local = a.asname or a.name
                    full = src + '.' + a.name
                    if full in self.mods:
                        tgt = ('module', full)
                    elif src in self.mods:
                        tgt = ('object', src, a.name)
                    else:
                        tgt = ('foreign', full)
                    self._bind_import(m, node, local, tgt)
            elif isinstance(node, ast.Import):
                for a in node.names:
                    if a.asname:
                        tgt = ('module', a.name) if a.name in self.mods else ('foreign', a.name)
                        self._bind_import(m, node, a.asname, tgt)
                    else:
                        top = a.name.split('.')[0]
                        tgt = ('module', top) if top in self.mods else ('foreign', top)
                        self._bind_import(m, node, top, tgt)
        for s in m.tree.body:
            if isinstance(s, ast.ClassDef):
                m.defs[s.name] = 'class'
                m.classes[s.name] = s
            elif isinstance(s, (ast.FunctionDef, ast.AsyncFunctionDef)):
                m.defs[s.name] = 'func'

    def _bind_import(self, m, node, local, tgt):
        # imports inside functions are treated as module-wide aliases (conservative for resolution)
        old = m.imports.get(local)
        if old is not None and old != tgt:
            raise Unsupported(f'{m.name}: name {local} imported twice with different meanings', span(node))
        m.imports[local] = tgt

    # ---------------------------------------------------------------- value classification
    def tt_chain(self, m, node, scope_vals):
        """attribute chain rooted at a name -> (root, [attrs]) or None"""
        chain = []
        n = node
        while isinstance(n, ast.Attribute):
            chain.append(n.attr)
            n = n.value
        if isinstance(n, ast.Name):
            return n.id, chain[::-1]
        return None

    def is_tt_root(self, m, root):
        """does the module-level name `root` of module m denote the tokens module or a token type?"""
        imp = m.imports.get(root)
        if imp == ('module', self.pkg + '.tokens'):
            return True
        if imp and imp[0] == 'object' and imp[1] == self.pkg + '.tokens':
            return imp[2] not in ('_TokenType',)
        if m.name == self.pkg + '.tokens' and root in self.bindings_of_module(m.name):
            b = self.bindings.get(m.name + '.' + root)
            return bool(b and b['value_kind'] == 'tokentype')
        return False

    def bindings_of_module(self, mname):
        return {k[len(mname) + 1:] for k in self.bindings if k.startswith(mname + '.') and '.' not in k[len(mname) + 1:]}

    def classify_value(self, m, node, scope):
        """-> (kind, value_kind, note); scope: name -> (kind, value_kind) of enclosing class/module bindings"""
        if isinstance(node, ast.Constant):
            return 'KImmutable', 'const', ''
        if isinstance(node, ast.JoinedStr):
            return 'KImmutable', 'const', ''
        if isinstance(node, ast.Tuple):
            kinds = [self.classify_value(m, e, scope) for e in node.elts]
            if all(k[0] == 'KImmutable' for k in kinds):
                return 'KImmutable', 'tuple', ''
            if all(k[0] in ('KImmutable', 'KConstTable') for k in kinds):
                return 'KConstTable', 'tuple-with-mutable', ''
            return 'KOther', 'tuple', 'tuple containing: ' + ', '.join(sorted({k[1] for k in kinds}))
        if isinstance(node, (ast.List, ast.Set, ast.ListComp, ast.SetComp, ast.DictComp, ast.Dict)):
            elts = []
            if isinstance(node, (ast.List, ast.Set)):
                elts = node.elts
            elif isinstance(node, ast.Dict):
                elts = [e for e in list(node.keys) + list(node.values) if e is not None]
            elif isinstance(node, (ast.ListComp, ast.SetComp, ast.DictComp)):
                # the elements a comprehension BUILDS are what the container holds: classify them with the loop
                # variables bound to whatever kind their iterables have (fail-closed on anything else)
                scope = dict(scope)
                for gen in node.generators:
                    ik = self.classify_value(m, gen.iter, scope)
                    for t in ast.walk(gen.target):
                        if isinstance(t, ast.Name):
                            scope[t.id] = (ik[0] if ik[0] in ('KImmutable', 'KConstTable') else 'KOther', 'compvar')
                    elts += list(gen.ifs)
                elts += [node.key, node.value] if isinstance(node, ast.DictComp) else [node.elt]
            kinds = [self.classify_value(m, e, scope) for e in elts]
            bad = [k for k in kinds if k[0] not in ('KImmutable', 'KConstTable')]
            if bad:
                return 'KOther', type(node).__name__.lower(), 'container holding: ' + ', '.join(sorted({k[1] for k in bad}))
            return 'KConstTable', type(node).__name__.lower(), ''
        if isinstance(node, ast.Lambda):
            return 'KImmutable', 'function', ''
        if isinstance(node, (ast.BinOp, ast.UnaryOp, ast.BoolOp, ast.Compare, ast.IfExp)):
            subs = [c for c in ast.iter_child_nodes(node) if isinstance(c, ast.expr)]
            kinds = [self.classify_value(m, e, scope) for e in subs]
            if all(k[0] == 'KImmutable' for k in kinds):
                return 'KImmutable', 'const-expr', ''
            return 'KOther', 'expr', 'expression over: ' + ', '.join(sorted({k[1] for k in kinds}))
        if isinstance(node, ast.Name):
            if node.id in scope:
                k, vk = scope[node.id]
                return k, vk, 'alias of ' + node.id
            if node.id in m.defs and m.defs[node.id] in ('class', 'func'):
                return 'KImmutable', m.defs[node.id], ''
            if node.id in ('True', 'False', 'None'):
                return 'KImmutable', 'const', ''
            imp = m.imports.get(node.id)
            if imp and imp[0] == 'object':
                b = self.bindings.get(imp[1] + '.' + imp[2])
                if b:
                    return b['kind'], b['value_kind'], 'alias of ' + imp[1] + '.' + imp[2]
                src = self.mods[imp[1]]
                if imp[2] in src.defs:
                    return 'KImmutable', src.defs[imp[2]], ''
            return 'KOther', 'name', f'unresolved name {node.id}'
        if isinstance(node, ast.Attribute):
            ch = self.tt_chain(m, node, scope)
            if ch:
                root, attrs = ch
                if root in scope and scope[root][1] == 'tokentype' or self.is_tt_root(m, root):
                    self.tt_uses.append((m.name, '<import>', node.lineno, root, attrs))
                    return 'KImmutable', 'tokentype', ''
                imp = m.imports.get(root)
                if imp and imp[0] == 'module' and len(attrs) == 1:
                    b = self.bindings.get(imp[1] + '.' + attrs[0])
                    if b:
                        return b['kind'], b['value_kind'], 'alias of ' + imp[1] + '.' + attrs[0]
            return 'KOther', 'attribute', 'unresolved attribute ' + ast.unparse(node)
        if isinstance(node, ast.Call):
            f = ast.unparse(node.func)
            imp = None
            if isinstance(node.func, ast.Name):
                imp = m.imports.get(node.func.id)
            if f in ('re.compile',) and m.imports.get('re') == ('foreign', 're'):
                return 'KImmutable', 'compiled-regex', ''
            if f == 'object' and not node.args:
                return 'KImmutable', 'sentinel', ''
            if f in ('frozenset', 'tuple', 'str', 'int', 'bytes', 'float', 'bool') :
                return 'KImmutable', 'const-expr', ''
            if (f == 'Lock' and imp == ('foreign', 'threading.Lock')) or \
                    (f == 'threading.Lock' and m.imports.get('threading') == ('foreign', 'threading')):
                return 'KOther', 'lock', ''          # re-classified LexerConfig for Lexer._lock below
            cls = self.resolve_class(m, node.func)
            if cls:
                self.persistent_classes.setdefault(cls, f'instantiated at import in {m.name} line {node.lineno}')
                if cls == self.pkg + '.tokens._TokenType':
                    return 'KImmutable', 'tokentype', ''
                return 'KOther', 'instance of ' + cls, 'persistent instance of a package class'
            return 'KOther', 'call', 'value of call ' + f
        return 'KOther', type(node).__name__, 'unrecognised value expression'

    def resolve_class(self, m, fnode):
        if isinstance(fnode, ast.Name):
            if m.defs.get(fnode.id) == 'class':
                return m.name + '.' + fnode.id
            imp = m.imports.get(fnode.id)
            if imp and imp[0] == 'object' and self.mods[imp[1]].defs.get(imp[2]) == 'class':
                return imp[1] + '.' + imp[2]
        elif isinstance(fnode, ast.Attribute) and isinstance(fnode.value, ast.Name):
            imp = m.imports.get(fnode.value.id)
            if imp and imp[0] == 'module' and self.mods[imp[1]].defs.get(fnode.attr) == 'class':
                return imp[1] + '.' + fnode.attr
        return None

    # ---------------------------------------------------------------- bindings
    def add_binding(self, name, kind, value_kind, where, note='', declared=True):
        if name in self.bindings:
            b = self.bindings[name]
            # rebinding at import time with another value: keep the weakest classification
            rank = ['KImmutable', 'KConstTable', 'KTokenAttr', 'KLexerConfig', 'KOther']
            if rank.index(kind) > rank.index(b['kind']):
                b['kind'], b['value_kind'] = kind, value_kind
            b['where'].append(where)
            if note:
                b['notes'].append(note)
            return b
        if name in LEXER_CONFIG and kind in ('KOther', 'KImmutable', 'KConstTable'):
            # the two class attributes of the singleton: value must be what the singleton translator expects
            # (None / Lock()); checked there, classified here
            kind = 'KLexerConfig'
        b = {'name': name, 'kind': kind, 'value_kind': value_kind, 'where': [where], 'writers': [],
             'notes': [note] if note else [], 'declared': declared,
             'scope': 'cli' if any(name.startswith(c + '.') or name.startswith(c + '#') for c in CLI_MODULES) else 'api'}
        self.bindings[name] = b
        self.order.append(name)
        return b

    def collect_static_bindings(self, m):
        def do_body(body, prefix, scope, in_class):
            for s in _nodoc(body):
                if isinstance(s, (ast.Import, ast.ImportFrom, ast.FunctionDef, ast.AsyncFunctionDef, ast.Pass)):
                    continue
                if isinstance(s, ast.ClassDef):
                    do_body(s.body, prefix + '.' + s.name, {}, True)
                    continue
                if isinstance(s, (ast.Assign, ast.AnnAssign, ast.AugAssign)):
                    targets = s.targets if isinstance(s, ast.Assign) else [s.target]
                    if s.value is None:
                        continue
                    k, vk, note = self.classify_value(m, s.value, scope)
                    if isinstance(s, ast.AugAssign):
                        note = 'augmented assignment at import; ' + note
                    for t in targets:
                        if isinstance(t, ast.Name):
                            b = self.add_binding(prefix + '.' + t.id, k, vk, f'{m.name}:{s.lineno}', note)
                            scope[t.id] = (b['kind'], b['value_kind'])
                            if in_class:
                                self.class_attr_names.setdefault(t.id, []).append(b['name'])
                        elif isinstance(t, ast.Attribute):
                            # import-time attribute store (tokens.py: Token.Token = Token)
                            ch = self.tt_chain(m, t, scope)
                            nm = prefix + '.' + (ast.unparse(t))
                            tk = 'KImmutable' if (ch and ch[0] in scope and scope[ch[0]][1] == 'tokentype'
                                                  and k == 'KImmutable') else 'KOther'
                            self.add_binding(nm, tk, vk, f'{m.name}:{s.lineno}', 'attribute stored at import; ' + note)
                        elif isinstance(t, (ast.Tuple, ast.List)):
                            for e in t.elts:
                                if isinstance(e, ast.Name):
                                    self.add_binding(prefix + '.' + e.id, 'KOther', 'unpacked', f'{m.name}:{s.lineno}',
                                                     'tuple-unpacking assignment at import')
                                else:
                                    raise Unsupported(f'{m.name}: import-time target {ast.unparse(t)}', span(s))
                        else:
                            raise Unsupported(f'{m.name}: import-time target {ast.unparse(t)}', span(s))
                    continue
                if isinstance(s, ast.If):
                    do_body(s.body, prefix, scope, in_class)
                    do_body(s.orelse, prefix, scope, in_class)
                    continue
                if isinstance(s, ast.Try):
                    for part in [s.body, s.orelse, s.finalbody] + [h.body for h in s.handlers]:
                        do_body(part, prefix, scope, in_class)
                    continue
                if isinstance(s, ast.Expr):
                    self.notes.append(f'{m.name}:{s.lineno}: import-time expression statement `{ast.unparse(s)[:60]}`')
                    continue
                raise Unsupported(f'{m.name}: import-time statement {type(s).__name__}', span(s))
        do_body(m.tree.body, m.name, {}, False)

    # ---------------------------------------------------------------- functions: write sites
    def scan_functions(self, m):
        inv = self

        def fn_locals(fn):
            names = set()
            a = fn.args
            for arg in a.posonlyargs + a.args + a.kwonlyargs + ([a.vararg] if a.vararg else []) + ([a.kwarg] if a.kwarg else []):
                names.add(arg.arg)
            glob = set()
            nonloc = set()

            def visit(n):
                for c in ast.iter_child_nodes(n):
                    if isinstance(c, (ast.FunctionDef, ast.AsyncFunctionDef, ast.ClassDef)):
                        names.add(c.name)
                        continue
                    if isinstance(c, ast.Lambda):
                        continue
                    if isinstance(c, ast.Global):
                        glob.update(c.names)
                    elif isinstance(c, ast.Nonlocal):
                        nonloc.update(c.names)
                    elif isinstance(c, ast.Name) and isinstance(c.ctx, (ast.Store, ast.Del)):
                        names.add(c.id)
                    elif isinstance(c, (ast.Import, ast.ImportFrom)):
                        for al in c.names:
                            names.add((al.asname or al.name).split('.')[0])
                    elif isinstance(c, ast.ExceptHandler) and c.name:
                        names.add(c.name)
                    visit(c)
            visit(fn)
            return names - glob - nonloc, glob, nonloc

        def walk_fn(fn, qual, cls, stack):
            # decorators
            for d in fn.decorator_list:
                src = ast.unparse(d.func if isinstance(d, ast.Call) else d)
                if src in SAFE_DECORATORS:
                    continue
                if src in CACHE_DECORATORS:
                    inv.add_binding(f'{m.name}.{qual}@{src}', 'KOther', 'cache-decorator', f'{m.name}:{fn.lineno}',
                                    'functools cache on a function')
                    continue
                # package-defined decorator (its body is analysed like any function)
                base = d.func if isinstance(d, ast.Call) else d
                ok = False
                if isinstance(base, ast.Name):
                    imp = m.imports.get(base.id)
                    ok = m.defs.get(base.id) == 'func' or (imp and imp[0] == 'object' and
                                                          inv.mods[imp[1]].defs.get(imp[2]) == 'func')
                if not ok:
                    raise Unsupported(f'{m.name}.{qual}: unknown decorator {src}', span(fn))
            # mutable defaults
            a = fn.args
            pos = a.posonlyargs + a.args
            for arg, dflt in list(zip(pos[len(pos) - len(a.defaults):], a.defaults)) + \
                    [(x, y) for x, y in zip(a.kwonlyargs, a.kw_defaults) if y is not None]:
                k, vk, note = inv.classify_value(m, dflt, {})
                if k != 'KImmutable':
                    inv.add_binding(f'{m.name}.{qual}({arg.arg}=)', 'KOther', 'mutable-default:' + vk,
                                    f'{m.name}:{fn.lineno}', 'mutable default argument ' + note)
            locs, glob, nonloc = fn_locals(fn)
            for nm in nonloc:
                inv.add_binding(f'{m.name}.{qual}<nonlocal {nm}>', 'KOther', 'closure-cell', f'{m.name}:{fn.lineno}',
                                'nonlocal cell written by a nested function')
            is_method = cls is not None and stack == []
            deco = {ast.unparse(d) for d in fn.decorator_list}
            self_name = cls_name = None
            if is_method and pos:
                if 'classmethod' in deco:
                    cls_name = pos[0].arg
                elif 'staticmethod' not in deco:
                    self_name = pos[0].arg
            frame = {'locals': locs, 'global': glob, 'self': self_name, 'cls': cls_name, 'class': cls}
            frames = stack + [frame]

            def lookup(name):
                """classification of a bare name used as the root of a written expression"""
                for fr in reversed(frames):
                    if name == fr['self'] and name not in fr['global']:
                        return ('inst', fr['class'])
                    if name == fr['cls'] and name not in fr['global']:
                        return ('class', fr['class'])
                    if name in fr['locals']:
                        return ('local', name)
                imp = m.imports.get(name)
                if imp:
                    return imp
                if name in m.defs:
                    return (m.defs[name], m.name + '.' + name)
                if m.name + '.' + name in inv.bindings or name in frames[-1]['global']:
                    return ('var', m.name + '.' + name)
                return ('builtin', name)

            def root_of(e):
                """(root classification, [path elements]) of the object designated by expression e"""
                path = []
                n = e
                while True:
                    if isinstance(n, ast.Attribute):
                        if n.attr == '__dict__':
                            raise Unsupported(f'{m.name}.{qual}: __dict__ access', span(n))
                        if n.attr == '__class__':
                            r, p = root_of(n.value)
                            if r[0] == 'inst' and not p:
                                return ('class', r[1]), path[::-1]
                            return ('expr', ast.unparse(n)), path[::-1]
                        path.append(n.attr)
                        n = n.value
                    elif isinstance(n, ast.Subscript):
                        path.append('[]')
                        n = n.value
                    elif isinstance(n, ast.Starred):
                        n = n.value
                    else:
                        break
                if isinstance(n, ast.Name):
                    return lookup(n.id), path[::-1]
                if isinstance(n, ast.Call):
                    f = ast.unparse(n.func)
                    if f == 'type' and len(n.args) == 1:
                        r, p = root_of(n.args[0])
                        if r[0] == 'inst' and not p:
                            return ('class', r[1]), path[::-1]
                    if f.endswith('get_default_instance'):
                        return ('inst', inv.pkg + '.lexer.Lexer'), path[::-1]
                    if f == 'super':
                        return ('inst', frames[-1]['class'] or '?'), path[::-1]
                    return ('callresult', f), path[::-1]
                return ('expr', type(n).__name__), path[::-1]

            def record(node, target, how):
                """a write to the object/binding designated by `target`"""
                r, path = root_of(target)
                writer = f'{m.name}.{qual}'
                site = {'writer': writer, 'line': node.lineno, 'how': how, 'target': ast.unparse(target)[:80]}
                kind = r[0]
                if kind in ('local', 'callresult', 'expr', 'builtin'):
                    inv.local_writes += 1
                    # in-place mutation of a class-level mutable binding reached through any receiver: X.NAME.append(...)
                    inv.check_class_attr_mutation(path, site, how)
                    return
                if kind == 'inst':
                    c = r[1]
                    if not path and how.startswith('call-') and inv.class_defines(c, how[5:]):
                        return            # self.clear(): a method of the package class, analysed on its own
                    fld = path[0] if path else '[]'
                    if how == 'rebind-attr' and len(path) == 1 or how != 'rebind-attr':
                        inv.inst_writes.setdefault(c, {}).setdefault(fld, []).append(site)
                    if not (how == 'rebind-attr' and len(path) == 1):
                        inv.check_class_attr_mutation(path, site, how)
                    return
                if kind == 'class':
                    if not path:
                        inv.local_writes += 1
                        return
                    inv.persistent_write(r[1] + '.' + path[0], site, rebinding=(how == 'rebind-attr' and len(path) == 1))
                    return
                if kind == 'module':
                    if not path:
                        raise Unsupported(f'{writer}: write to module object {r[1]}', span(node))
                    inv.persistent_write(r[1] + '.' + path[0], site, rebinding=(how == 'rebind-attr' and len(path) == 1))
                    return
                if kind == 'object':
                    nm = r[1] + '.' + r[2]
                    if inv.mods[r[1]].defs.get(r[2]) == 'class' and path:
                        nm = nm + '.' + path[0]
                        inv.persistent_write(nm, site, rebinding=(how == 'rebind-attr' and len(path) == 1))
                    else:
                        inv.persistent_write(nm, site, rebinding=False)
                    return
                if kind == 'var':
                    inv.persistent_write(r[1], site, rebinding=(how == 'rebind-name'))
                    return
                if kind == 'func':
                    inv.persistent_write(r[1] + '.<function attribute>', site, rebinding=True)
                    return
                if kind == 'foreign':
                    inv.persistent_write('<foreign>' + r[1] + ('.' + '.'.join(path) if path else ''), site, rebinding=True)
                    return
                raise Unsupported(f'{writer}: cannot classify the receiver of `{ast.unparse(target)}`', span(node))

            def targets_of(t):
                if isinstance(t, (ast.Tuple, ast.List)):
                    for e in t.elts:
                        yield from targets_of(e)
                elif isinstance(t, ast.Starred):
                    yield from targets_of(t.value)
                else:
                    yield t

            def visit(n):
                for c in ast.iter_child_nodes(n):
                    if isinstance(c, (ast.FunctionDef, ast.AsyncFunctionDef)):
                        walk_fn(c, qual + '.<locals>.' + c.name, cls, frames)
                        continue
                    if isinstance(c, ast.ClassDef):
                        raise Unsupported(f'{m.name}.{qual}: class defined inside a function', span(c))
                    if isinstance(c, (ast.Assign, ast.AnnAssign, ast.AugAssign, ast.Delete, ast.For, ast.AsyncFor)):
                        if isinstance(c, ast.Assign):
                            ts = c.targets
                        elif isinstance(c, ast.Delete):
                            ts = c.targets
                        else:
                            ts = [c.target]
                        for t0 in ts:
                            for t in targets_of(t0):
                                if isinstance(t, ast.Name):
                                    if t.id in glob:
                                        record(c, t, 'rebind-name')
                                elif isinstance(t, ast.Attribute):
                                    record(c, t, 'augassign' if isinstance(c, ast.AugAssign) else 'rebind-attr')
                                elif isinstance(t, ast.Subscript):
                                    record(c, t.value, 'store-item')
                    elif isinstance(c, (ast.With, ast.AsyncWith)):
                        for it in c.items:
                            if it.optional_vars is not None:
                                for t in targets_of(it.optional_vars):
                                    if isinstance(t, ast.Attribute):
                                        record(c, t, 'rebind-attr')
                                    elif isinstance(t, ast.Subscript):
                                        record(c, t.value, 'store-item')
                                    elif isinstance(t, ast.Name) and t.id in glob:
                                        record(c, t, 'rebind-name')
                    elif isinstance(c, ast.NamedExpr):
                        if c.target.id in glob:
                            record(c, c.target, 'rebind-name')
                    elif isinstance(c, ast.Call):
                        f = c.func
                        fs = ast.unparse(f)
                        if fs in FORBIDDEN_CALLS or (fs == 'vars' and not c.args):
                            raise Unsupported(f'{m.name}.{qual}: call of {fs}', span(c))
                        if fs in ('setattr', 'delattr') and c.args:
                            # setattr(obj, name, value): a write to obj
                            r, p = root_of(c.args[0])
                            if r[0] == 'inst' and r[1] == inv.pkg + '.tokens._TokenType' and not p:
                                inv.inst_writes.setdefault(r[1], {}).setdefault('<dynamic>', []).append(
                                    {'writer': f'{m.name}.{qual}', 'line': c.lineno, 'how': 'setattr', 'target': ast.unparse(c)[:80]})
                            else:
                                fake = ast.Attribute(value=c.args[0], attr='<dynamic>' if len(c.args) < 2 or not isinstance(c.args[1], ast.Constant) else str(c.args[1].value), ctx=ast.Store())
                                ast.copy_location(fake, c)
                                record(c, fake, 'rebind-attr')
                        elif fs in ('getattr', 'hasattr') and c.args:
                            r, p = root_of(c.args[0])
                            if r[0] in ('module', 'object') and inv_is_tt(r):
                                raise Unsupported(f'{m.name}.{qual}: getattr on a token type with a computed name', span(c))
                        elif isinstance(f, ast.Attribute) and f.attr in MUTATORS:
                            record(c, f.value, 'call-' + f.attr)
                        if fs in FOREIGN_SETTERS:
                            inv.persistent_write('<foreign>' + fs, {'writer': f'{m.name}.{qual}', 'line': c.lineno,
                                                                     'how': 'call', 'target': ast.unparse(c)[:80]}, rebinding=True)
                    elif isinstance(c, ast.Attribute) and isinstance(c.ctx, ast.Load):
                        ch = inv.tt_chain(m, c, {})
                        if ch and lookup(ch[0])[0] in ('module', 'object', 'var') and inv.is_tt_root(m, ch[0]):
                            inv.tt_uses.append((m.name, qual, c.lineno, ch[0], ch[1]))
                            # do not descend: the sub-chains are prefixes of this one
                            continue
                    visit(c)

            def inv_is_tt(r):
                if r[0] == 'module':
                    return r[1] == inv.pkg + '.tokens'
                return r[1] == inv.pkg + '.tokens'
            visit(fn)

        def walk_body(body, prefix, cls):
            for s in body:
                if isinstance(s, (ast.FunctionDef, ast.AsyncFunctionDef)):
                    walk_fn(s, (prefix + '.' if prefix else '') + s.name, cls, [])
                elif isinstance(s, ast.ClassDef):
                    walk_body(s.body, (prefix + '.' if prefix else '') + s.name, m.name + '.' + (prefix + '.' if prefix else '') + s.name)
                elif isinstance(s, (ast.If, ast.Try)):
                    for part in [getattr(s, 'body', []), getattr(s, 'orelse', []), getattr(s, 'finalbody', [])] + \
                            [h.body for h in getattr(s, 'handlers', [])]:
                        walk_body(part, prefix, cls)
        walk_body(m.tree.body, '', None)
        # token-type chains in import-time code outside value positions are covered by classify_value

    def class_defines(self, cname, meth, depth=0):
        """does the package class (or a package base class) define method `meth`?"""
        if depth > 10 or not cname:
            return False
        mn, _, cn = cname.rpartition('.')
        m = self.mods.get(mn)
        if not m or cn not in m.classes:
            return False
        cd = m.classes[cn]
        if any(isinstance(s, (ast.FunctionDef, ast.AsyncFunctionDef)) and s.name == meth for s in cd.body):
            return True
        return any(self.class_defines(self.resolve_class(m, b), meth, depth + 1) for b in cd.bases)

    def check_class_attr_mutation(self, path, site, how):
        """X.NAME.append(..) / X.NAME[k] = v / X.NAME += ..: in-place change of a class-level mutable binding
        reached through an instance or a parameter (attribute-name matching, conservative)."""
        if how == 'rebind-attr':
            path = path[:-1]          # the last element is the attribute being rebound on the reached object
        for a in path:
            for bn in self.class_attr_names.get(a, []):
                b = self.bindings[bn]
                if b['kind'] in ('KConstTable', 'KOther'):
                    b['writers'].append(dict(site, via='attribute name ' + a))
                    self.writes.append(dict(site, binding=bn))

    def persistent_write(self, name, site, rebinding):
        b = self.bindings.get(name)
        if b is None:
            b = self.add_binding(name, 'KOther', 'created-after-import', site['writer'] + ':' + str(site['line']),
                                 'binding created after import', declared=False)
            if name in LEXER_CONFIG:
                b['kind'] = 'KLexerConfig'
        b['writers'].append(site)
        self.writes.append(dict(site, binding=name))
        # a class instantiated into a persistent binding has persistent instances
        # (handled in finish(): the value expressions of rebinding sites are inspected there)

    # ---------------------------------------------------------------- driver
    def collect(self):
        for m in self.mods.values():
            self.scan_header(m)
        # tokens first (other modules alias its bindings), then the rest in name order
        names = sorted(self.mods, key=lambda n: (n != self.pkg + '.tokens', n != self.pkg + '.keywords', n))
        for n in names:
            self.collect_static_bindings(self.mods[n])
        for n in names:
            self.scan_functions(self.mods[n])
        self.find_runtime_instantiations()
        self.finish_instances()

    def find_runtime_instantiations(self):
        """`<persistent binding> = C(...)` inside a function: C has persistent instances.  Also through ONE local
        variable of the same function: `x = C(...)` ... `<persistent binding> = x` (the instance is built in a local
        and published afterwards); flow-insensitive, so an over-approximation."""
        for m in self.mods.values():
            for cls_node in [n for n in ast.walk(m.tree) if isinstance(n, ast.ClassDef)]:
                for fn in [n for n in cls_node.body if isinstance(n, (ast.FunctionDef, ast.AsyncFunctionDef))]:
                    a = fn.args.posonlyargs + fn.args.args
                    first = a[0].arg if a else None
                    is_cm = any(ast.unparse(d) == 'classmethod' for d in fn.decorator_list)

                    def class_of_call(call, first=first, is_cm=is_cm, cls_node=cls_node, m=m):
                        f = call.func
                        if is_cm and isinstance(f, ast.Name) and f.id == first:
                            return m.name + '.' + cls_node.name
                        return self.resolve_class(m, f)
                    # locals holding a freshly created instance:  x = C(...)
                    local_inst = {}
                    for s in ast.walk(fn):
                        if isinstance(s, ast.Assign) and isinstance(s.value, ast.Call):
                            c = class_of_call(s.value)
                            for t in s.targets:
                                if c and isinstance(t, ast.Name):
                                    local_inst.setdefault(t.id, c)
                    for s in ast.walk(fn):
                        if isinstance(s, ast.Assign) and (isinstance(s.value, ast.Call) or
                                                          (isinstance(s.value, ast.Name) and s.value.id in local_inst)):
                            for t in s.targets:
                                if isinstance(t, ast.Attribute) and isinstance(t.value, ast.Name):
                                    root = t.value.id
                                    persistent_target = (is_cm and root == first) or m.defs.get(root) == 'class' \
                                        or (m.imports.get(root, ('',))[0] in ('module', 'object'))
                                    if not persistent_target:
                                        continue
                                    if isinstance(s.value, ast.Call):
                                        c = class_of_call(s.value)
                                        via = ''
                                    else:
                                        c = local_inst[s.value.id]
                                        via = f' (through the local {s.value.id})'
                                    if c:
                                        self.persistent_classes.setdefault(
                                            c, f'instantiated into {ast.unparse(t)} in {m.name}.{cls_node.name}.{fn.name}' + via)
            for fn in [n for n in m.tree.body if isinstance(n, (ast.FunctionDef, ast.AsyncFunctionDef))]:
                glob = {x for g in ast.walk(fn) if isinstance(g, ast.Global) for x in g.names}
                local_inst = {}
                for s in ast.walk(fn):
                    if isinstance(s, ast.Assign) and isinstance(s.value, ast.Call):
                        c = self.resolve_class(m, s.value.func)
                        for t in s.targets:
                            if c and isinstance(t, ast.Name) and t.id not in glob:
                                local_inst.setdefault(t.id, c)
                for s in ast.walk(fn):
                    if isinstance(s, ast.Assign) and isinstance(s.value, ast.Call):
                        c = self.resolve_class(m, s.value.func)
                        via = ''
                    elif isinstance(s, ast.Assign) and isinstance(s.value, ast.Name) and s.value.id in local_inst:
                        c = local_inst[s.value.id]
                        via = f' (through the local {s.value.id})'
                    else:
                        continue
                    for t in s.targets:
                        if c and ((isinstance(t, ast.Name) and t.id in glob) or
                                  (isinstance(t, ast.Attribute) and isinstance(t.value, ast.Name)
                                   and (m.defs.get(t.value.id) == 'class' or m.imports.get(t.value.id, ('',))[0] in ('module', 'object')))):
                            self.persistent_classes.setdefault(c, f'instantiated into {ast.unparse(t)} in {m.name}.{fn.name}' + via)

    def finish_instances(self):
        """instance fields of classes with persistent instances become bindings"""
        tt = self.pkg + '.tokens._TokenType'
        for c, reason in sorted(self.persistent_classes.items()):
            fields = self.inst_writes.get(c, {})
            for fld, sites in sorted(fields.items()):
                name = f'{c}#{fld}'
                if c == tt:
                    kind, vk = 'KTokenAttr', 'tokentype-attribute'
                elif name in LEXER_CONFIG:
                    kind, vk = 'KLexerConfig', 'instance-field'
                else:
                    kind, vk = 'KOther', 'instance-field'
                b = self.add_binding(name, kind, vk, reason, 'instance field of a class with persistent instances',
                                     declared=False)
                b['kind'] = kind
                for s in sites:
                    b['writers'].append(s)
                    self.writes.append(dict(s, binding=name))
        if tt in self.persistent_classes:
            # `new.parent = self` in __getattr__ writes the fresh token type through a local name
            pass
        # subclasses of classes with persistent instances would share the fields: none may exist unnoticed
        for m in self.mods.values():
            for cn, cd in m.classes.items():
                for base in cd.bases:
                    bc = self.resolve_class(m, base)
                    if bc in self.persistent_classes and (m.name + '.' + cn) not in self.persistent_classes:
                        self.notes.append(f'{m.name}.{cn} subclasses {bc} (class with persistent instances)')


def run_probe(inv):
    """the dynamic part, in a fresh interpreter"""
    spec = {
        'pkg': inv.pkg,
        'modules': sorted(inv.mods),
        'chains': [[m, root, attrs] for (m, fn, line, root, attrs) in inv.tt_uses],
        'bindings': [n for n in inv.order if '<' not in n and '(' not in n and '@' not in n],
        'gens_dir': os.path.join(os.path.dirname(os.path.dirname(os.path.abspath(__file__))), 'gen'),
    }
    env = dict(os.environ)
    env['PYTHONPATH'] = REPO
    env['PYTHONHASHSEED'] = '0'
    p = subprocess.run([sys.executable, os.path.join(os.path.dirname(os.path.abspath(__file__)), 'state_probe.py')],
                       input=json.dumps(spec), env=env, stdout=subprocess.PIPE, stderr=subprocess.PIPE, text=True,
                       timeout=600)
    if p.returncode != 0:
        raise Unsupported('state probe failed: ' + p.stderr[-1500:])
    return json.loads(p.stdout.strip().splitlines()[-1])


def coq_str(s):
    s = ''.join(c if 32 <= ord(c) < 127 else '?' for c in str(s))
    return '"' + s.replace('"', '""') + '"'


def generate():
    assert_repo()
    import sqlparse
    pkgdir = os.path.dirname(os.path.abspath(sqlparse.__file__))
    inv = Inventory(pkgdir)
    inv.collect()
    probe = run_probe(inv)

    # token-type chains: created at import?
    tt_rows = []
    seen = set()
    for (m, fn, line, root, attrs), res in zip(inv.tt_uses, probe['chains']):
        key = (m, root, tuple(attrs))
        if key in seen:
            continue
        seen.add(key)
        tt_rows.append({'module': m, 'function': fn, 'line': line, 'expr': '.'.join([root] + attrs),
                        'resolved': res['path'], 'at_import': bool(res['ok'])})
    stable = probe['stable']          # binding name -> bool (deep fingerprint unchanged by the workload)

    lines = [HEADER,
             '(* Inventory of the persistent mutable state of the sqlparse package (tools/regen/gen_state.py).',
             '   kind/writers come from the AST of every module; b_stable = the deep fingerprint of the binding was',
             '   unchanged by the probe workload in a fresh interpreter (for LexerConfig: after default_initialization()). *)',
             '', 'From Coq Require Import String List.', 'From SqlModel.Sys Require Import History.',
             'Import ListNotations.', 'Local Open Scope string_scope.', '',
             'Definition bindings : list binding :=', '  [']
    rows = []
    for n in inv.order:
        b = inv.bindings[n]
        ws = []
        for w in b['writers']:
            if w['writer'] not in ws:
                ws.append(w['writer'])
        st = stable.get(n, True)
        cm = f"{b['value_kind']}; {'; '.join(b['where'][:2])}" + ('; ' + '; '.join(x for x in b['notes'] if x)[:100] if any(b['notes']) else '')
        rows.append(f"    mkBinding {coq_str(n)} {b['kind']} [{'; '.join(coq_str(w) for w in ws)}] "
                    f"{'true' if st else 'false'} {'SApi' if b['scope'] == 'api' else 'SCli'}"
                    f"   (* {coq_comment(cm)} *)")
    lines.append(';\n'.join(rows))
    lines.append('  ].')
    lines.append('')
    lines.append('(* every attribute chain rooted at the tokens module / a token type that occurs in the package:')
    lines.append('   (module:expression, resolved path, exists after import without calling _TokenType.__getattr__) *)')
    lines.append('Definition tokentype_uses : list (string * string * bool) :=')
    lines.append('  [')
    lines.append(';\n'.join(f"    ({coq_str(r['module'] + ':' + r['expr'])}, {coq_str(r['resolved'])}, {'true' if r['at_import'] else 'false'})"
                            for r in tt_rows))
    lines.append('  ].')
    lines.append('')
    lines.append('(* what the probe workload created/changed although the static inventory says it cannot *)')
    lines.append('Definition tokentypes_created_by_workload : list string := ['
                 + '; '.join(coq_str(x) for x in probe['new_tokentypes']) + '].')
    lines.append('Definition attributes_created_by_workload : list string := ['
                 + '; '.join(coq_str(x) for x in probe['new_attributes']) + '].')
    lines.append('Definition defaults_changed_by_workload : list string := ['
                 + '; '.join(coq_str(x) for x in probe['changed_defaults']) + '].')
    lines.append('')
    lines.append(f'(* call-local write sites (receiver rooted at a local/parameter or at self of a class without persistent '
                 f'instances): {inv.local_writes};  classes with persistent instances: '
                 + coq_comment(', '.join(sorted(inv.persistent_classes))) + ' *)')
    side = {
        'bindings': [dict(inv.bindings[n], stable=stable.get(n, True)) for n in inv.order],
        'writes': inv.writes,
        'local_write_sites': inv.local_writes,
        'persistent_classes': inv.persistent_classes,
        'instance_fields_all_classes': {c: sorted(f) for c, f in inv.inst_writes.items()},
        'tokentype_uses': tt_rows,
        'probe': {k: v for k, v in probe.items() if k not in ('chains', 'stable')},
        'notes': inv.notes,
    }
    return {'StateInv.v': '\n'.join(lines) + '\n'}, side
