"""Gen/OptTab.v: validate_options / build_filter_stack of sqlparse/formatter.py and the option part of
sqlparse.format, translated statement by statement (optir.py), plus the interpreter-dependent tables
int(str) needs.  Before the file is produced the translation is evaluated (optir.Eval, over abstract
option values) against the REAL functions on a grid of option dictionaries; any difference aborts."""
import ast
import inspect
import itertools
import os
import random
import re
import sys

from common import (Unsupported, HEADER, MAXCP, PYVER, REPO, assert_repo, coq_comment, cset_term, ranges_of,
                    umap_term, cache_get, cache_put)
import optir

FORMAT_SHAPE = [
    'stack = engine.FilterStack()',
    'options = formatter.validate_options(options)',
    'stack = formatter.build_filter_stack(stack, options)',
    'stack.postprocess.append(filters.SerializerUnicode())',
    "return ''.join(stack.run(sql, encoding))",
]

# the value pool of the self-test (the first 16 are used for all pairs, all of them for single options)
POOL16 = [None, True, False, 0, 1, 2, -1, 1.0, 2.5, '2', 'x', '', 'upper', 'UPPER', [], object()]
POOL_MORE = [10, 11, 9, 50, '50', ' 3 ', '3.5', '1_0', '_1', '1__0', '+7', '-7', '٣', '\x1c3', '3\x00',
             2.0, -0.5, 0.0, -2.5, 1.5, float('inf'), float('-inf'), float('nan'),
             10 ** 4299, 10 ** 4300, -(10 ** 4300), '9' * 4300, '9' * 4301,
             'lower', 'capitalize', 'sql', 'python', 'php', 'PHP', 'Upper', '\t', ' ', {}, (), (1,), [0]]


def int_tables():
    """Exhaustive evaluation of CPython's int() on every code point: which characters it skips as
    whitespace, which it reads as decimal digits."""
    key = f'inttabs|{PYVER}'
    got = cache_get(key)
    if got is None:
        space, digit = [], []
        for c in range(MAXCP):
            ch = chr(c)
            try:
                if int(ch + '7') == 7 and int('7' + ch) == 7:
                    if ch not in '+-' and not ch.isdigit():
                        space.append(c)
            except ValueError:
                pass
            try:
                d = int(ch)
                digit.append((c, [d]))
            except ValueError:
                pass
        got = {'space': ranges_of(space), 'digit': digit}
        cache_put(key, got)
    return got


def full_lower_table():
    from gen_lexer import gen_casetabs
    _, got = gen_casetabs()
    return {int(k): list(v) for k, v in got['full_lower']}


def documented_options():
    """``name`` entries of the `Formatting of SQL Statements` section of docs/source/api.rst."""
    p = os.path.join(REPO, 'docs', 'source', 'api.rst')
    try:
        with open(p, encoding='utf-8') as f:
            txt = f.read()
    except OSError:
        raise Unsupported(f'{p}: cannot read the documentation of the options')
    i = txt.find('.. _formatting:')
    if i < 0:
        raise Unsupported(f'{p}: no `.. _formatting:` section')
    names = re.findall(r'^``(\w+)``', txt[i:], re.M)
    if not names:
        raise Unsupported(f'{p}: no documented options found')
    return names


def check_format(strtab):
    """sqlparse.format: validate, build, append the serializer, and only then run (lazily)."""
    import sqlparse
    from sqlparse import engine, filters, formatter
    file = os.path.relpath(inspect.getsourcefile(sqlparse), REPO)
    mod = ast.parse(inspect.getsource(sqlparse))
    fn = [n for n in mod.body if isinstance(n, ast.FunctionDef) and n.name == 'format']
    if len(fn) != 1:
        raise Unsupported(f'{file}: function format not found')
    fn = fn[0]
    a = fn.args
    if [x.arg for x in a.args] != ['sql', 'encoding'] or a.kwarg is None or a.kwarg.arg != 'options' or a.vararg \
            or a.kwonlyargs or a.posonlyargs or fn.decorator_list:
        raise Unsupported(f'{file}:{fn.lineno}: format: signature is not (sql, encoding=None, **options)')
    body = [s for s in fn.body if not (isinstance(s, ast.Expr) and isinstance(s.value, ast.Constant))]
    got = [ast.unparse(s) for s in body]
    for i, (g, w) in enumerate(itertools.zip_longest(got, FORMAT_SHAPE)):
        if g != w:
            line = body[i].lineno if i < len(body) else fn.end_lineno
            raise Unsupported(f'{file}:{line}: format: statement `{g}` where the model has `{w}`')
    # names used by format refer to the translated functions
    if sqlparse.formatter is not formatter or sqlparse.engine is not engine or sqlparse.filters is not filters:
        raise Unsupported(f'{file}: format does not use sqlparse.formatter/engine/filters')
    # FilterStack(): three empty lists, grouping off; enable_grouping sets the flag; run is a generator,
    # so nothing of its body (not even lexer.tokenize) runs before ''.join starts consuming it
    fs_file = os.path.relpath(inspect.getsourcefile(engine.FilterStack), REPO)
    st = engine.FilterStack()
    if st.preprocess != [] or st.stmtprocess != [] or st.postprocess != [] or st._grouping is not False:
        raise Unsupported(f'{fs_file}: FilterStack() is not the empty stack')
    cls = ast.parse(inspect.getsource(engine.FilterStack)).body[0]
    funs = {n.name: n for n in cls.body if isinstance(n, ast.FunctionDef)}
    eg = funs.get('enable_grouping')
    if eg is None or [ast.unparse(s) for s in eg.body] != ['self._grouping = True']:
        raise Unsupported(f'{fs_file}: FilterStack.enable_grouping is not `self._grouping = True`')
    run = funs.get('run')
    if run is None or not inspect.isgeneratorfunction(engine.FilterStack.run):
        raise Unsupported(f'{fs_file}: FilterStack.run is not a generator function: formatting would start '
                          'inside the call, not when the result is consumed')
    return {'file': file, 'line': fn.lineno, 'end_line': fn.end_lineno}


def check_sqlparseerror():
    from sqlparse import formatter, exceptions
    e = getattr(formatter, 'SQLParseError', None)
    if e is not exceptions.SQLParseError:
        raise Unsupported('sqlparse/formatter.py: SQLParseError is not sqlparse.exceptions.SQLParseError')
    if not issubclass(e, Exception) or any(issubclass(e, b) for b in (ValueError, TypeError, ArithmeticError,
                                                                      LookupError, AttributeError)):
        raise Unsupported('sqlparse/exceptions.py: SQLParseError derives from a class the handlers catch')
    if '__init__' in vars(e) or '__new__' in vars(e):
        raise Unsupported('sqlparse/exceptions.py: SQLParseError has its own constructor')
    for name in ('int',):
        if hasattr(formatter, name):
            raise Unsupported(f'sqlparse/formatter.py rebinds the builtin `{name}`')


def translate():
    assert_repo()
    from sqlparse import formatter, filters
    check_sqlparseerror()
    file = os.path.relpath(inspect.getsourcefile(formatter), REPO)
    mod = ast.parse(inspect.getsource(formatter))
    funs = {n.name: n for n in mod.body if isinstance(n, ast.FunctionDef)}
    falias = None
    for n in mod.body:
        if isinstance(n, ast.ImportFrom) and n.module == 'sqlparse':
            for a in n.names:
                if a.name == 'filters':
                    falias = a.asname or a.name
    if falias is None or getattr(formatter, falias, None) is not filters:
        raise Unsupported(f'{file}: sqlparse.filters is not imported with `from sqlparse import filters`')
    for need in ('validate_options', 'build_filter_stack'):
        if need not in funs:
            raise Unsupported(f'{file}: function {need} not found')
    v = optir.FunTr(funs['validate_options'], file, {'options': 'opts'}, filters, falias)
    vm = v.translate()
    if v.ret_type != 'opts':
        raise Unsupported(f'{file}: validate_options does not return the options dictionary')
    b = optir.FunTr(funs['build_filter_stack'], file, {'stack': 'stack', 'options': 'opts'}, filters, falias)
    bm = b.translate()
    if b.ret_type != 'stack':
        raise Unsupported(f'{file}: build_filter_stack does not return the stack')
    return file, v, vm, b, bm


# ---------------------------------------------------------------------------------------------
# self-test against the real functions
class Recorder:
    """Stands for the module `filters` while build_filter_stack runs: records class and bound
    constructor arguments, and builds the real object too (a constructor must not raise)."""

    def __init__(self, real):
        self.real = real

    def __getattr__(self, name):
        cls = getattr(self.real, name)
        rec = self

        def make(*a, **kw):
            ctor, want = optir.CLASSES[name]
            names, defaults = optir.class_params(cls)
            bound = dict(zip(names, a))
            bound.update(kw)
            for n in names:
                if n not in bound:
                    bound[n] = defaults[n]
            try:
                obj = cls(*a, **kw)
                ok = True
            except Exception:            # noqa
                obj, ok = object(), False
            r = Recorded()
            r.spec = (ctor, [optir.of_py(bound[n]) for n in names])
            r.ctor_ok = ok
            r.obj = obj
            return r
        return make


class Recorded:
    pass


def real_validate(d):
    from sqlparse import formatter
    try:
        r = formatter.validate_options(d)
    except Exception as e:       # noqa
        return ('err', type(e).__name__), None
    if r is not d:
        return ('other', 'validate_options returned a different object'), None
    return ('ok', [(k, optir.of_py(v)) for k, v in r.items()]), r


def real_build(d):
    from sqlparse import formatter, filters, engine
    st = engine.FilterStack()
    saved = formatter.filters
    formatter.filters = Recorder(filters)
    try:
        try:
            r = formatter.build_filter_stack(st, d)
        except Exception as e:   # noqa
            return ('err', type(e).__name__), True
    finally:
        formatter.filters = saved
    if r is not st:
        return ('other', 'build_filter_stack returned a different object'), True
    ctor_ok = all(f.ctor_ok for f in st.preprocess + st.stmtprocess + st.postprocess)
    return ('ok', {'pre': [f.spec for f in st.preprocess], 'grouping': st._grouping,
                   'stmt': [f.spec for f in st.stmtprocess], 'post': [f.spec for f in st.postprocess]}), ctor_ok


def model_run(ev, m, env):
    try:
        return ('ok', ev.M(m, env)[0])
    except optir.PyErr as e:
        return ('err', e.cls)


def show(d):
    out = {}
    for k, v in d.items():
        try:
            r = repr(v)
        except ValueError:
            r = '<int of %d bits>' % v.bit_length()
        out[k] = r if len(r) < 40 else r[:30] + '...'
    return out


def self_test(vm, bm, sem, keys, documented):
    ev = optir.Eval(sem)
    rng = random.Random(20240607)
    pool_all = POOL16 + POOL_MORE
    dicts = [{}]
    for k in keys:
        for v in pool_all:
            dicts.append({k: v})
    for k1, k2 in itertools.combinations(keys, 2):
        for v1 in POOL16:
            for v2 in POOL16:
                dicts.append({k1: v1, k2: v2})
    for k1, k2 in itertools.combinations(keys, 2):       # the other insertion order, sampled
        for _ in range(12):
            dicts.append({k2: rng.choice(pool_all), k1: rng.choice(pool_all)})
    good = {'keyword_case': ['upper', 'lower', 'capitalize', None], 'identifier_case': ['upper', 'lower', None],
            'output_format': ['sql', 'python', 'php', None], 'truncate_strings': [None, 2, 5, '7', 3.0],
            'truncate_char': ['[...]', '', None, 5], 'indent_width': [1, 2, 4, '8'], 'wrap_after': [0, 1, 80],
            'right_margin': [None, 10, 79]}
    for _ in range(6000):                                  # dense dictionaries, mostly valid values
        d = {}
        for k in rng.sample(keys + ['unknown_option', ''], rng.randint(0, len(keys))):
            if rng.random() < 0.85:
                d[k] = rng.choice(good.get(k, [True, False, True, False, 1, 0]))
            else:
                d[k] = rng.choice(pool_all)
        dicts.append(d)
    n_ok = n_err = n_build = 0
    classes = {}
    for d in dicts:
        abstract = [(k, optir.of_py(v)) for k, v in d.items()]
        # build_filter_stack on the raw dictionary (before validation)
        rb, _ = real_build(dict(d))
        mb = model_run(ev, bm, {'stack': dict(optir.EMPTY_STACK), 'options': list(abstract)})
        if mb != ('err', 'Stuck') and rb != mb:
            raise Unsupported(f'self-test: build_filter_stack on {show(d)}: implementation {rb}, translation {mb}')
        rv, rd = real_validate(dict(d))
        mv = model_run(ev, vm, {'options': list(abstract)})
        if rv != mv:
            raise Unsupported(f'self-test: validate_options on {show(d)}: implementation '
                              f'{str(rv)[:300]}, translation {str(mv)[:300]}')
        if rv[0] == 'ok':
            n_ok += 1
            rb, ctor_ok = real_build(rd)
            mb = model_run(ev, bm, {'stack': dict(optir.EMPTY_STACK), 'options': mv[1]})
            if rb != mb:
                raise Unsupported(f'self-test: build_filter_stack after validation of {show(d)}: '
                                  f'implementation {rb}, translation {mb}')
            if rb[0] == 'ok':
                n_build += 1
                if not ctor_ok:
                    raise Unsupported(f'self-test: a filter constructor raised on validated options {show(d)}')
        else:
            n_err += 1
            classes[rv[1]] = classes.get(rv[1], 0) + 1
    return {'dictionaries': len(dicts), 'accepted': n_ok, 'rejected': n_err, 'stacks_built': n_build,
            'rejection_classes': classes, 'keys': keys, 'documented': documented}


def int_self_test(sem):
    rng = random.Random(7)
    alphabet = ['0', '1', '9', '_', '+', '-', ' ', '\t', '\n', '\x0b', '\x0c', '\r', '\x1c', '\x1f', '\x85', '\xa0',
                ' ', '　', '٣', '१', '５', 'x', '.', 'e', '\x00', '\U0001d7d8', '²', '①']
    n = 0
    cases = ['', ' ', '+', '-', '_', '1_', '_1', '1__1', '1_1', ' 1_000 ', '+-1', '- 1', '1 1', '0x10', '0b1', '1e3',
             '١٢٣', '1\x00', '\x001', '9' * 4300, '9' * 4301, ' ' + '9' * 4300 + ' ', '0' * 5000, '1_' * 2150 + '1',
             '1_' * 2150 + '11']
    for _ in range(60000):
        cases.append(''.join(rng.choice(alphabet) for _ in range(rng.randint(0, 7))))
    for s in cases:
        try:
            want = int(s)
        except ValueError:
            want = None
        got = sem.int_of_str(s)
        if got != want:
            raise Unsupported(f'self-test: int({s[:40]!r}...) is {str(want)[:40]}, the model gives {str(got)[:40]}')
        n += 1
    return n


def generate():
    file, v, vm, b, bm = translate()
    strtab = optir.StrTab()
    fmt_span = check_format(strtab)
    tabs = int_tables()
    maxdig = sys.get_int_max_str_digits() if hasattr(sys, 'get_int_max_str_digits') else 0
    space = set()
    for lo, hi in tabs['space']:
        space.update(range(lo, hi + 1))
    digit = {int(c): int(d[0]) for c, d in tabs['digit']}
    if any(not 0 <= d <= 9 for d in digit.values()):
        raise Unsupported('int(): a character with a digit value outside 0..9')
    sem = optir.Sem(space, digit, maxdig, full_lower_table())
    n_int = int_self_test(sem)
    documented = documented_options()
    keys = list(v.keys)
    for k in b.keys:
        if k not in keys:
            keys.append(k)
    undocumented = [k for k in keys if k not in documented]
    unknown_doc = [k for k in documented if k not in keys]
    if unknown_doc:
        raise Unsupported(f'docs/source/api.rst documents options the code never reads: {unknown_doc}')
    stats = self_test(vm, bm, sem, keys, documented)
    stats['int_strings'] = n_int

    co = optir.CoqOut(strtab)
    vbody = co.M(vm, 2)
    bbody = co.M(bm, 2)
    doc_list = '[' + '; '.join(strtab.name(k) for k in documented) + ']'
    key_list = '[' + '; '.join(strtab.name(k) for k in keys) + ']'
    out = [HEADER,
           'From Coq Require Import ZArith.',
           'From SqlModel Require Import Base PyStr OptDefs.',
           'From SqlModel.Gen Require Import CaseTabs.',
           'Local Open Scope Z_scope.', '',
           f'(* int(): tables of CPython {PYVER}, by evaluation of int() on every code point *)',
           f'Definition int_space_set : cset := {cset_term([tuple(r) for r in tabs["space"]])}.',
           f'Definition int_digit_tab : umap := {umap_term([(int(c), d) for c, d in tabs["digit"]])}.',
           '(* sys.get_int_max_str_digits() *)',
           f'Definition int_max_str_digits : Z := {maxdig}.',
           'Definition icfg : int_cfg :=',
           '  {| ic_space := int_space_set; ic_digit := int_digit_tab; ic_maxdig := int_max_str_digits |}.', '',
           '(* string constants of the source *)',
           strtab.emit(), '',
           f'(* options documented in docs/source/api.rst: {coq_comment(", ".join(documented))} *)',
           f'Definition documented_options : list text := {doc_list}.',
           f'(* option keys the code reads or writes; not documented: {coq_comment(", ".join(undocumented))} *)',
           f'Definition option_keys : list text := {key_list}.', '']
    out += [f'(* {file}: validate_options, lines {v.fn.lineno}-{v.fn.end_lineno} *)',
            'Definition validate_options (options : opts) : ores opts :=', vbody + '.', '',
            f'(* {file}: build_filter_stack, lines {b.fn.lineno}-{b.fn.end_lineno} *)',
            'Definition build_filter_stack (stack : fstack) (options : opts) : ores fstack :=', bbody + '.', '',
            '(* the filters installed as a function of the (validated) options *)',
            'Definition filter_stack_of (options : opts) : ores fstack := build_filter_stack empty_stack options.', '',
            f'(* {fmt_span["file"]}: format, lines {fmt_span["line"]}-{fmt_span["end_line"]}:',
            '     ' + '\n     '.join(FORMAT_SHAPE),
            '   FilterStack.run is a generator: its body (lexer.tokenize first) only runs inside join. *)',
            'Definition format_stack_of (options : opts) : ores (opts * fstack) :=',
            '  options <~ validate_options options ;;',
            '  stack <~ build_filter_stack empty_stack options ;;',
            '  let stack := st_add_post stack FSerializerUnicode in',
            '  OOk (options, stack).', '',
            'Definition format_model {A} (run : fstack -> A -> ores text) (options : opts) (sql : A) : ores text :=',
            "  '(_, stack) <~ format_stack_of options ;;",
            '  run stack sql.', '']
    side = {'validate_options': {'file': file, 'line': v.fn.lineno, 'end_line': v.fn.end_lineno,
                                 'raises': v.raises},
            'build_filter_stack': {'file': file, 'line': b.fn.lineno, 'end_line': b.fn.end_lineno},
            'format': fmt_span, 'documented': documented, 'undocumented_keys': undocumented,
            'int_max_str_digits': maxdig, 'self_test': stats}
    return {'OptTab.v': '\n'.join(out)}, side


if __name__ == '__main__':
    files, side = generate()
    print(files['OptTab.v'][-9000:] if '--tail' in sys.argv else '')
    import json
    print(json.dumps(side['self_test'], default=str)[:2000])
