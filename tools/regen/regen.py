"""Run every translator; write Gen/*.v (only when changed) and Gen/regen_status.json.
A translator that meets a construct it does not recognise fails closed: its output files are
replaced by text that does not compile, so every theorem depending on them is reported as no
longer shown."""
import importlib
import json
import os
import sys
import traceback

sys.path.insert(0, os.path.dirname(os.path.abspath(__file__)))
from common import GEN, Unsupported, write_if_changed, assert_repo  # noqa: E402

TRANSLATORS = [
    # module, output files
    ('gen_lexer', ['Atoms.v', 'Rules.v', 'CaseTabs.v', 'KwTabs.v']),
    ('gen_splitter', ['SplitTab.v']),
    ('gen_singleton', ['SingletonProg.v']),
    ('gen_case2', ['CaseTabs2.v']),
    ('gen_sites', ['SiteInv.v']),
    ('gen_frontends', ['Frontends.v']),
    ('gen_state', ['StateInv.v']),
    ('gen_split_regex', ['SplitRx.v']),
    ('gen_options', ['OptTab.v']),
    ('gen_callgraph', ['CallGraph.v']),
    ('gen_lexpins', ['LexPins.v']),
    ('gen_passes', ['PassTab.v']),
    ('gen_cli', ['CliTab.v']),
    ('gen_srcpins', None),    # one Pin_<component>.v per component; a broken pin breaks only its own file
]


def main():
    assert_repo()
    status = {}
    only = sys.argv[1:]
    for mod, outs in TRANSLATORS:
        if only and mod not in only:
            continue
        if outs is None:
            import gen_srcpins
            outs = ['Pin_%s.v' % c for c in gen_srcpins.COMPONENTS]
        try:
            m = importlib.import_module(mod)
            files, side, *more = m.generate()
            changed = []
            for name, content in files.items():
                if write_if_changed(os.path.join(GEN, name), content):
                    changed.append(name)
            with open(os.path.join(GEN, mod + '.side.json'), 'w') as f:
                json.dump(side, f, indent=1, default=str)
            status[mod] = {'ok': True, 'changed': changed, 'files': list(files)}
            if mod == 'gen_srcpins' and more and more[0]:
                # per-file failures (gen_srcpins): the files of the broken components do not compile
                status[mod] = {'ok': False, 'error': 'source pins broken: ' + json.dumps(more[0]), 'where': None,
                               'files': ['Pin_%s.v' % c for c in more[0]], 'changed': changed}
        except Unsupported as e:
            for name in outs:
                write_if_changed(os.path.join(GEN, name),
                                 '(* translator failed closed: %s *)\nTranslator_failed_closed.\n'
                                 % str(e.what).replace('*)', '* )').replace('"', "'"))
            status[mod] = {'ok': False, 'error': e.what, 'where': e.where, 'files': outs}
        except Exception:
            for name in outs:
                write_if_changed(os.path.join(GEN, name),
                                 '(* translator crashed *)\nTranslator_failed_closed.\n')
            status[mod] = {'ok': False, 'error': traceback.format_exc()[-3000:], 'files': outs}
    with open(os.path.join(GEN, 'regen_status.json'), 'w') as f:
        json.dump(status, f, indent=1)
    for k, v in status.items():
        print('regen', k, 'ok' if v['ok'] else 'FAILED: ' + str(v.get('error'))[:300])


if __name__ == '__main__':
    main()
