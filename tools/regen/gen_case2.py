"""Gen/CaseTabs2.v: what str.lower() / str.capitalize() need beyond the per-character tables of
Gen/CaseTabs.v (full_lower_tab, title_tab): the two character classes consulted by CPython's
Final_Sigma rule (Objects/unicodeobject.c: handle_capital_sigma), derived by experiment from the
running interpreter, and the three code points involved.

The model (Filters/TokFilters.v) assumes
  * str.lower(s)      = per-character full lower-casing, except U+03A3 which becomes U+03C2 when it is
                        preceded by (cased, not case-ignorable) followed by case-ignorable*, and followed
                        by case-ignorable* and then the end or a character that is not (cased and not
                        case-ignorable); U+03C3 otherwise;
  * str.capitalize(s) = title-casing of the first character + the above lower-casing of the rest, in
                        the context of the whole string (CPython >= 3.8).
Both assumptions are checked here against the running interpreter (every code point in several
contexts + a seeded random self-test); anything else fails closed."""
import random

from common import (HEADER, MAXCP, PYVER, Unsupported, cache_get, cache_put, cset_term, ranges_of)

SIGMA, FINAL, NONFINAL = 0x3A3, 0x3C2, 0x3C3


def _derive():
    S = chr(SIGMA)
    if S.lower() != chr(NONFINAL) or ('a' + S).lower() != 'a' + chr(FINAL) or \
            ('a' + S + 'a').lower() != 'a' + chr(NONFINAL) + 'a':
        raise Unsupported('str.lower: U+03A3 does not follow the Final_Sigma rule')
    cased_ni, ci = [], []
    for c in range(MAXCP):
        ch = chr(c)
        t1 = (ch + S).lower()[-1] == chr(FINAL)            # c is cased and not case-ignorable
        t2 = ('a' + ch + S).lower()[-1] == chr(FINAL)      # ... or c is case-ignorable
        t3 = ('a' + S + ch).lower()[1] == chr(NONFINAL)    # forward direction sees the same class
        if t3 != t1 or (t1 and not t2):
            raise Unsupported(f'str.lower: Final_Sigma classes inconsistent at U+{c:04X}')
        if t1:
            cased_ni.append(c)
        elif t2:
            ci.append(c)
        if c != SIGMA:
            lo = ch.lower()
            # context-freeness of every other character, and the shape of capitalize
            if ('a' + ch).lower() != 'a' + lo or (ch + 'a').lower() != lo + 'a' or \
                    ('A' + ch + 'A').lower() != 'a' + lo + 'a' or ("a'" + ch + '.').lower() != "a'" + lo + '.':
                raise Unsupported(f'str.lower is context-sensitive at U+{c:04X}')
            if ('A' + ch).capitalize() != 'A' + lo:
                raise Unsupported(f'str.capitalize: tail is not lower-cased at U+{c:04X}')
        if (ch + 'B').capitalize() != ch.title() + 'b' or ch.capitalize() != ch.title():
            raise Unsupported(f'str.capitalize: head is not title-cased at U+{c:04X} (CPython < 3.8?)')
    return {'cased_ni': ranges_of(cased_ni), 'ci': ranges_of(ci), 'n_cased_ni': len(cased_ni), 'n_ci': len(ci)}


def _in(ranges, c):
    for lo, hi in ranges:
        if lo <= c <= hi:
            return True
    return False


def model_lower_go(got, st, s):
    """Reference implementation of Filters/TokFilters.v lower_go (used for the self-test only)."""
    cis = got['_ci']
    cns = got['_cn']
    out = []
    for i, ch in enumerate(s):
        c = ord(ch)
        if c == SIGMA:
            fin = False
            if st:
                j = i + 1
                while j < len(s) and ord(s[j]) in cis:
                    j += 1
                fin = j == len(s) or ord(s[j]) not in cns
            out.append(chr(FINAL) if fin else chr(NONFINAL))
        else:
            out.append(ch.lower())
        if c not in cis:
            st = c in cns
    return ''.join(out)


def model_lower(got, s):
    return model_lower_go(got, False, s)


def model_capitalize(got, s):
    if not s:
        return s
    c = ord(s[0])
    st = (c in got['_cn']) if c not in got['_ci'] else False
    return s[0].title() + model_lower_go(got, st, s[1:])


def _selftest(got):
    got['_ci'] = {c for lo, hi in got['ci'] for c in range(lo, hi + 1)}
    got['_cn'] = {c for lo, hi in got['cased_ni'] for c in range(lo, hi + 1)}
    r = random.Random(20240)
    pool = [SIGMA] * 4 + [FINAL, NONFINAL, 97, 65, 32, 39, 0x2e, 0x3a, 0xad, 0x345, 0x2b0, 0x130, 0x131, 0xdf,
                          0x149, 0x1c5, 0xfb01, 0x300, 0x307, 0x1fb7, 0x1f88]
    for _ in range(40000):
        n = r.randrange(0, 9)
        s = ''.join(chr(r.choice(pool) if r.random() < 0.9 else r.randrange(MAXCP)) for _ in range(n))
        if model_lower(got, s) != s.lower():
            raise Unsupported('str.lower differs from the modelled algorithm on ' + repr([hex(ord(x)) for x in s]))
        if model_capitalize(got, s) != s.capitalize():
            raise Unsupported('str.capitalize differs from the modelled algorithm on ' + repr([hex(ord(x)) for x in s]))
    del got['_ci'], got['_cn']


def generate():
    key = f'casetabs2|{PYVER}'
    got = cache_get(key)
    if got is None:
        got = _derive()
        cache_put(key, got)
    _selftest(got)
    out = [HEADER, 'From SqlModel Require Import Base.\n',
           f'(* interpreter: CPython {PYVER} *)',
           f'(* code points that are cased and not case-ignorable (Final_Sigma rule): {got["n_cased_ni"]} *)',
           f'Definition cased_ni_set : cset := {cset_term([tuple(r) for r in got["cased_ni"]])}.\n',
           f'(* case-ignorable code points: {got["n_ci"]} *)',
           f'Definition case_ignorable_set : cset := {cset_term([tuple(r) for r in got["ci"]])}.\n',
           '(* the only context-sensitive character of str.lower and its two images (checked by the translator) *)',
           f'Definition sigma_cp : N := {SIGMA}.',
           f'Definition final_sigma_cp : N := {FINAL}.',
           f'Definition nonfinal_sigma_cp : N := {NONFINAL}.', '']
    side = {'python': PYVER, 'cased_not_ignorable': got['n_cased_ni'], 'case_ignorable': got['n_ci'],
            'selftest_strings': 40000}
    return {'CaseTabs2.v': '\n'.join(out)}, side
