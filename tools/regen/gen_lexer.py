"""Gen/Atoms.v, Gen/Rules.v, Gen/CaseTabs.v, Gen/KwTabs.v: everything the lexer model consumes."""
import ast
import inspect
import re
import sys
import _sre

from common import (coq_comment, Unsupported, GEN, HEADER, MAXCP, PYVER, coq_text, coq_ttype, cset_term,
                    ranges_of, umap_term, write_if_changed, cache_get, cache_put, assert_repo)
import rx


def gen_casetabs():
    key = f'casetabs|{PYVER}'
    got = cache_get(key)
    if got is None:
        upper = []
        lower = []
        full_lower = []
        title = []
        space = []
        for c in range(MAXCP):
            ch = chr(c)
            u = ch.upper()
            if u != ch:
                upper.append((c, [ord(x) for x in u]))
            l = _sre.unicode_tolower(c)
            if l != c:
                lower.append((c, [l]))
            fl = ch.lower()
            if fl != ch:
                full_lower.append((c, [ord(x) for x in fl]))
            ti = ch.title()
            if ti != ch:
                title.append((c, [ord(x) for x in ti]))
            if ch.isspace():
                space.append(c)
        got = {'upper': upper, 'lower': lower, 'full_lower': full_lower, 'title': title,
               'space': ranges_of(space)}
        cache_put(key, got)
    out = [HEADER, 'From SqlModel Require Import Base PyStr.\n',
           f'(* str.upper() images differing from the character: {len(got["upper"])} entries *)',
           f'Definition upper_tab : umap := {umap_term([(k, v) for k, v in got["upper"]])}.\n',
           f'(* _sre.unicode_tolower images differing from the character: {len(got["lower"])} *)',
           f'Definition lower_tab : umap := {umap_term([(k, v) for k, v in got["lower"]])}.\n',
           f'(* str.lower() of a single character: {len(got["full_lower"])} *)',
           f'Definition full_lower_tab : umap := {umap_term([(k, v) for k, v in got["full_lower"]])}.\n',
           f'(* str.title() of a single character: {len(got["title"])} *)',
           f'Definition title_tab : umap := {umap_term([(k, v) for k, v in got["title"]])}.\n',
           '(* code points for which str.isspace() holds *)',
           f'Definition space_set : cset := {cset_term([tuple(r) for r in got["space"]])}.\n',
           'Definition upper (t : text) : text := py_upper upper_tab t.',
           'Definition lower (c : N) : N := simple_lower lower_tab c.', '']
    return '\n'.join(out), got


def action_term(tt):
    from sqlparse import tokens, keywords
    if tt is keywords.PROCESS_AS_KEYWORD:
        return 'AsKeyword'
    if isinstance(tt, tokens._TokenType):
        return f'(Emit {coq_ttype(tt)})'
    raise Unsupported(f'rule action {tt!r} is neither a token type nor PROCESS_AS_KEYWORD')


def lexer_flags():
    """Flags Lexer.set_SQL_REGEX compiles with, read from its source (fail closed otherwise)."""
    from sqlparse import lexer
    src = inspect.getsource(lexer.Lexer.set_SQL_REGEX)
    tree = ast.parse(src.strip() if not src.startswith(' ') else 'class X:\n' + src)
    flags = None
    compiled = False
    for node in ast.walk(tree):
        if isinstance(node, ast.Assign) and len(node.targets) == 1 and \
                isinstance(node.targets[0], ast.Name) and node.targets[0].id == 'FLAGS':
            flags = eval(compile(ast.Expression(node.value), '<flags>', 'eval'), {'re': re})
        if isinstance(node, ast.Call) and ast.unparse(node.func) == 're.compile':
            args = [ast.unparse(a) for a in node.args]
            if args != ['rx', 'FLAGS']:
                raise Unsupported(f're.compile called with {args} in set_SQL_REGEX')
            compiled = True
    if flags is None or not compiled:
        raise Unsupported('set_SQL_REGEX no longer has the shape FLAGS = ...; re.compile(rx, FLAGS).match')
    return flags


def default_init_calls():
    """Ordered (method, argument) calls of Lexer.default_initialization, from its AST."""
    from sqlparse import lexer
    src = inspect.getsource(lexer.Lexer.default_initialization)
    tree = ast.parse('class X:\n' + src)
    fn = tree.body[0].body[0]
    calls = []
    for stmt in fn.body:
        if isinstance(stmt, ast.Expr) and isinstance(stmt.value, ast.Constant):
            continue  # docstring
        if not (isinstance(stmt, ast.Expr) and isinstance(stmt.value, ast.Call)):
            raise Unsupported('default_initialization: statement ' + ast.unparse(stmt))
        call = stmt.value
        f = ast.unparse(call.func)
        if not f.startswith('self.') or call.keywords:
            raise Unsupported('default_initialization: call ' + ast.unparse(call))
        calls.append((f[5:], [ast.unparse(a) for a in call.args]))
    return calls


def generate():
    assert_repo()
    from sqlparse import keywords, lexer
    files = {}
    atoms = rx.Atoms()
    flags = lexer_flags()

    # --- SQL_REGEX as used by default_initialization
    calls = default_init_calls()
    if not calls or calls[0] != ('clear', []):
        raise Unsupported('default_initialization does not start with self.clear()')
    regex_src = None
    kw_names = []
    for meth, args in calls[1:]:
        if meth == 'set_SQL_REGEX' and len(args) == 1 and regex_src is None and not kw_names:
            regex_src = args[0]
        elif meth == 'add_keywords' and len(args) == 1:
            kw_names.append(args[0])
        else:
            raise Unsupported(f'default_initialization: self.{meth}({", ".join(args)})')
    if regex_src != 'keywords.SQL_REGEX':
        raise Unsupported(f'set_SQL_REGEX argument {regex_src!r}')
    rules = []
    side = []
    for i, (pat, tt) in enumerate(keywords.SQL_REGEX):
        term, ngroups = rx.translate(pat, flags, atoms)
        rules.append(f'  (* {i}: {coq_comment(pat)} *)\n  ({term}, {action_term(tt)})')
        side.append({'index': i, 'pattern': pat, 'action': repr(tt)})
    word = atoms.word(flags)
    space = atoms.space(flags)
    rules_v = [HEADER, 'From SqlModel Require Import Base Re Lexer.', 'From SqlModel.Gen Require Import Atoms.\n',
               f'(* keywords.SQL_REGEX compiled with flags {int(flags)} ({flags!r}) *)',
               'Definition sql_regex : list rule := [', ';\n'.join(rules), '].\n',
               f'Definition word_set : cset := {word}.',
               f'Definition regex_space_set : cset := {space}.', '']
    files['Rules.v'] = '\n'.join(rules_v)

    # --- keyword dictionaries in registration order
    kw_v = [HEADER, 'From SqlModel Require Import Base Lexer.\n']
    names = []
    for j, expr in enumerate(kw_names):
        if not expr.startswith('keywords.'):
            raise Unsupported(f'add_keywords argument {expr!r}')
        d = getattr(keywords, expr[len('keywords.'):])
        if not isinstance(d, dict):
            raise Unsupported(f'{expr} is not a dict')
        entries = []
        for k, v in d.items():
            if not isinstance(k, str):
                raise Unsupported(f'{expr}: key {k!r}')
            entries.append(f'  ({coq_text(k)}, {coq_ttype(v)})')
        nm = f'kw_{j}'
        names.append(nm)
        kw_v.append(f'(* {expr}: {len(entries)} entries *)')
        kw_v.append(f'Definition {nm} : kwdict := [\n' + ';\n'.join(entries) + '\n].\n')
        side.append({'dict': expr, 'size': len(entries)})
    kw_v.append('Definition kws : list kwdict := [' + '; '.join(names) + '].\n')
    files['KwTabs.v'] = '\n'.join(kw_v)

    case_v, _ = gen_casetabs()
    files['CaseTabs.v'] = case_v
    files['Atoms.v'] = HEADER + 'From SqlModel Require Import Base.\n\n' + atoms.emit()
    return files, side, atoms


if __name__ == '__main__':
    files, side, _ = generate()
    for name, content in files.items():
        ch = write_if_changed(f'{GEN}/{name}', content)
        print(name, 'changed' if ch else 'same', len(content))
