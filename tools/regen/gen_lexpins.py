"""Gen/LexPins.v: shape pins of the HAND-MODELLED parts of sqlparse/lexer.py (class Lexer).

Lexer/Lexer.v models the scan loop of get_tokens and is_keyword by hand (kw_lookup = the first dictionary in
registration order that lists value.upper(), else Name; the first rule whose regex matches at pos, else one Error
character; consume() skips the rest of the match).  The model is tied to the code by the lex correspondence AND by
these pins: the statements of the methods must be exactly the ones the model was written from (docstrings and comments
ignored, compared as ASTs), and the class must have no class-level state besides the singleton and its lock.  Anything
else fails closed: Props/C01.v, C14.v and C20.v require the generated file."""
import ast

from common import Unsupported, HEADER, assert_repo


PINNED = {
    'clear': ["self._SQL_REGEX = []", "self._keywords = []"],
    'add_keywords': ["self._keywords.append(keywords)"],
    'is_keyword': ["val = value.upper()",
                   "for kwdict in self._keywords:\n    if val in kwdict:\n        return (kwdict[val], value)\n"
                   "else:\n    return (tokens.Name, value)"],
    'get_tokens.ladder': [
        "if isinstance(text, TextIOBase):\n    text = text.read()",
        "if isinstance(text, str):\n    pass\nelif isinstance(text, bytes):\n    if encoding:\n        text = text.decode(encoding)\n"
        "    else:\n        try:\n            text = text.decode('utf-8')\n        except UnicodeDecodeError:\n"
        "            text = text.decode('latin-1')\nelse:\n"
        "    raise TypeError('Expected text or file-like object, got {!r}'.format(type(text)))"],
    'get_tokens.scan': [
        "iterable = enumerate(text)",
        "for (pos, char) in iterable:\n    for (rexmatch, action) in self._SQL_REGEX:\n        m = rexmatch(text, pos)\n"
        "        if not m:\n            continue\n        elif isinstance(action, tokens._TokenType):\n"
        "            yield (action, m.group())\n        elif action is keywords.PROCESS_AS_KEYWORD:\n"
        "            yield self.is_keyword(m.group())\n        consume(iterable, m.end() - pos - 1)\n        break\n"
        "    else:\n        yield (tokens.Error, char)"],
}


def _body(fn):
    b = fn.body
    if b and isinstance(b[0], ast.Expr) and isinstance(b[0].value, ast.Constant) and isinstance(b[0].value.value, str):
        b = b[1:]
    return b


def _dumps(stmts):
    return [ast.dump(st) for st in stmts]


def _pin_dumps(srcs):
    # pinned statements are compared as ASTs (parsed by the same interpreter), not as text
    out = []
    for src in srcs:
        wrapped = 'def f():\n' + ''.join('    ' + ln + '\n' for ln in src.split('\n'))
        out.append(ast.dump(ast.parse(wrapped).body[0].body[0]))
    return out


def check_pins():
    from common import REPO
    import os
    src = open(os.path.join(REPO, 'sqlparse', 'lexer.py'), encoding='utf-8').read()
    mod = ast.parse(src)
    cls = [n for n in mod.body if isinstance(n, ast.ClassDef) and n.name == 'Lexer']
    if len(cls) != 1:
        raise Unsupported('sqlparse/lexer.py: class Lexer not found exactly once')
    cls = cls[0]
    funs = {n.name: n for n in cls.body if isinstance(n, ast.FunctionDef)}
    # class-level state: only the singleton and its lock (a new class attribute is new shared state)
    attrs = sorted(t.id for n in cls.body if isinstance(n, ast.Assign) for t in n.targets if isinstance(t, ast.Name))
    if attrs != ['_default_instance', '_lock']:
        raise Unsupported(f'sqlparse/lexer.py: class-level attributes of Lexer are {attrs}, the model knows _default_instance and _lock')
    for name in ('clear', 'add_keywords', 'is_keyword'):
        if name not in funs:
            raise Unsupported(f'Lexer.{name} not found')
        got = [ast.unparse(st) for st in _body(funs[name])]
        if _dumps(_body(funs[name])) != _pin_dumps(PINNED[name]):
            raise Unsupported(f'Lexer.{name}: body is {got!r}; the model was written from {PINNED[name]!r}')
    gt = funs.get('get_tokens')
    if gt is None:
        raise Unsupported('Lexer.get_tokens not found')
    body = _body(gt)
    # the whole body: the decode ladder (two statements, translated by gen_frontends) and the scan loop (two statements);
    # anything in between (a pre-processing step that rewrites, strips or normalises the text) is not modelled
    if len(body) != 4:
        raise Unsupported('Lexer.get_tokens has %d top-level statements, the model was written from 4 (decode ladder: '
                          'stream read, str/bytes ladder; scan: enumerate, for loop): %r'
                          % (len(body), [ast.unparse(st)[:60] for st in body]))
    if _dumps(body[:2]) != _pin_dumps(PINNED['get_tokens.ladder']):
        raise Unsupported('Lexer.get_tokens: decode ladder is %r; the model was written from %r'
                          % ([ast.unparse(st) for st in body[:2]], PINNED['get_tokens.ladder']))
    got = [ast.unparse(st) for st in body[-2:]]
    if _dumps(body[-2:]) != _pin_dumps(PINNED['get_tokens.scan']):
        raise Unsupported(f'Lexer.get_tokens: scan loop is {got!r}; the model was written from {PINNED["get_tokens.scan"]!r}')
    # utils.consume: the body the model's skip counter was written from, and its behaviour for small and LARGE n
    usrc = open(os.path.join(REPO, 'sqlparse', 'utils.py'), encoding='utf-8').read()
    ufuns = {n.name: n for n in ast.parse(usrc).body if isinstance(n, ast.FunctionDef)}
    if 'consume' not in ufuns:
        raise Unsupported('utils.consume not found')
    if _dumps(_body(ufuns['consume'])) != _pin_dumps(["deque(itertools.islice(iterator, n), maxlen=0)"]):
        raise Unsupported('utils.consume: body is %r; the model was written from deque(itertools.islice(iterator, n), maxlen=0)'
                          % [ast.unparse(st) for st in _body(ufuns['consume'])])
    # consume(iterator, n) advances the iterator by n
    from sqlparse import utils
    it = iter(range(10))
    utils.consume(it, 3)
    if next(it) != 3:
        raise Unsupported('utils.consume(iterator, n) does not advance the iterator by n')
    it = iter(range(10))
    utils.consume(it, 0)
    utils.consume(it, -1) if False else None
    if next(it) != 0:
        raise Unsupported('utils.consume(iterator, 0) is not a no-op')
    for big in (4095, 4096, 4097, 65535, 65536, 1 << 20):
        it = iter(range(big + 5))
        utils.consume(it, big)
        if next(it) != big:
            raise Unsupported(f'utils.consume(iterator, {big}) does not advance the iterator by {big}')


def generate():
    assert_repo()
    check_pins()
    lines = [HEADER if isinstance(HEADER, str) else '', '(* every pinned method body of sqlparse/lexer.py has the shape the model was written from *)',
             'Definition lexer_shape_checked : bool := true.',
             'Definition lexer_class_state : list (list nat) := nil.  (* class-level attributes besides _default_instance/_lock: none *)', '']
    side = {'pinned': PINNED, 'class_attributes': ['_default_instance', '_lock']}
    return {'LexPins.v': '\n'.join(lines)}, side
