"""Gen/SiteInv.v: the inventory of MUTATION SITES of the layout filters (property C06, layer 1).

Every statement/expression of the four layout filter classes

    sqlparse/filters/reindent.py        ReindentFilter
    sqlparse/filters/aligned_indent.py  AlignedIndentFilter
    sqlparse/filters/others.py          StripWhitespaceFilter, SpacesAroundOperatorsFilter

that can change a token tree or a token is listed as a `site` and classified from its syntactic
form and its dominating guard (see coq/theories/Filters/Sites.v for the kinds).  FAIL-CLOSED:

* a statement or expression form outside the recognised subset raises Unsupported (the generated
  file then does not compile);
* a call of anything that is not: a method of the same class, a pinned read-only accessor of
  sqlparse.sql, a pure builtin / str method, a mutator of a provably fresh local list, the
  context managers utils.offset/indent, or the constructor sql.Token - is a site of kind Unknown;
* an assignment / deletion whose target is not a local name or a field of the filter object is a
  site (classified, or Unknown);
* the helpers of sqlparse/sql.py, utils.py, engine/filter_stack.py and __init__.py the
  classification relies on are pinned by the hash of their AST (hand-audited, see PINNED).

Also emitted (as facts checked by vm_compute in Inst/C06.v):
* which statement filters build_filter_stack can install when only layout options are given,
  and that validate_options cannot switch on any non-layout option;
* every value the fields `n` and `char` of the two re-indenting filters can take under format().
"""
import ast
import hashlib
import os

from common import Unsupported, HEADER, REPO, assert_repo, coq_comment, coq_text, coq_ttype
from pyfun import span

COVERED = [
    ('sqlparse/filters/reindent.py', 'ReindentFilter'),
    ('sqlparse/filters/aligned_indent.py', 'AlignedIndentFilter'),
    ('sqlparse/filters/others.py', 'StripWhitespaceFilter'),
    ('sqlparse/filters/others.py', 'SpacesAroundOperatorsFilter'),
]

# the options of property C06 (and the keys validate_options derives from them)
LAYOUT_OPTIONS = ['reindent', 'reindent_aligned', 'strip_whitespace', 'use_space_around_operators',
                  'indent_width', 'indent_tabs', 'indent_after_first', 'indent_columns', 'wrap_after',
                  'comma_first', 'compact']
LAYOUT_DERIVED = ['indent_char']
NONLAYOUT_OPTIONS = ['keyword_case', 'identifier_case', 'truncate_strings', 'truncate_char',
                     'strip_comments', 'right_margin', 'output_format']

# ---- call classification tables ----------------------------------------------------------------
TREE_MUTATORS = {'insert_before', 'insert_after', 'group_tokens'}
LIST_MUTATORS = {'insert', 'append', 'extend', 'pop', 'remove', 'clear', 'sort', 'reverse',
                 '__setitem__', '__delitem__', '__iadd__', '__imul__'}
# read-only accessors of sqlparse.sql objects (every definition of these names in sql.py is pinned)
READONLY_SQL = {'token_next', 'token_prev', 'token_next_by', 'token_index', 'token_first',
                'get_sublists', 'flatten', 'get_identifiers', 'get_cases', 'match', 'within'}
# methods of immutable str objects
READONLY_STR = {'endswith', 'startswith', 'split', 'splitlines', 'join', 'lower', 'upper', 'strip',
                'rstrip', 'lstrip'}
PURE_BUILTINS = {'len', 'str', 'list', 'iter', 'next', 'max', 'min', 'sum', 'map', 'enumerate',
                 'isinstance', 'type', 'int', 'tuple', 'reversed', 'range'}
TOKEN_SLOTS = {'value', 'ttype', 'parent', 'normalized', 'is_keyword', 'is_group', 'is_whitespace',
               'is_newline', 'tokens'}
# producers of fresh lists (a local bound ONLY to these may be mutated freely)
FRESH_LIST_CALLS = {'list'}
FRESH_LIST_METHODS = {'get_cases'}            # Case.get_cases builds and returns a new list (pinned)
PAIR_ACCESSORS = {'token_prev', 'token_next', 'token_next_by'}   # return (i, self.tokens[i]) | (None, None)

ALLOWED_STMTS = (ast.FunctionDef, ast.Return, ast.Delete, ast.Assign, ast.AugAssign, ast.For,
                 ast.While, ast.If, ast.With, ast.Expr, ast.Pass, ast.Break, ast.Continue)
ALLOWED_EXPRS = (ast.BoolOp, ast.BinOp, ast.UnaryOp, ast.IfExp, ast.ListComp, ast.GeneratorExp,
                 ast.Yield, ast.Compare, ast.Call, ast.JoinedStr, ast.FormattedValue, ast.Constant,
                 ast.Attribute, ast.Subscript, ast.Name, ast.List, ast.Tuple, ast.Slice,
                 ast.comprehension, ast.keyword, ast.withitem, ast.arguments, ast.arg,
                 ast.expr_context, ast.boolop, ast.operator, ast.unaryop, ast.cmpop)

# ---- pinned helpers: sha256(ast.unparse(FunctionDef))[:16] ------------------------------------------
# Audited by hand (2026-10): insert_before/insert_after insert exactly their `token` argument into
# self.tokens and set its parent; _token_matching/token_next/token_prev/token_next_by return
# (idx, self.tokens[idx]) or (None, None) and mutate nothing; token_index, token_first, flatten,
# get_sublists, get_identifiers, get_cases (fresh list), match, within, imt mutate nothing;
# Token.__init__ caches is_whitespace = ttype in T.Whitespace (False for groups: ttype None);
# TokenList.__init__ keeps the list object it is given (`tokens or []`) and re-parents its elements;
# utils.offset/indent only change filter_.offset / filter_.indent; FilterStack.run calls
# filter_.process(stmt) for the stmtprocess filters in order; sqlparse.format builds the stack
# with validate_options + build_filter_stack and appends SerializerUnicode as a POSTprocess filter.
PINNED = {
    ('sqlparse/sql.py', 'Token.__init__'): None,
    ('sqlparse/sql.py', 'Token.__str__'): None,
    ('sqlparse/sql.py', 'Token.flatten'): None,
    ('sqlparse/sql.py', 'Token.match'): None,
    ('sqlparse/sql.py', 'Token.within'): None,
    ('sqlparse/sql.py', 'TokenList.__init__'): None,
    ('sqlparse/sql.py', 'TokenList.__str__'): None,
    ('sqlparse/sql.py', 'TokenList.__iter__'): None,
    ('sqlparse/sql.py', 'TokenList.__getitem__'): None,
    ('sqlparse/sql.py', 'TokenList.flatten'): None,
    ('sqlparse/sql.py', 'TokenList.get_sublists'): None,
    ('sqlparse/sql.py', 'TokenList._token_matching'): None,
    ('sqlparse/sql.py', 'TokenList.token_first'): None,
    ('sqlparse/sql.py', 'TokenList.token_next_by'): None,
    ('sqlparse/sql.py', 'TokenList.token_prev'): None,
    ('sqlparse/sql.py', 'TokenList.token_next'): None,
    ('sqlparse/sql.py', 'TokenList.token_index'): None,
    ('sqlparse/sql.py', 'TokenList.insert_before'): None,
    ('sqlparse/sql.py', 'TokenList.insert_after'): None,
    ('sqlparse/sql.py', 'TokenList.group_tokens'): None,
    ('sqlparse/sql.py', 'IdentifierList.get_identifiers'): None,
    ('sqlparse/sql.py', 'Case.get_cases'): None,
    ('sqlparse/utils.py', 'imt'): None,
    ('sqlparse/utils.py', 'offset'): None,
    ('sqlparse/utils.py', 'indent'): None,
    ('sqlparse/tokens.py', '_TokenType.__contains__'): None,
    ('sqlparse/engine/filter_stack.py', 'FilterStack.__init__'): None,
    ('sqlparse/engine/filter_stack.py', 'FilterStack.enable_grouping'): None,
    ('sqlparse/engine/filter_stack.py', 'FilterStack.run'): None,
    ('sqlparse/__init__.py', 'format'): None,
}
PINNED_HASHES = {
    # from the audited tree (sqlparse 0.5.4.dev0); regenerate with `python gen_sites.py --pins` after a re-audit
    'sqlparse/sql.py:Token.__init__': 'fc5b934291c84c10',
    'sqlparse/sql.py:Token.__str__': 'ac8e126c90fa2829',
    'sqlparse/sql.py:Token.flatten': '5e4946a55825e510',
    'sqlparse/sql.py:Token.match': 'b2f242c60b029c50',
    'sqlparse/sql.py:Token.within': 'a1019e7ad5428580',
    'sqlparse/sql.py:TokenList.__init__': '4ffb11933f82b853',
    'sqlparse/sql.py:TokenList.__str__': '7218096432969df2',
    'sqlparse/sql.py:TokenList.__iter__': 'b77d21cecb2f128c',
    'sqlparse/sql.py:TokenList.__getitem__': 'f8b7bdcb280b15cf',
    'sqlparse/sql.py:TokenList.flatten': 'b0b3be6e8c0751c6',
    'sqlparse/sql.py:TokenList.get_sublists': '913b6ba92bf1b69c',
    'sqlparse/sql.py:TokenList._token_matching': '362e959795962e91',
    'sqlparse/sql.py:TokenList.token_first': '72b205e26d04f862',
    'sqlparse/sql.py:TokenList.token_next_by': '1fff7be4000cb112',
    'sqlparse/sql.py:TokenList.token_prev': '401ed5afc23efa30',
    'sqlparse/sql.py:TokenList.token_next': 'a7c6be7464e65e75',
    'sqlparse/sql.py:TokenList.token_index': '616c56fadd4af2f1',
    'sqlparse/sql.py:TokenList.insert_before': '8632f4859e492f87',
    'sqlparse/sql.py:TokenList.insert_after': '9721273e7d539872',
    'sqlparse/sql.py:TokenList.group_tokens': '7e9a5095860b8e96',
    'sqlparse/sql.py:IdentifierList.get_identifiers': 'b62d129fce73cb15',
    'sqlparse/sql.py:Case.get_cases': '9a44d2779895e472',
    'sqlparse/utils.py:imt': 'a02e32156ff8628a',
    'sqlparse/utils.py:offset': '9de69da5a315dc69',
    'sqlparse/utils.py:indent': 'ac44ebc21bf8e88d',
    'sqlparse/tokens.py:_TokenType.__contains__': '19808afe95b760c0',
    'sqlparse/engine/filter_stack.py:FilterStack.__init__': 'b8db29b0c78d78f8',
    'sqlparse/engine/filter_stack.py:FilterStack.enable_grouping': 'c96c4d47c834e195',
    'sqlparse/engine/filter_stack.py:FilterStack.run': '81c811bead61c357',
    'sqlparse/__init__.py:format': 'ad3d16fe9e4eb11a',
}


def _read(rel):
    with open(os.path.join(REPO, rel), encoding='utf-8') as f:
        return f.read()


def _functions(mod):
    """qualified name -> FunctionDef for module-level functions and methods of module-level classes"""
    out = {}
    for n in mod.body:
        if isinstance(n, ast.FunctionDef):
            out.setdefault(n.name, []).append(n)
        elif isinstance(n, ast.ClassDef):
            for m in n.body:
                if isinstance(m, ast.FunctionDef):
                    out.setdefault(f'{n.name}.{m.name}', []).append(m)
    return out


def _hash(node):
    return hashlib.sha256(ast.unparse(node).encode()).hexdigest()[:16]


def pin_table():
    table = {}
    mods = {}
    for (rel, qn) in PINNED:
        if rel not in mods:
            mods[rel] = _functions(ast.parse(_read(rel)))
        defs = mods[rel].get(qn, [])
        if len(defs) != 1:
            raise Unsupported(f'pinned helper {rel}:{qn} has {len(defs)} definitions')
        table[f'{rel}:{qn}'] = _hash(defs[0])
    return table


def check_pins(side):
    got = pin_table()
    side['pinned'] = got
    bad = [k for k, v in got.items() if PINNED_HASHES.get(k) != v]
    if bad:
        raise Unsupported('pinned helpers changed (re-audit them and update PINNED_HASHES): ' + ', '.join(sorted(bad)))
    # every definition in sql.py of a whitelisted read-only accessor must be one of the pinned ones;
    # no class of sql.py may customise equality / attribute access
    sqlmod = ast.parse(_read('sqlparse/sql.py'))
    for qn, defs in _functions(sqlmod).items():
        base = qn.split('.')[-1]
        if base in READONLY_SQL | TREE_MUTATORS and ('sqlparse/sql.py', qn) not in PINNED:
            raise Unsupported(f'sql.py defines {qn}, a whitelisted accessor name that is not pinned')
        if base in ('__eq__', '__ne__', '__hash__', '__setattr__', '__getattr__', '__getattribute__',
                    '__delattr__', '__bool__', '__len__', '__contains__', '__set_name__', '__init_subclass__'):
            raise Unsupported(f'sql.py defines {qn}: identity/attribute semantics of tokens changed')
    for n in ast.walk(sqlmod):
        if isinstance(n, ast.ClassDef):
            if n.decorator_list or n.keywords:
                raise Unsupported(f'sql.py class {n.name} has decorators/metaclass')
    # __slots__ of Token / TokenList are what the inventory of attribute assignments assumes
    slots = {}
    for n in sqlmod.body:
        if isinstance(n, ast.ClassDef) and n.name in ('Token', 'TokenList'):
            for s in n.body:
                if isinstance(s, ast.Assign) and ast.unparse(s.targets[0]) == '__slots__':
                    v = ast.literal_eval(s.value)
                    slots[n.name] = {v} if isinstance(v, str) else set(v)
    if slots.get('Token', set()) | slots.get('TokenList', set()) != TOKEN_SLOTS:
        raise Unsupported(f'Token/TokenList __slots__ are {slots}, the inventory knows {sorted(TOKEN_SLOTS)}')
    side['token_slots'] = sorted(TOKEN_SLOTS)


# ==================================================================================================
class Site:
    def __init__(self, rel, fn, node, kind, why=None):
        self.rel = rel
        self.fn = fn
        self.node = node
        self.kind = kind            # Coq term of type `kind`
        self.why = why

    @property
    def line(self):
        return self.node.lineno

    @property
    def end(self):
        return self.node.end_lineno


def coq_string(s):
    s = ''.join(ch if 32 <= ord(ch) < 127 else ' ' for ch in str(s))
    s = ' '.join(s.split())
    return '"' + s.replace('"', '""') + '"%string'


class ClassAnalysis:
    """Analysis of one covered class."""

    def __init__(self, rel, cls, mod, field_vals):
        self.rel = rel
        self.cls = cls
        self.mod = mod
        self.field_vals = field_vals      # {'n': [...], 'char': [...]} or {}
        self.sites = []
        self.local_ops = []
        self.internal_calls = []
        self.readonly_calls = []
        self.field_assigns = []
        self.methods = {}
        self.parent = {}
        self.check_shape()

    def fail(self, node, why):
        raise Unsupported(f'{self.rel}:{getattr(node, "lineno", "?")} {self.cls.name}: {why}: '
                          f'`{ast.unparse(node)[:120]}`', span(node))

    # ---- class shape
    def check_shape(self):
        c = self.cls
        if c.bases or c.keywords or c.decorator_list:
            self.fail(c, 'covered class has bases / metaclass / decorators')
        for s in c.body:
            if isinstance(s, ast.Expr) and isinstance(s.value, ast.Constant) and isinstance(s.value.value, str):
                continue
            if isinstance(s, ast.Assign):
                # class-level constants (str / tuples of str and names of earlier constants)
                for n in ast.walk(s.value):
                    if not isinstance(n, (ast.Constant, ast.Tuple, ast.Name, ast.Load, ast.BinOp, ast.Add)):
                        self.fail(s, 'class-level assignment is not a constant')
                if not all(isinstance(t, ast.Name) for t in s.targets):
                    self.fail(s, 'class-level assignment target')
                continue
            if isinstance(s, ast.FunctionDef):
                for d in s.decorator_list:
                    if ast.unparse(d) not in ('staticmethod', 'property'):
                        self.fail(s, f'decorator {ast.unparse(d)}')
                if s.name in self.methods:
                    self.fail(s, 'method defined twice')
                self.methods[s.name] = s
                continue
            self.fail(s, 'unexpected class body statement')
        for f in self.methods.values():
            for n in ast.walk(f):
                for ch in ast.iter_child_nodes(n):
                    self.parent[ch] = n

    # ---- helpers
    def ttype_const(self, node):
        chain = []
        n = node
        while isinstance(n, ast.Attribute):
            chain.append(n.attr)
            n = n.value
        if isinstance(n, ast.Name) and n.id == 'T' and chain:
            from sqlparse import tokens
            tt = tokens
            for a in reversed(chain):
                tt = getattr(tt, a, None)
                if tt is None:
                    return None
            return tt if isinstance(tt, tokens._TokenType) else None
        return None

    def assigns_to(self, fn, name):
        """all binding occurrences of a local name in function fn: list of (stmt, value-or-None)"""
        out = []
        for n in ast.walk(fn):
            if isinstance(n, ast.Assign):
                for t in n.targets:
                    for leaf in ast.walk(t):
                        if isinstance(leaf, ast.Name) and leaf.id == name and isinstance(leaf.ctx, ast.Store):
                            out.append((n, n.value if isinstance(t, ast.Name) else None))
            elif isinstance(n, (ast.AugAssign,)):
                if isinstance(n.target, ast.Name) and n.target.id == name:
                    out.append((n, None))
            elif isinstance(n, (ast.For, ast.comprehension)):
                for leaf in ast.walk(n.target):
                    if isinstance(leaf, ast.Name) and leaf.id == name:
                        out.append((n, None))
            elif isinstance(n, ast.With):
                for it in n.items:
                    if it.optional_vars is not None:
                        for leaf in ast.walk(it.optional_vars):
                            if isinstance(leaf, ast.Name) and leaf.id == name:
                                out.append((n, None))
            elif isinstance(n, ast.arg) and n.arg == name:
                out.append((n, None))
            elif isinstance(n, ast.FunctionDef) and n is not fn and n.name == name:
                out.append((n, None))
        return out

    def is_fresh_local_list(self, fn, name):
        binds = self.assigns_to(fn, name)
        if not binds:
            return False
        for stmt, val in binds:
            if val is None or not isinstance(val, ast.Call):
                return False
            f = val.func
            if isinstance(f, ast.Name) and f.id in FRESH_LIST_CALLS:
                continue
            if isinstance(f, ast.Attribute) and f.attr in FRESH_LIST_METHODS:
                continue
            return False
        return True

    # ---- value expressions
    def vexp(self, node, fn, depth=0):
        if depth > 8:
            return f'(VOpaque {coq_string(ast.unparse(node))})'
        if isinstance(node, ast.Constant) and isinstance(node.value, str):
            return f'(VStr {coq_text(node.value)})'
        if isinstance(node, ast.Attribute) and isinstance(node.value, ast.Name) and node.value.id == 'self' \
                and node.attr in self.field_vals:
            vals = '[' + '; '.join(coq_text(v) for v in self.field_vals[node.attr]) + ']'
            return f'(VField {coq_string(node.attr)} {vals})'
        if isinstance(node, ast.BinOp) and isinstance(node.op, ast.Mult):
            a = self.vexp(node.left, fn, depth + 1)
            if 'VOpaque' not in a:
                return f'(VRep {a})'
            b = self.vexp(node.right, fn, depth + 1)
            if 'VOpaque' not in b:
                return f'(VRep {b})'
        if isinstance(node, ast.BinOp) and isinstance(node.op, ast.Add):
            return f'(VCat {self.vexp(node.left, fn, depth + 1)} {self.vexp(node.right, fn, depth + 1)})'
        if isinstance(node, ast.IfExp):
            return f'(VAlt {self.vexp(node.body, fn, depth + 1)} {self.vexp(node.orelse, fn, depth + 1)})'
        if isinstance(node, ast.Name):
            binds = self.assigns_to(fn, node.id)
            if len(binds) == 1 and binds[0][1] is not None:
                return self.vexp(binds[0][1], fn, depth + 1)
        return f'(VOpaque {coq_string(ast.unparse(node))})'

    def token_ctor(self, node, fn, depth=0):
        """Classify an expression that is inserted into a token list -> Coq `kind` term or None."""
        if depth > 4:
            return None
        if isinstance(node, ast.Call) and ast.unparse(node.func) == 'sql.Token' and len(node.args) == 2 \
                and not node.keywords:
            tt = self.ttype_const(node.args[0])
            if tt is None:
                return None
            return f'(InsWs {coq_ttype(tt)} {self.vexp(node.args[1], fn)})'
        if isinstance(node, ast.Call) and isinstance(node.func, ast.Attribute) \
                and isinstance(node.func.value, ast.Name) and node.func.value.id == 'self' \
                and node.func.attr in self.methods:
            m = self.methods[node.func.attr]
            if m.decorator_list:
                return None
            rets = [n for n in ast.walk(m) if isinstance(n, ast.Return)]
            if len(rets) != 1 or rets[0].value is None:
                return None
            if any(isinstance(n, (ast.Yield, ast.YieldFrom)) for n in ast.walk(m)):
                return None
            return self.token_ctor(rets[0].value, m, depth + 1)
        if isinstance(node, ast.Name):
            binds = self.assigns_to(fn, node.id)
            if len(binds) == 1 and binds[0][1] is not None:
                return self.token_ctor(binds[0][1], fn, depth + 1)
        return None

    # ---- guards
    def enclosing_stmt(self, node):
        n = node
        while not isinstance(n, ast.stmt):
            n = self.parent[n]
        return n

    def guard_of(self, stmt):
        """(compound statement whose BODY starts with stmt, its positive conjuncts) or (None, [])"""
        p = self.parent.get(stmt)
        if isinstance(p, (ast.If, ast.While)) and p.body and p.body[0] is stmt:
            t = p.test
            if not self.stmt_is_quiet(t, set()):
                return None, []
            conj = list(t.values) if isinstance(t, ast.BoolOp) and isinstance(t.op, ast.And) else [t]
            flat = []
            for c in conj:
                if isinstance(c, ast.BoolOp) and isinstance(c.op, ast.And):
                    flat.extend(c.values)
                else:
                    flat.append(c)
            return p, flat
        return None, []

    def block_of(self, stmt):
        p = self.parent[stmt]
        for fld in ('body', 'orelse', 'finalbody'):
            b = getattr(p, fld, None)
            if isinstance(b, list) and any(x is stmt for x in b):
                return b
        return None

    def stmt_is_quiet(self, stmt, names):
        """no site inside stmt, no binding of any of `names`, and no call except pure builtins,
        read-only accessors / str methods on foreign objects and the sql.Token constructor (a call
        of another method of the filter could reach a site)"""
        for n in ast.walk(stmt):
            if n in self._site_nodes:
                return False
            if isinstance(n, ast.Call):
                f = n.func
                if isinstance(f, ast.Name) and f.id in PURE_BUILTINS:
                    continue
                if isinstance(f, ast.Attribute) and ast.unparse(f) == 'sql.Token':
                    continue
                if isinstance(f, ast.Attribute) and f.attr in (READONLY_SQL | READONLY_STR) \
                        and ast.unparse(f.value) not in ('self', self.cls.name):
                    continue
                return False
            if isinstance(n, ast.Name) and isinstance(n.ctx, (ast.Store, ast.Del)) and n.id in names:
                return False
        return True

    def pairing_del_subscript(self, conjuncts, recv, idx):
        """guard R[k].is_whitespace  vs  target R.pop(k) / del R[k]"""
        if not (isinstance(idx, ast.Constant) and isinstance(idx.value, int)) and \
                not (isinstance(idx, ast.UnaryOp) and isinstance(idx.op, ast.USub)
                     and isinstance(idx.operand, ast.Constant) and isinstance(idx.operand.value, int)):
            return False
        if not (isinstance(recv, ast.Attribute) and recv.attr == 'tokens'):
            return False
        want = f'{ast.unparse(recv)}[{ast.unparse(idx)}].is_whitespace'
        # the receiver expression may only read: names, .tokens, constant subscripts
        for n in ast.walk(recv):
            if not isinstance(n, (ast.Name, ast.Attribute, ast.Subscript, ast.Constant, ast.UnaryOp,
                                  ast.USub, ast.Load)):
                return False
        return any(ast.unparse(c) == want for c in conjuncts)

    def pairing_idx_tok(self, guard_stmt, conjuncts, recv, idx):
        """i, t = R.token_prev(...); if t.is_whitespace: del R.tokens[i]"""
        if not (isinstance(idx, ast.Name) and isinstance(recv, ast.Attribute) and recv.attr == 'tokens'
                and isinstance(recv.value, ast.Name)):
            return False
        R = recv.value.id
        block = self.block_of(guard_stmt)
        if block is None:
            return False
        k = [i for i, s in enumerate(block) if s is guard_stmt][0]
        for j in range(k - 1, -1, -1):
            s = block[j]
            if isinstance(s, ast.Assign) and len(s.targets) == 1 and isinstance(s.targets[0], ast.Tuple) \
                    and len(s.targets[0].elts) == 2 and all(isinstance(e, ast.Name) for e in s.targets[0].elts) \
                    and s.targets[0].elts[0].id == idx.id:
                tokname = s.targets[0].elts[1].id
                v = s.value
                if not (isinstance(v, ast.Call) and isinstance(v.func, ast.Attribute)
                        and v.func.attr in PAIR_ACCESSORS and isinstance(v.func.value, ast.Name)
                        and v.func.value.id == R):
                    return False
                if not self.stmt_is_quiet(v, {idx.id, tokname, R}):
                    return False
                return any(ast.unparse(c) == f'{tokname}.is_whitespace' for c in conjuncts)
            if not self.stmt_is_quiet(s, {idx.id, R}):
                return False
            # the paired token name is not known yet: forbid any rebinding of a name used in the guard
            guard_names = {n.id for c in conjuncts for n in ast.walk(c) if isinstance(n, ast.Name)}
            if not self.stmt_is_quiet(s, guard_names):
                return False
        return False

    def pairing_cond_assign(self, fn, conjuncts, arg):
        """v = t if t.is_whitespace else None | v = None;  if v and ...: R.tokens.remove(v)"""
        if not isinstance(arg, ast.Name):
            return False
        if not any(isinstance(c, ast.Name) and c.id == arg.id for c in conjuncts):
            return False
        binds = self.assigns_to(fn, arg.id)
        if not binds:
            return False
        for stmt, val in binds:
            if val is None:
                return False
            if isinstance(val, ast.Constant) and val.value is None:
                continue
            if isinstance(val, ast.IfExp) and isinstance(val.body, ast.Name) \
                    and ast.unparse(val.test) == f'{val.body.id}.is_whitespace' \
                    and isinstance(val.orelse, ast.Constant) and val.orelse.value is None:
                continue
            return False
        return True

    # ---- the walk
    def analyse(self):
        self._site_nodes = set()
        # pass 1: find the site nodes (so that "quiet" tests in pass 2 know them)
        found = []
        for name, fn in self.methods.items():
            self.scan(fn, fn, found)
        self._site_nodes = {n for (_, n, _) in found}
        # pass 2: classify
        for fn, node, what in found:
            kind, why = self.classify(fn, node, what)
            self.sites.append(Site(self.rel, f'{self.cls.name}.{fn.name}', node, kind, why))
        self.sites.sort(key=lambda s: (s.line, s.node.col_offset))

    def scan(self, fn, top, found):
        dispatch_names = set()
        for node in ast.walk(top):
            if node is not top and isinstance(node, (ast.Lambda, ast.ClassDef, ast.AsyncFunctionDef)):
                self.fail(node, 'unsupported construct')
            if isinstance(node, ast.stmt) and not isinstance(node, ALLOWED_STMTS):
                self.fail(node, f'unsupported statement {type(node).__name__}')
            if isinstance(node, ast.expr) and not isinstance(node, ALLOWED_EXPRS):
                self.fail(node, f'unsupported expression {type(node).__name__}')
            if isinstance(node, ast.FunctionDef) and node is not top:
                self.fail(node, 'nested function')
        # dynamic dispatch:  func = getattr(self, <name>.lower(), self.<default>);  func(tlist)
        for node in ast.walk(top):
            if isinstance(node, ast.Assign) and isinstance(node.value, ast.Call) \
                    and isinstance(node.value.func, ast.Name) and node.value.func.id == 'getattr':
                c = node.value
                ok = (len(node.targets) == 1 and isinstance(node.targets[0], ast.Name) and len(c.args) == 3
                      and not c.keywords and ast.unparse(c.args[0]) == 'self'
                      and isinstance(c.args[2], ast.Attribute) and ast.unparse(c.args[2].value) == 'self'
                      and c.args[2].attr in self.methods)
                if ok:
                    # the looked-up name must be  f'<prefix>{type(x).__name__}'.lower()  with a fixed
                    # prefix that no instance field carries: then the result is a method of this
                    # class (all covered) - classes have no bases
                    namev = c.args[1]
                    ok = (isinstance(namev, ast.Call) and isinstance(namev.func, ast.Attribute)
                          and namev.func.attr == 'lower' and isinstance(namev.func.value, ast.Name))
                    if ok:
                        b = self.assigns_to(top, namev.func.value.id)
                        ok = (len(b) == 1 and isinstance(b[0][1], ast.JoinedStr) and len(b[0][1].values) == 2
                              and isinstance(b[0][1].values[0], ast.Constant)
                              and b[0][1].values[0].value in ('_process_', '_stripws_')
                              and isinstance(b[0][1].values[1], ast.FormattedValue)
                              and ast.unparse(b[0][1].values[1].value).startswith('type(')
                              and ast.unparse(b[0][1].values[1].value).endswith(').__name__'))
                if not ok:
                    self.fail(node, 'getattr outside the recognised dispatch pattern')
                if len(self.assigns_to(top, node.targets[0].id)) != 1:
                    self.fail(node, 'dispatch variable bound twice')
                dispatch_names.add(node.targets[0].id)
        for node in ast.walk(top):
            if isinstance(node, ast.Attribute) and isinstance(node.ctx, ast.Load):
                root = node
                while isinstance(root, (ast.Attribute, ast.Subscript, ast.Call)):
                    root = root.value if not isinstance(root, ast.Call) else root.func
                rootname = root.id if isinstance(root, ast.Name) else None
                if rootname in ('sql', 'T') or (rootname in ('self', self.cls.name)
                                                and isinstance(node.value, ast.Name)):
                    continue
                if node.attr not in TOKEN_SLOTS | READONLY_SQL | READONLY_STR | TREE_MUTATORS | LIST_MUTATORS \
                        | {'__name__'}:
                    self.fail(node, f'read of unknown attribute .{node.attr}')
        for node in ast.walk(top):
            # ---- assignments / deletions
            targets = []
            if isinstance(node, ast.Assign):
                targets = [(t, 'assign') for t in node.targets]
            elif isinstance(node, ast.AugAssign):
                targets = [(node.target, 'augassign')]
            elif isinstance(node, ast.Delete):
                targets = [(t, 'del') for t in node.targets]
            elif isinstance(node, (ast.For, ast.comprehension)):
                targets = [(node.target, 'assign')]
            elif isinstance(node, ast.With):
                targets = [(it.optional_vars, 'assign') for it in node.items if it.optional_vars is not None]
            for t, how in targets:
                leaves = []
                todo = [t]
                while todo:
                    x = todo.pop()
                    if isinstance(x, (ast.Tuple, ast.List)):
                        todo.extend(x.elts)
                    else:
                        leaves.append(x)
                for leaf in leaves:
                    if isinstance(leaf, ast.Name):
                        continue
                    if isinstance(leaf, ast.Attribute) and isinstance(leaf.value, ast.Name) \
                            and leaf.value.id == 'self' and how != 'del':
                        self.field_assigns.append((fn.name, leaf.attr, node))
                        continue
                    if isinstance(leaf, ast.Subscript) and isinstance(leaf.value, ast.Name) \
                            and self.is_fresh_local_list(top, leaf.value.id):
                        self.local_ops.append((fn.name, node))
                        continue
                    found.append((fn, node, ('target', (how, leaf))))
            # ---- calls
            if isinstance(node, ast.Call):
                f = node.func
                if isinstance(f, ast.Name):
                    if f.id in PURE_BUILTINS:
                        if f.id == 'map' and not (node.args and isinstance(node.args[0], ast.Name)
                                                  and node.args[0].id in ('str', 'len')):
                            found.append((fn, node, ('call-unknown', 'map with a non-pure function')))
                        continue
                    if f.id == 'getattr':
                        continue            # validated above
                    if f.id in dispatch_names:
                        self.internal_calls.append((fn.name, '<dispatch>', node.lineno))
                        continue
                    if f.id in ('offset', 'indent') and self.imports_utils(f.id):
                        if not (node.args and ast.unparse(node.args[0]) == 'self'):
                            found.append((fn, node, ('call-unknown', 'offset/indent on a foreign object')))
                        continue
                    found.append((fn, node, ('call-unknown', f'call of {f.id}')))
                    continue
                if isinstance(f, ast.Attribute):
                    recv = f.value
                    rs = ast.unparse(recv)
                    if rs == 'self' or rs == self.cls.name:
                        if f.attr in self.methods:
                            self.internal_calls.append((fn.name, f.attr, node.lineno))
                            continue
                        found.append((fn, node, ('call-unknown', f'self.{f.attr} is not a method of the class')))
                        continue
                    if rs == 'sql':
                        if f.attr == 'Token':
                            continue        # constructor of a fresh token: no tree is touched
                        if f.attr == 'TokenList':
                            found.append((fn, node, ('rewrap', None)))
                            continue
                        found.append((fn, node, ('call-unknown', f'sql.{f.attr}(...)')))
                        continue
                    if f.attr in TREE_MUTATORS:
                        found.append((fn, node, ('tree-mutator', f.attr)))
                        continue
                    if f.attr in LIST_MUTATORS:
                        if isinstance(recv, ast.Name) and self.is_fresh_local_list(top, recv.id):
                            self.local_ops.append((fn.name, node))
                            continue
                        found.append((fn, node, ('list-mutator', f.attr)))
                        continue
                    if f.attr in READONLY_SQL or f.attr in READONLY_STR:
                        self.readonly_calls.append((fn.name, f.attr, node.lineno))
                        continue
                    found.append((fn, node, ('call-unknown', f'method .{f.attr}(...) is not whitelisted')))
                    continue
                found.append((fn, node, ('call-unknown', 'computed callee')))

    def imports_utils(self, name):
        for n in self.mod.body:
            if isinstance(n, ast.ImportFrom) and n.module == 'sqlparse.utils' and n.level == 0:
                if any((a.asname or a.name) == name and a.name == name for a in n.names):
                    return True
        return False

    def classify(self, fn, node, what):
        tag, info = what
        unk = lambda why: (f'(Unknown {coq_string(why + ": " + ast.unparse(node))})', why)  # noqa: E731
        if tag == 'call-unknown':
            return unk(info)
        if tag == 'rewrap':
            if len(node.args) == 1 and not node.keywords and isinstance(node.args[0], ast.Attribute) \
                    and node.args[0].attr == 'tokens':
                return 'Rewrap', None
            return unk('sql.TokenList of something else than X.tokens')
        if tag == 'tree-mutator':
            if info == 'group_tokens':
                return 'GroupTokens', None
            # insert_before(where, token) / insert_after(where, token, skip_ws=True)
            if len(node.args) != 2 or any(k.arg != 'skip_ws' for k in node.keywords):
                return unk('unexpected arguments')
            k = self.token_ctor(node.args[1], fn)
            return (k, None) if k else unk('inserted token expression not recognised')
        if tag == 'list-mutator':
            recv = node.func.value
            if not (isinstance(recv, ast.Attribute) and recv.attr == 'tokens'):
                return unk('list mutator on an object that is neither X.tokens nor a fresh local list')
            if node.keywords:
                return unk('keyword arguments')
            if info == 'insert' and len(node.args) == 2:
                k = self.token_ctor(node.args[1], fn)
                return (k, None) if k else unk('inserted token expression not recognised')
            if info == 'append' and len(node.args) == 1:
                k = self.token_ctor(node.args[0], fn)
                return (k, None) if k else unk('appended token expression not recognised')
            stmt = self.enclosing_stmt(node)
            if not (isinstance(stmt, ast.Expr) and stmt.value is node):
                return unk('deletion is not a statement of its own')
            gstmt, conj = self.guard_of(stmt)
            if gstmt is None:
                return unk('deletion is not the first statement of an if/while body')
            if info == 'pop':
                idx = node.args[0] if len(node.args) == 1 else (ast.Constant(value=-1) if not node.args else None)
                if idx is not None and self.pairing_del_subscript(conj, recv, idx):
                    return '(DelWsGuarded PairSubscript)', None
                return unk('pop: no guard R[k].is_whitespace matching the popped element')
            if info == 'remove' and len(node.args) == 1:
                if self.pairing_cond_assign(fn, conj, node.args[0]):
                    return '(DelWsGuarded PairCondAssign)', None
                return unk('remove: argument is not a conditionally assigned whitespace token under a truth guard')
            return unk(f'list mutator {info}')
        how, leaf = info                        # assignment / deletion targets
        stmt = self.enclosing_stmt(node)
        gstmt, conj = self.guard_of(stmt)
        if how == 'del':
            if isinstance(leaf, ast.Subscript) and isinstance(leaf.value, ast.Attribute) \
                    and leaf.value.attr == 'tokens' and len(node.targets) == 1:
                if gstmt is None:
                    return unk('del is not the first statement of an if/while body')
                if self.pairing_del_subscript(conj, leaf.value, leaf.slice):
                    return '(DelWsGuarded PairSubscript)', None
                if self.pairing_idx_tok(gstmt, conj, leaf.value, leaf.slice):
                    return '(DelWsGuarded PairIdxTok)', None
                return unk('del X.tokens[i]: no is_whitespace guard paired with the deleted element')
            return unk('del of something else than X.tokens[i]')
        if isinstance(leaf, ast.Attribute) and leaf.attr == 'value' and how == 'assign' \
                and isinstance(node, ast.Assign) and len(node.targets) == 1 and isinstance(leaf.value, ast.Name):
            if gstmt is not None and any(ast.unparse(c) == f'{leaf.value.id}.is_whitespace' for c in conj):
                return f'(SetWsValue PairSame {self.vexp(node.value, fn)})', None
            return unk('tok.value = ... without guard tok.is_whitespace')
        if isinstance(leaf, ast.Attribute):
            return unk(f'assignment to attribute .{leaf.attr} of a foreign object')
        return unk('assignment through a subscript of a foreign object')


# ==================================================================================================
def analyse_formatter(side):
    """Which statement filters can build_filter_stack install under layout options only, and which
    values reach the `char` / `n` fields."""
    mod = ast.parse(_read('sqlparse/formatter.py'))
    funs = _functions(mod)
    for need in ('validate_options', 'build_filter_stack'):
        if len(funs.get(need, [])) != 1:
            raise Unsupported(f'formatter.{need} not found')
    vo = funs['validate_options'][0]
    bs = funs['build_filter_stack'][0]
    if [a.arg for a in vo.args.args] != ['options'] or [a.arg for a in bs.args.args] != ['stack', 'options']:
        raise Unsupported('formatter: unexpected signatures')

    # ---- validate_options: the only writes to `options`
    writes = {}
    for n in ast.walk(vo):
        if isinstance(n, (ast.AugAssign, ast.Delete)):
            raise Unsupported('validate_options: augmented assignment / del', span(n))
        if isinstance(n, ast.Call) and isinstance(n.func, ast.Attribute) and ast.unparse(n.func.value) == 'options' \
                and n.func.attr != 'get':
            raise Unsupported(f'validate_options: options.{n.func.attr}(...)', span(n))
        if isinstance(n, ast.Assign):
            for t in n.targets:
                if isinstance(t, ast.Subscript) and ast.unparse(t.value) == 'options':
                    if not (isinstance(t.slice, ast.Constant) and isinstance(t.slice.value, str)):
                        raise Unsupported('validate_options: computed option key', span(n))
                    writes.setdefault(t.slice.value, []).append(n)
                elif not isinstance(t, ast.Name):
                    raise Unsupported('validate_options: assignment target ' + ast.unparse(t), span(n))
    reads = {}           # local variable -> option key it was read from
    for n in ast.walk(vo):
        if isinstance(n, ast.Assign) and len(n.targets) == 1 and isinstance(n.targets[0], ast.Name) \
                and isinstance(n.value, ast.Call) and ast.unparse(n.value.func) == 'options.get':
            k = n.value.args[0]
            if isinstance(k, ast.Constant):
                reads.setdefault(n.targets[0].id, set()).add(k.value)
    parent = {}
    for n in ast.walk(vo):
        for ch in ast.iter_child_nodes(n):
            parent[ch] = n
    for key, stmts in writes.items():
        if key in LAYOUT_OPTIONS or key in LAYOUT_DERIVED:
            continue
        if key not in NONLAYOUT_OPTIONS:
            raise Unsupported(f'validate_options writes the unknown option {key!r}')
        # a non-layout key may only be written (a) with the value read from the same key or
        # (b) below `if <var read from a non-layout key> is not None`
        for s in stmts:
            ok = False
            if isinstance(s.value, ast.Name) and reads.get(s.value.id, set()) <= set(NONLAYOUT_OPTIONS) \
                    and reads.get(s.value.id):
                # every binding of that local comes from a non-layout key (or a conversion of it)
                ok = all(isinstance(b, ast.Assign) for b in ast.walk(vo)
                         if isinstance(b, ast.Assign) and any(ast.unparse(t) == s.value.id for t in b.targets))
                p = parent.get(s)
                guarded = False
                while p is not None and p is not vo:
                    if isinstance(p, ast.If) and isinstance(p.test, ast.Compare) and isinstance(p.test.ops[0], ast.IsNot) \
                            and isinstance(p.test.left, ast.Name) and reads.get(p.test.left.id, set()) <= set(NONLAYOUT_OPTIONS) \
                            and reads.get(p.test.left.id):
                        guarded = True
                    p = parent.get(p)
                ok = ok and (guarded or s.value.id in reads)
            else:
                p = parent.get(s)
                while p is not None and p is not vo:
                    if isinstance(p, ast.If) and isinstance(p.test, ast.Compare) and isinstance(p.test.ops[0], ast.IsNot) \
                            and isinstance(p.test.left, ast.Name) and reads.get(p.test.left.id, set()) <= set(NONLAYOUT_OPTIONS) \
                            and reads.get(p.test.left.id):
                        ok = True
                    p = parent.get(p)
            if not ok:
                raise Unsupported(f'validate_options may switch on the non-layout option {key!r}: {ast.unparse(s)}', span(s))
    # right_margin is written unconditionally with the value read from 'right_margin': with layout
    # options only that value is None (falsy), so build_filter_stack does not install the filter.

    # ---- indent_char: every path assigns a constant
    ic = writes.get('indent_char', [])
    vals = []
    for s in ic:
        if not (isinstance(s.value, ast.Constant) and isinstance(s.value.value, str)):
            raise Unsupported('validate_options: indent_char is not a string constant', span(s))
        vals.append(s.value.value)
    chain = None
    for s in vo.body:
        if isinstance(s, ast.If) and any(x in ic for x in ast.walk(s)):
            if chain is not None:
                raise Unsupported('validate_options: indent_char assigned in two statements')
            chain = s

    def all_paths_assign(stmts):
        """every path through the block raises or assigns options['indent_char'] (as last if-chain)"""
        for st in stmts:
            if isinstance(st, ast.Raise):
                return True
            if st in ic:
                return True
            if isinstance(st, ast.If):
                if st.orelse and all_paths_assign(st.body) and all_paths_assign(st.orelse):
                    return True
        return False
    if chain is None or not all_paths_assign([chain]):
        raise Unsupported('validate_options: options["indent_char"] is not assigned a constant on every path')
    if chain is not vo.body[-1] and any(
            isinstance(n, ast.Subscript) and ast.unparse(n) == "options['indent_char']" and isinstance(n.ctx, ast.Store)
            for st in vo.body[vo.body.index(chain) + 1:] for n in ast.walk(st)):
        raise Unsupported('validate_options: indent_char re-assigned later')
    side['indent_char_values'] = sorted(set(vals))

    # ---- build_filter_stack: a sequence of `if options.get(K[, default]):` blocks
    installs = []          # (stage, filter class, option keys of the guard, ctor keywords)
    for s in bs.body:
        if isinstance(s, ast.Expr) and isinstance(s.value, ast.Constant):
            continue
        if isinstance(s, ast.Return):
            if ast.unparse(s) != 'return stack':
                raise Unsupported('build_filter_stack: ' + ast.unparse(s))
            continue
        if not (isinstance(s, ast.If) and not s.orelse):
            raise Unsupported('build_filter_stack: unexpected statement ' + ast.unparse(s)[:80], span(s))
        keys = []
        for n in ast.walk(s.test):
            if isinstance(n, ast.Call):
                if ast.unparse(n.func) != 'options.get' or not isinstance(n.args[0], ast.Constant):
                    raise Unsupported('build_filter_stack: guard ' + ast.unparse(s.test), span(s))
                if len(n.args) == 2 and not (isinstance(n.args[1], ast.Constant) and n.args[1].value is False):
                    raise Unsupported('build_filter_stack: truthy default in ' + ast.unparse(s.test), span(s))
                keys.append(n.args[0].value)
            elif not isinstance(n, (ast.BoolOp, ast.Or, ast.And, ast.Constant, ast.Attribute, ast.Name, ast.Load)):
                raise Unsupported('build_filter_stack: guard ' + ast.unparse(s.test), span(s))
        if isinstance(s.test, ast.BoolOp) and not isinstance(s.test.op, ast.Or):
            raise Unsupported('build_filter_stack: guard ' + ast.unparse(s.test), span(s))
        if not keys:
            raise Unsupported('build_filter_stack: guard without option ' + ast.unparse(s.test), span(s))
        for n in ast.walk(s):
            if isinstance(n, ast.Call) and isinstance(n.func, ast.Attribute) and n.func.attr == 'append':
                stage = ast.unparse(n.func.value)
                if not stage.startswith('stack.'):
                    raise Unsupported('build_filter_stack: append to ' + stage, span(n))
                a = n.args[0]
                if isinstance(a, ast.Name):
                    # `fltr`: the output filters (postprocess)
                    installs.append((stage[6:], '<' + a.id + '>', keys, {}))
                    continue
                if not (isinstance(a, ast.Call) and ast.unparse(a.func).startswith('filters.')):
                    raise Unsupported('build_filter_stack: appended object ' + ast.unparse(a), span(n))
                kws = {k.arg: k.value for k in a.keywords}
                if a.args:
                    kws['<positional>'] = a.args[0]
                installs.append((stage[6:], ast.unparse(a.func)[8:], keys, kws))
            elif isinstance(n, ast.Call) and isinstance(n.func, ast.Attribute) and ast.unparse(n.func.value) == 'stack' \
                    and n.func.attr != 'enable_grouping':
                raise Unsupported('build_filter_stack: stack.' + n.func.attr, span(n))
            elif isinstance(n, ast.Assign) and any(ast.unparse(t).startswith('stack') for t in n.targets):
                raise Unsupported('build_filter_stack: assignment to the stack', span(n))
    layout_keys = set(LAYOUT_OPTIONS) | set(LAYOUT_DERIVED)
    layout_filters = []
    other_filters = []
    for stage, cls, keys, kws in installs:
        if any(k in layout_keys for k in keys):
            if not all(k in layout_keys for k in keys):
                raise Unsupported(f'build_filter_stack: {cls} guarded by a mix of layout and other options {keys}')
            if stage != 'stmtprocess':
                raise Unsupported(f'build_filter_stack: layout option installs {cls} in {stage}')
            if '<positional>' in kws or None in kws:
                raise Unsupported(f'build_filter_stack: {cls} constructed with positional / ** arguments')
            layout_filters.append(cls)
        else:
            if not all(k in NONLAYOUT_OPTIONS for k in keys):
                raise Unsupported(f'build_filter_stack: unknown option keys {keys}')
            other_filters.append((stage, cls, keys))
    side['installs'] = [(st, c, k, sorted(kw)) for st, c, k, kw in installs]

    # ---- constructor arguments of the re-indenting filters
    ctor_kw = {cls: kws for _, cls, _, kws in installs}
    return layout_filters, other_filters, ctor_kw, sorted(set(vals))


def field_values(cls_node, ctor_kw, indent_char_vals):
    """values of self.n / self.char of a filter class under format():  __init__ stores its parameters
    unchanged, nothing else assigns them, build_filter_stack passes char=options['indent_char'] and
    never passes n."""
    init = [m for m in cls_node.body if isinstance(m, ast.FunctionDef) and m.name == '__init__']
    if not init:
        return {}
    init = init[0]
    params = [a.arg for a in init.args.args][1:]
    defaults = dict(zip(params[len(params) - len(init.args.defaults):], init.args.defaults))
    if init.args.vararg or init.args.kwarg or init.args.kwonlyargs:
        raise Unsupported(f'{cls_node.name}.__init__: *args/**kwargs')
    out = {}
    for fld in ('n', 'char'):
        if fld not in params:
            continue
        stores = [t for m in cls_node.body if isinstance(m, ast.FunctionDef) for t in ast.walk(m)
                  if isinstance(t, ast.Attribute) and t.attr == fld and isinstance(t.ctx, (ast.Store, ast.Del))]
        ok_assign = [st for st in init.body if isinstance(st, ast.Assign) and ast.unparse(st) == f'self.{fld} = {fld}']
        if len(stores) != 1 or len(ok_assign) != 1 or stores[0] is not ok_assign[0].targets[0]:
            raise Unsupported(f'{cls_node.name}: self.{fld} is not assigned exactly once as `self.{fld} = {fld}` in __init__')
        # the parameter itself must not be rebound in __init__
        if any(isinstance(t, ast.Name) and t.id == fld and isinstance(t.ctx, ast.Store) for t in ast.walk(init)):
            raise Unsupported(f'{cls_node.name}.__init__ rebinds {fld}')
        kw = ctor_kw.get(cls_node.name, {})
        if fld in kw:
            if ast.unparse(kw[fld]) != "options['indent_char']":
                raise Unsupported(f'build_filter_stack passes {fld}={ast.unparse(kw[fld])} to {cls_node.name}')
            out[fld] = list(indent_char_vals)
        else:
            d = defaults.get(fld)
            if not (isinstance(d, ast.Constant) and isinstance(d.value, str)):
                raise Unsupported(f'{cls_node.name}.__init__: default of {fld} is not a string constant')
            out[fld] = [d.value]
    return out


def generate():
    assert_repo()
    side = {'covered': [f'{rel}:{c}' for rel, c in COVERED]}
    check_pins(side)
    layout_filters, other_filters, ctor_kw, ic_vals = analyse_formatter(side)
    side['layout_stmt_filters'] = layout_filters
    side['other_filters'] = other_filters

    analyses = []
    facts = []
    mods = {}
    for rel, cname in COVERED:
        if rel not in mods:
            mods[rel] = ast.parse(_read(rel))
        mod = mods[rel]
        cls = [n for n in mod.body if isinstance(n, ast.ClassDef) and n.name == cname]
        if len(cls) != 1:
            raise Unsupported(f'class {cname} not found in {rel}')
        # the module must import `sql` and `T` the usual way
        imp = {(a.asname or a.name): a.name for n in mod.body if isinstance(n, ast.ImportFrom)
               and n.module == 'sqlparse' and n.level == 0 for a in n.names}
        if imp.get('sql') != 'sql' or imp.get('T') != 'tokens':
            raise Unsupported(f'{rel}: sql / T are not imported from sqlparse as expected')
        for n in mod.body:
            if isinstance(n, (ast.Assign, ast.AugAssign, ast.FunctionDef)) :
                raise Unsupported(f'{rel}: module-level definition {ast.unparse(n)[:60]} (could shadow sql/T/offset/indent)')
        fv = field_values(cls[0], ctor_kw, ic_vals)
        for fld, vals in fv.items():
            facts.append((cname, fld, vals))
        a = ClassAnalysis(rel, cls[0], mod, fv)
        a.analyse()
        # the filter's own fields named like token slots would confuse the attribute inventory
        for fname, attr, node in a.field_assigns:
            if attr in TOKEN_SLOTS:
                raise Unsupported(f'{rel}:{node.lineno}: filter field self.{attr} is named like a token slot')
        analyses.append(a)
    # the filters installed for layout options must be covered classes (also a Coq obligation)
    covered_names = [c for _, c in COVERED]

    sites = [s for a in analyses for s in a.sites]
    out = [HEADER,
           '(* Inventory of the mutation sites of the layout filters (tools/regen/gen_sites.py). *)',
           'From Coq Require Import String.',
           'From SqlModel Require Import Base Sites.', '',
           '(* classes whose every method was scanned *)',
           'Definition covered_classes : list string := [' +
           '; '.join(coq_string(c) for c in covered_names) + '].', '',
           '(* statement filters build_filter_stack can install when only layout options are given',
           '   (validate_options cannot switch on a non-layout option: checked by the translator) *)',
           'Definition layout_stmt_filters : list string := [' +
           '; '.join(coq_string(c) for c in layout_filters) + '].', '',
           '(* every value the whitespace-producing fields can take under format() *)',
           'Definition layout_field_facts : list field_fact := [']
    out.append(';\n'.join(
        f'  mk_field_fact {coq_string(c)} {coq_string(f)} [' + '; '.join(coq_text(v) for v in vals) + ']'
        for c, f, vals in facts))
    out += ['].', '', 'Definition layout_sites : list site := [']
    rows = []
    for s in sites:
        rows.append(f'  (* {coq_comment(s.rel)}:{s.line} {coq_comment(s.fn)} *)\n'
                    f'  mk_site {coq_string(s.rel)} {s.line} {s.end} {coq_string(s.fn)}\n'
                    f'    {s.kind}\n    {coq_string(ast.unparse(s.node))}')
    out.append(';\n'.join(rows))
    out += ['].', '']
    side['sites'] = [{'file': s.rel, 'line': s.line, 'end_line': s.end, 'col': s.node.col_offset,
                      'end_col': s.node.end_col_offset, 'fn': s.fn, 'kind': s.kind.strip('()').split(' ')[0],
                      'kind_term': s.kind, 'why': s.why, 'src': ast.unparse(s.node)} for s in sites]
    side['local_ops'] = [{'file': a.rel, 'fn': f, 'line': n.lineno, 'src': ast.unparse(n)}
                         for a in analyses for f, n in a.local_ops]
    side['internal_calls'] = [{'file': a.rel, 'fn': f, 'callee': c, 'line': ln}
                              for a in analyses for f, c, ln in a.internal_calls]
    side['readonly_calls'] = sorted({c for a in analyses for _, c, _ in a.readonly_calls})
    side['filter_field_assigns'] = [{'file': a.rel, 'fn': f, 'field': attr, 'line': n.lineno}
                                    for a in analyses for f, attr, n in a.field_assigns]
    side['methods'] = {a.cls.name: sorted(a.methods) for a in analyses}
    side['field_facts'] = [{'class': c, 'field': f, 'values': v} for c, f, v in facts]
    side['files'] = sorted({rel for rel, _ in COVERED})
    return {'SiteInv.v': '\n'.join(out)}, side


if __name__ == '__main__':
    import json
    import sys
    if '--pins' in sys.argv:
        for k, v in pin_table().items():
            print(f"    {k!r}: {v!r},")
    else:
        files, side = generate()
        print(files['SiteInv.v'])
        print(json.dumps({k: v for k, v in side.items() if k not in ('pinned',)}, indent=1, default=str))
