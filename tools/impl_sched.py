"""C20 -- schedule correspondence between the singleton machine (coq/theories/Sys/Singleton.v on the
generated program coq/theories/Gen/SingletonProg.v) and REAL Python threads running the real
`Lexer.get_default_instance()`.

* `Harness` forces a given schedule (list of thread ids) on real threads: every thread runs under
  `sys.settrace`; a line event in a frame of `get_default_instance` / `default_initialization` whose
  (function, line) is the site of a model instruction (coq/theories/Gen/gen_singleton.side.json, key
  `sites` -- nothing is hard-coded here) parks the thread on its own semaphore until the scheduler
  grants it one step.  `Lexer._lock` is replaced by a proxy whose `__enter__` does a NON-blocking
  acquire and reports "blocked" to the scheduler (the step is then a no-op, as in the model).
  `Lexer.__new__` is wrapped to count/identify the Lexer objects created (no edit of /repo).
  After every step the harness dumps the state in the syntax of the driver command `sched`:
      T<pc>:<ret or ->,...;H<cleared><regex_set>:<k.k.k>,...;L<holder or ->;I<inst or ->
* `PyModel` re-implements `step` in Python from the generated instruction list (used for the
  exhaustive enumeration and for the BFS search of a violating schedule); it is cross-checked against
  the extracted Coq model (`schedptrace`) on every schedule that is used.
* `--worker <side.json>`: JSON jobs on stdin -> JSON results on stdout (the caller chooses the
  sqlparse to test through PYTHONPATH: /repo, or a temporary patched copy).
* variants: `make_variant(kind)` copies the sqlparse package of VERIF_REPO to a temp dir and patches
  `get_default_instance` (publish-first shape: nolock / early_release / dcl / same; publish-last shape:
  nolock_new / publish_early_new / same_new); used to test the search + replay.  The variants are whole
  function bodies, so they do not depend on which shape the library currently has.
* instruction set: see coq/theories/Sys/Singleton.v.  `INewLocal` (a local variable is assigned `cls()`) and
  `IPublishSelf` (the shared variable is assigned the local) are ordinary sites of the side file: the real
  thread is parked before the source line of the assignment like before any other statement; the call line
  `<local>.default_initialization()` touches no shared state and is not a site.
"""
import ast
import collections
import json
import os
import random
import shutil
import subprocess
import sys
import tempfile
import threading

HERE = os.path.dirname(os.path.abspath(__file__))
VERIF = os.path.dirname(HERE)
PY = '/venv/bin/python'
SIDE = os.path.join(VERIF, 'coq', 'theories', 'Gen', 'gen_singleton.side.json')
TARGET_FUNS = ('get_default_instance', 'default_initialization', 'clear', 'set_SQL_REGEX', 'add_keywords')


def load_side(path=None):
    with open(path or SIDE) as f:
        side = json.load(f)
    if 'sites' not in side or len(side['sites']) != len(side['prog']):
        raise RuntimeError('side file has no instruction sites (regenerate with tools/regen/gen_singleton.py)')
    return side


def prog_arg(side):
    """the program in the driver's syntax"""
    return ';'.join(p.replace(' ', '_') for p in side['prog']) or '-'


def sched_arg(sched):
    return ','.join(str(t) for t in sched) if sched else '-'


# ------------------------------------------------------------------------------------------------
# Python re-implementation of Singleton.step (cross-checked against the extracted model)
class PyModel:
    def __init__(self, prog, expected):
        self.prog = []
        for p in prog:
            parts = p.replace('_', ' ').split()
            self.prog.append((parts[0], int(parts[1]) if len(parts) > 1 else None))
        self.expected = tuple(expected)

    def init(self, n):
        # (lock, inst, heap, threads);  obj = (cleared, regex_set, kws);  thread = (pc, self, ret)
        return (None, None, (), tuple((0, None, None) for _ in range(n)))

    def step(self, st, t):
        lock, inst, heap, ths = st
        if t >= len(ths):
            return st
        pc, slf, ret = ths[t]
        if pc >= len(self.prog):
            return st
        op, arg = self.prog[pc]
        end = len(self.prog)

        def setth(th, lock=lock, inst=inst, heap=heap):
            return (lock, inst, heap, ths[:t] + (th,) + ths[t + 1:])
        if op == 'IAcquire':
            if lock is None:
                return setth((pc + 1, slf, ret), lock=t)
            return st
        if op == 'IRelease':
            if lock is not None:
                return setth((pc + 1, slf, ret), lock=None)
            return setth((end, slf, ret))
        if op == 'IJumpIfInst':
            return setth((pc + 1 if inst is None else arg, slf, ret))
        if op == 'INewAssign':
            return setth((pc + 1, slf, ret), inst=len(heap), heap=heap + ((False, False, ()),))
        if op == 'ILoadSelf':
            return setth((pc + 1, inst, ret))
        if op == 'INewLocal':          # <local> = cls(): allocated, NOT published; the local is the receiver
            return setth((pc + 1, len(heap), ret), heap=heap + ((False, False, ()),))
        if op == 'IPublishSelf':       # cls._default_instance = <local>
            if slf is None:
                return setth((end, slf, ret))
            return setth((pc + 1, slf, ret), inst=slf)
        if op == 'IReturn':
            return setth((end, slf, inst))
        # object instructions
        if op not in ('IClear', 'ISetRegex', 'IAddKw'):
            raise ValueError(op)
        if slf is None or slf >= len(heap):
            return setth((end, slf, ret))
        c, r, k = heap[slf]
        if op == 'IClear':
            ob = (True, False, ())
        elif op == 'ISetRegex':
            ob = (c, True, k)
        elif op == 'IAddKw':
            if not c:
                return setth((end, slf, ret))
            ob = (True, r, k + (arg,))
        else:
            raise ValueError(op)
        return setth((pc + 1, slf, ret), heap=heap[:slf] + (ob,) + heap[slf + 1:])

    def full(self, st, o):
        heap = st[2]
        return o < len(heap) and heap[o][1] and heap[o][2] == self.expected

    def violation(self, st):
        lock, inst, heap, ths = st
        rets = [th[2] for th in ths if th[2] is not None]
        if any(not self.full(st, o) for o in rets):
            return 1
        if any(a != b for a, b in zip(rets, rets[1:])):
            return 2
        if len(heap) > 1:
            return 3
        return 0

    def dump(self, st):
        lock, inst, heap, ths = st
        o = lambda x: '-' if x is None else str(x)   # noqa: E731
        return ('T' + ','.join(f'{pc}:{o(ret)}' for pc, _, ret in ths)
                + ';H' + ','.join(f'{int(c)}{int(r)}:' + '.'.join(map(str, k)) for c, r, k in heap)
                + ';L' + o(lock) + ';I' + o(inst))

    def trace(self, n, sched):
        st = self.init(n)
        out = []
        for t in sched:
            st = self.step(st, t)
            out.append(st)
        return out

    def all_finished(self, st):
        return all(th[0] >= len(self.prog) for th in st[3])

    # -- every maximal schedule in which each step moves a thread
    def moving_schedules(self, n, limit):
        """(schedules, complete?)  DFS; stops collecting after `limit` schedules."""
        out = []
        complete = True
        stack = [(self.init(n), [])]
        while stack:
            st, path = stack.pop()
            moved = False
            for t in range(n - 1, -1, -1):
                st2 = self.step(st, t)
                if st2 != st:
                    moved = True
                    stack.append((st2, path + [t]))
            if not moved:
                out.append(path)
                if len(out) >= limit:
                    complete = not stack
                    break
        return out, complete

    def count_moving(self, n, cap=10 ** 7):
        """number of maximal moving schedules (memoised on states)."""
        memo = {}

        def go(st):
            if st in memo:
                return memo[st]
            tot = 0
            for t in range(n):
                st2 = self.step(st, t)
                if st2 != st:
                    tot += go(st2)
            memo[st] = min(cap, tot) if tot else 1
            return memo[st]
        sys.setrecursionlimit(max(sys.getrecursionlimit(), 5000))
        return go(self.init(n))

    def random_schedule(self, n, rng, noop_share=0.0, maxlen=400):
        """random maximal schedule; with probability noop_share a step may address a thread that
        cannot move (blocked on the lock / finished / not existing)."""
        st = self.init(n)
        sched = []
        while len(sched) < maxlen:
            movers = [t for t in range(n) if self.step(st, t) != st]
            if not movers:
                break
            if rng.random() < noop_share:
                t = rng.randrange(n + 1)
            else:
                t = rng.choice(movers)
            sched.append(t)
            st = self.step(st, t)
        return sched

    def search_violation(self, n, max_states=2000000):
        """BFS over the model's states: shortest moving schedule reaching violation != 0."""
        init = self.init(n)
        seen = {init: None}
        q = collections.deque([init])
        while q:
            st = q.popleft()
            for t in range(n):
                st2 = self.step(st, t)
                if st2 == st or st2 in seen:
                    continue
                seen[st2] = (st, t)
                v = self.violation(st2)
                if v:
                    path = []
                    cur = st2
                    while seen[cur] is not None:
                        cur, tt = seen[cur]
                        path.append(tt)
                    return {'nthreads': n, 'schedule': path[::-1], 'violation': v, 'states_explored': len(seen)}
                if len(seen) > max_states:
                    return None
                q.append(st2)
        return {'nthreads': n, 'schedule': None, 'violation': 0, 'states_explored': len(seen), 'exhausted': True}


# ------------------------------------------------------------------------------------------------
# real threads
class _Rec:
    def __init__(self, t):
        self.t = t
        self.go = threading.Semaphore(0)
        self.pc = None
        self.status = 'new'          # paused | blocked | finished
        self.returned = None
        self.has_returned = False
        self.full_at_return = None
        self.exc = None
        self.seen = collections.Counter()
        self.events = 0


class HarnessError(Exception):
    pass


class Harness:
    STEP_TIMEOUT = 20

    def __init__(self, side):
        from sqlparse import lexer
        self.side = side
        self.lexer_mod = lexer
        self.Lexer = lexer.Lexer
        self.nprog = len(side['prog'])
        self.codes = {}
        for name in TARGET_FUNS:
            f = self.Lexer.__dict__[name]
            f = getattr(f, '__func__', f)
            self.codes[f.__code__] = name
        self.site_idx = collections.defaultdict(list)       # (fn, line) -> instruction indices in order
        for i, s in enumerate(side['sites']):
            self.site_idx[(s['fn'], s['line'])].append(i)
        ns = vars(lexer)
        self.kwdicts = [eval(n, dict(ns)) for n in side['kwnames']]      # noqa: S307 (names from the translator)
        self.nrules = len(lexer.keywords.SQL_REGEX)
        self.created = []
        self.has_lock = '_lock' in self.Lexer.__dict__
        self.done = threading.Semaphore(0)
        self.recs = []
        self.by_ident = {}
        self.proxy = None
        created = self.created

        def counting_new(cls, *a, **kw):
            o = object.__new__(cls)
            created.append(o)
            return o
        self.Lexer.__new__ = staticmethod(counting_new)

    # -- lock proxy
    class LockProxy:
        def __init__(self, h):
            self.h = h
            self.real = threading.Lock()
            self.holder = None

        def __enter__(self):
            h = self.h
            rec = h.by_ident[threading.get_ident()]
            while True:
                if self.real.acquire(blocking=False):
                    self.holder = rec.t
                    return True
                rec.status = 'blocked'
                h.done.release()
                rec.go.acquire()

        def __exit__(self, *exc):
            self.real.release()          # RuntimeError when not held, as threading.Lock
            self.holder = None
            return False

        acquire = None                   # the translator only admits the with-statement

    # -- observations
    def idx(self, o):
        for i, x in enumerate(self.created):
            if x is o:
                return i
        return None

    def full(self, o):
        try:
            return (len(o._SQL_REGEX) == self.nrules and len(o._keywords) == len(self.kwdicts)
                    and all(a is b for a, b in zip(o._keywords, self.kwdicts)))
        except AttributeError:
            return False

    def dump(self):
        def o(x):
            return '-' if x is None else str(x)
        ths = []
        for r in self.recs:
            ret = self.idx(r.returned) if r.has_returned else None
            if r.has_returned and ret is None:
                ret = '?'
            ths.append(f'{r.pc}:{o(ret)}')
        heap = []
        for ob in self.created:
            c = hasattr(ob, '_keywords')
            rx = getattr(ob, '_SQL_REGEX', None)
            r = rx is not None and len(rx) == self.nrules and self.nrules > 0
            ks = []
            for d in getattr(ob, '_keywords', []):
                hit = [i for i, e in enumerate(self.kwdicts) if e is d]
                ks.append(str(hit[0]) if hit else '?')
            heap.append(f'{int(c)}{int(r)}:' + '.'.join(ks))
        inst = self.Lexer.__dict__.get('_default_instance')
        ii = None if inst is None else self.idx(inst)
        if inst is not None and ii is None:
            ii = '?'
        return ('T' + ','.join(ths) + ';H' + ','.join(heap) + ';L' + o(self.proxy.holder if self.proxy else None)
                + ';I' + o(ii))

    def violation(self):
        rets = [r.returned for r in self.recs if r.has_returned]
        if any(not self.full(x) for x in rets):
            return 1
        if any(a is not b for a, b in zip(rets, rets[1:])):
            return 2
        if len(self.created) > 1:
            return 3
        return 0

    # -- tracing
    def _global_trace(self, frame, event, arg):
        name = self.codes.get(frame.f_code)
        if name is None:
            return None
        return self._local_trace

    def _local_trace(self, frame, event, arg):
        if event != 'line':
            return self._local_trace
        name = self.codes.get(frame.f_code)
        key = (name, frame.f_lineno)
        cands = self.site_idx.get(key)
        if not cands:
            return self._local_trace
        rec = self.by_ident[threading.get_ident()]
        k = rec.seen[key]
        rec.seen[key] += 1
        if k >= len(cands):
            rec.exc = rec.exc or HarnessError(f'site {key} reached {k + 1} times')
            k = len(cands) - 1
        rec.pc = cands[k]
        rec.status = 'paused'
        rec.events += 1
        self.done.release()
        rec.go.acquire()
        return self._local_trace

    def _body(self, rec):
        self.by_ident[threading.get_ident()] = rec
        sys.settrace(self._global_trace)
        try:
            res = self.Lexer.get_default_instance()
            sys.settrace(None)
            rec.returned = res
            rec.has_returned = True
            rec.full_at_return = self.full(res)
        except BaseException as e:   # noqa
            sys.settrace(None)
            rec.exc = e
        rec.pc = self.nprog
        rec.status = 'finished'
        self.done.release()

    def _wait(self):
        if not self.done.acquire(timeout=self.STEP_TIMEOUT):
            raise HarnessError('a thread did not reach its next pause point')

    def run(self, n, sched, drain=True):
        """Force `sched` on n real threads.  Returns the dumps/violation codes after every step and
        the per-thread summary."""
        L = self.Lexer
        L._default_instance = None
        if self.has_lock:
            self.proxy = Harness.LockProxy(self)
            L._lock = self.proxy
        else:
            self.proxy = None
        del self.created[:]
        self.recs = [_Rec(t) for t in range(n)]
        self.by_ident = {}
        while self.done.acquire(blocking=False):
            pass
        ths = [threading.Thread(target=self._body, args=(r,), daemon=True) for r in self.recs]
        for th in ths:
            th.start()
            self._wait()             # started one at a time: arrival at the first pause point
        trace, viol, moved = [], [], []
        for t in sched:
            if t < n and self.recs[t].status != 'finished':
                rec = self.recs[t]
                before = (rec.pc, rec.status)
                rec.go.release()
                self._wait()
                moved.append(not (rec.status == 'blocked' and before[0] == rec.pc))
            else:
                moved.append(False)
            trace.append(self.dump())
            viol.append(self.violation())
        summary = []
        for r in self.recs:
            summary.append({'finished': r.status == 'finished', 'blocked': r.status == 'blocked',
                            'returned': self.idx(r.returned) if r.has_returned else None,
                            'full_at_return': r.full_at_return,
                            'exc': type(r.exc).__name__ if r.exc else None})
        res = {'trace': trace, 'viol': viol, 'threads': summary, 'created': len(self.created),
               'final': trace[-1] if trace else self.dump()}
        if drain:
            # let every thread finish (round-robin) so that no thread is left parked
            guard = 0
            while any(r.status != 'finished' for r in self.recs):
                for r in self.recs:
                    if r.status != 'finished':
                        r.go.release()
                        self._wait()
                guard += 1
                if guard > 50 * (self.nprog + 2):
                    raise HarnessError('threads did not terminate under round-robin')
            for th in ths:
                th.join(timeout=5)
            res['after_drain'] = self.dump()
            res['viol_after_drain'] = self.violation()
        return res


def worker_main(side_path):
    side = load_side(side_path)
    h = Harness(side)
    jobs = json.load(sys.stdin)
    out = []
    for n, sched in jobs:
        try:
            out.append(h.run(n, sched))
        except HarnessError as e:
            out.append({'harness_error': str(e)})
            h = Harness(side)
    import sqlparse
    json.dump({'sqlparse': os.path.dirname(os.path.abspath(sqlparse.__file__)), 'results': out}, sys.stdout)


def run_real(jobs, side_path=None, repo=None, nproc=4, timeout=600):
    """jobs = [(nthreads, schedule)] -> list of result dicts, real threads in worker subprocesses."""
    repo = repo or os.environ.get('VERIF_REPO', '/repo')
    side_path = side_path or SIDE
    if not jobs:
        return []
    nproc = max(1, min(nproc, (len(jobs) + 199) // 200))
    chunks = [jobs[i::nproc] for i in range(nproc)]
    env = dict(os.environ)
    env['PYTHONPATH'] = repo
    env['PYTHONHASHSEED'] = '0'
    procs = []
    for ch in chunks:
        p = subprocess.Popen([PY, os.path.abspath(__file__), '--worker', side_path], env=env,
                             stdin=subprocess.PIPE, stdout=subprocess.PIPE, stderr=subprocess.PIPE, text=True)
        procs.append((p, ch))
    # feed all first, then collect (outputs are read by communicate)
    results = [None] * len(jobs)
    for k, (p, ch) in enumerate(procs):
        try:
            so, se = p.communicate(json.dumps(ch), timeout=timeout)
            data = json.loads(so)
            assert os.path.realpath(data['sqlparse']).startswith(os.path.realpath(repo) + os.sep), data['sqlparse']
            res = data['results']
        except Exception as e:   # noqa
            p.kill()
            res = [{'harness_error': f'worker failed: {e!r}'}] * len(ch)
        results[k::nproc] = res
    return results


# ------------------------------------------------------------------------------------------------
# variants of lexer.py in a temporary copy (never touches /repo)
VARIANT_BODIES = {
    'nolock': [
        'if cls._default_instance is None:',
        '    cls._default_instance = cls()',
        '    cls._default_instance.default_initialization()',
        'return cls._default_instance',
    ],
    'early_release': [
        'with cls._lock:',
        '    if cls._default_instance is None:',
        '        cls._default_instance = cls()',
        'cls._default_instance.default_initialization()',
        'return cls._default_instance',
    ],
    # classic broken double-checked locking: the instance is published before it is initialised and
    # the fast path does not take the lock
    'dcl': [
        'if cls._default_instance is None:',
        '    with cls._lock:',
        '        if cls._default_instance is None:',
        '            cls._default_instance = cls()',
        '            cls._default_instance.default_initialization()',
        'return cls._default_instance',
    ],
    # ---- the publish-last shape (instance built in a local, published when complete)
    # control: must satisfy well_locked (shape publish-last), and no violation
    'same_new': [
        'with cls._lock:',
        '    if cls._default_instance is None:',
        '        instance = cls()',
        '        instance.default_initialization()',
        '        cls._default_instance = instance',
        'return cls._default_instance',
    ],
    # no lock: nobody ever sees a half-built lexer, but two threads can each build and publish one
    'nolock_new': [
        'if cls._default_instance is None:',
        '    instance = cls()',
        '    instance.default_initialization()',
        '    cls._default_instance = instance',
        'return cls._default_instance',
    ],
    # the local is published before it is initialised (same defect as the publish-first shape, with a local)
    'publish_early_new': [
        'with cls._lock:',
        '    if cls._default_instance is None:',
        '        instance = cls()',
        '        cls._default_instance = instance',
        '        instance.default_initialization()',
        'return cls._default_instance',
    ],
    # control: the publish-first body re-typed (must still satisfy well_locked, and no violation)
    'same': [
        'with cls._lock:',
        '    if cls._default_instance is None:',
        '        cls._default_instance = cls()',
        '        cls._default_instance.default_initialization()',
        'return cls._default_instance',
    ],
}


def make_variant(kind, repo=None):
    """temp dir containing a patched copy of the sqlparse package; caller removes it."""
    repo = repo or os.environ.get('VERIF_REPO', '/repo')
    tmp = tempfile.mkdtemp(prefix='c20_variant_')
    shutil.copytree(os.path.join(repo, 'sqlparse'), os.path.join(tmp, 'sqlparse'),
                    ignore=shutil.ignore_patterns('__pycache__'))
    p = os.path.join(tmp, 'sqlparse', 'lexer.py')
    with open(p) as f:
        src = f.read()
    mod = ast.parse(src)
    fn = None
    for c in mod.body:
        if isinstance(c, ast.ClassDef) and c.name == 'Lexer':
            for m in c.body:
                if isinstance(m, ast.FunctionDef) and m.name == 'get_default_instance':
                    fn = m
    if fn is None:
        shutil.rmtree(tmp)
        raise RuntimeError('Lexer.get_default_instance not found')
    body = [s for s in fn.body if not (isinstance(s, ast.Expr) and isinstance(s.value, ast.Constant))]
    lines = src.split('\n')
    first, last = body[0].lineno, body[-1].end_lineno
    ind = ' ' * body[0].col_offset
    lines[first - 1:last] = [ind + ln for ln in VARIANT_BODIES[kind]]
    with open(p, 'w') as f:
        f.write('\n'.join(lines))
    return tmp


def translate(repo):
    """run the singleton translator against the sqlparse under `repo`; returns (ok, side or error)."""
    code = ('import sys, json; sys.path.insert(0, %r); import gen_singleton, common\n'
            'try:\n'
            '    files, side = gen_singleton.generate()\n'
            '    print(json.dumps({"ok": True, "side": side, "v": files["SingletonProg.v"]}))\n'
            'except common.Unsupported as e:\n'
            '    print(json.dumps({"ok": False, "error": str(e.what)}))\n') % os.path.join(HERE, 'regen')
    env = dict(os.environ)
    env.update({'PYTHONPATH': repo, 'VERIF_REPO': repo, 'PYTHONHASHSEED': '0'})
    p = subprocess.run([PY, '-c', code], env=env, stdout=subprocess.PIPE, stderr=subprocess.PIPE, text=True, timeout=120)
    if p.returncode != 0:
        return False, p.stderr[-1500:]
    d = json.loads(p.stdout.strip().splitlines()[-1])
    return (True, d['side']) if d['ok'] else (False, d['error'])


# ------------------------------------------------------------------------------------------------
def compare(side, jobs, side_path=None, repo=None, use_generated_cmd=False, nproc=4):
    """model (extracted driver) vs Python model vs real threads on the same schedules.
    Returns (disagreements, stats, real results)."""
    import vlib
    pm = PyModel(side['prog'], list(range(len(side['kwnames']))))
    pa = prog_arg(side)
    if use_generated_cmd:
        reqs = [f'schedtrace {n} {sched_arg(s)}' for n, s in jobs]
    else:
        reqs = [f'schedptrace {pa} {n} {sched_arg(s)}' for n, s in jobs]
    reqs2 = [f'schedpviol {pa} {n} {sched_arg(s)}' for n, s in jobs]
    replies = vlib.run_model(reqs + reqs2)
    mtr, mvi = replies[:len(jobs)], replies[len(jobs):]
    real = run_real(jobs, side_path=side_path, repo=repo, nproc=nproc)
    dis = []
    stats = collections.Counter()
    for (n, s), mt, mv, rr in zip(jobs, mtr, mvi, real):
        stats['schedules'] += 1
        stats['steps'] += len(s)
        ptr = pm.trace(n, s)
        pdump = ' / '.join(pm.dump(st) for st in ptr)
        pviol = ','.join(str(pm.violation(st)) for st in ptr)
        if pdump != mt or pviol != mv:
            dis.append({'stage': 'pymodel-vs-coq', 'nthreads': n, 'schedule': s, 'py': pdump[-300:], 'coq': mt[-300:],
                        'pyviol': pviol, 'coqviol': mv})
            continue
        if 'harness_error' in rr:
            dis.append({'stage': 'harness', 'nthreads': n, 'schedule': s, 'detail': rr['harness_error']})
            continue
        rdump = ' / '.join(rr['trace'])
        rviol = ','.join(map(str, rr['viol']))
        if rdump != mt or rviol != mv:
            k = next((i for i, (a, b) in enumerate(zip(rr['trace'], mt.split(' / '))) if a != b), None)
            dis.append({'stage': 'sched', 'nthreads': n, 'schedule': s, 'first_diff_step': k,
                        'impl': rr['trace'][k] if k is not None else rdump[-200:],
                        'model': mt.split(' / ')[k] if k is not None else mt[-200:],
                        'implviol': rviol, 'modelviol': mv})
            continue
        stats['blocked_steps'] += sum(1 for a, b in zip([pm.init(n)] + ptr, ptr) if a == b)
        if ptr and pm.all_finished(ptr[-1]):
            stats['complete'] += 1
        if any(rr['viol']):
            stats['with_violation'] += 1
    return dis, stats, real


def property_failures(jobs, real):
    """what C20 asserts of the implementation, read off the real runs alone."""
    fails = []
    for (n, s), rr in zip(jobs, real):
        if 'harness_error' in rr:
            continue
        th = rr['threads']
        bad = None
        if any(t['returned'] is not None and not t['full_at_return'] for t in th):
            bad = 'a thread was handed a lexer that was not completely initialised at return time'
        elif any(rr['viol']):
            # (the round-robin drain after the schedule is harness clean-up: not part of the observation)
            code = next(v for v in rr['viol'] if v)
            bad = {1: 'a lexer held by a thread lost its initialisation', 2: 'two different default instances handed out',
                   3: 'more than one Lexer object created'}[code]
        elif any(t['exc'] for t in th):
            bad = 'get_default_instance raised ' + str([t['exc'] for t in th])
        if bad:
            fails.append({'kind': 'schedule', 'nthreads': n, 'schedule': s, 'observed': bad, 'threads': th,
                          'created': rr['created'], 'final': rr['final']})
    return fails


def search_and_replay(side, side_path, repo, max_threads=3):
    """The search used when the proof obligation breaks: BFS over the model for a violating schedule,
    cross-checked with the extracted model, then replayed on real threads."""
    import vlib
    pm = PyModel(side['prog'], list(range(len(side['kwnames']))))
    out = {'found': None, 'confirmed': False, 'explored': 0}
    for n in range(2, max_threads + 1):
        r = pm.search_violation(n)
        if r is None:
            out['note'] = 'state budget exhausted'
            break
        out['explored'] += r['states_explored']
        if r['schedule'] is None:
            continue
        out['found'] = r
        pa = prog_arg(side)
        s = r['schedule']
        mv = vlib.run_model([f'schedpviol {pa} {n} {sched_arg(s)}'])[0]
        out['coq_violation_trace'] = mv
        out['coq_agrees'] = mv.split(',')[-1] == str(r['violation'])
        real = run_real([(n, s)], side_path=side_path, repo=repo)[0]
        out['real'] = {k: real.get(k) for k in ('viol', 'threads', 'created', 'final', 'harness_error')}
        fl = property_failures([(n, s)], [real])
        out['confirmed'] = bool(fl)
        out['failure'] = fl[0] if fl else None
        break
    return out


def variant_selftest(kinds=('nolock', 'early_release', 'dcl', 'same', 'nolock_new', 'same_new'), nrandom=150, seed=0):
    """translator + model + real-thread replay on patched temp copies of lexer.py."""
    import vlib
    rng = random.Random(seed)
    report = {}
    for kind in kinds:
        tmp = make_variant(kind)
        try:
            ok, side = translate(tmp)
            if not ok:
                report[kind] = {'translator': 'failed closed: ' + str(side)[:200]}
                continue
            sp = os.path.join(tmp, 'side.json')
            with open(sp, 'w') as f:
                json.dump(side, f)
            wl, shp = vlib.run_model(['welllocked ' + prog_arg(side), 'progshape ' + prog_arg(side)])
            pm = PyModel(side['prog'], list(range(len(side['kwnames']))))
            jobs = []
            for n in (2, 2, 3, 4):
                for _ in range(nrandom // 4):
                    jobs.append((n, pm.random_schedule(n, rng, noop_share=0.15)))
            dis, stats, real = compare(side, jobs, side_path=sp, repo=tmp)
            sr = search_and_replay(side, sp, tmp)
            report[kind] = {'prog': side['prog'], 'well_locked': wl, 'shape': shp,
                            'publishes_before_init': side.get('publishes_before_init'), 'correspondence_disagreements': dis[:3],
                            'ndis': len(dis), 'stats': dict(stats),
                            'random_schedules_with_real_failure': len(property_failures(jobs, real)),
                            'search': sr}
        finally:
            shutil.rmtree(tmp, ignore_errors=True)
    return report


if __name__ == '__main__':
    if len(sys.argv) >= 3 and sys.argv[1] == '--worker':
        worker_main(sys.argv[2])
    elif len(sys.argv) >= 2 and sys.argv[1] == '--variants':
        sys.path.insert(0, HERE)
        print(json.dumps(variant_selftest(), indent=1))
    else:
        # impl_sched.py <nthreads> <t0,t1,...> : one schedule on the real library, dump as the driver's `sched`
        side = load_side()
        h = Harness(side)
        n = int(sys.argv[1])
        s = [] if sys.argv[2] in ('', '-') else [int(x) for x in sys.argv[2].split(',')]
        r = h.run(n, s)
        print(r['final'])
        print(json.dumps(r['threads']))
