"""C15 cell worker: ONE (construct, depth, recursion limit, entry point, option set) cell per process.

usage:  PYTHONPATH=/repo /venv/bin/python tools/impl_c15.py '<json cell>'      -> one JSON line
        PYTHONPATH=/repo /venv/bin/python tools/impl_c15.py --thresholds '<json>' -> one JSON line
        PYTHONPATH=/repo /venv/bin/python tools/impl_c15.py --depths '<json list of texts>' -> JSON list

Everything the harness itself does on the returned trees is ITERATIVE (explicit stacks), so that the
only recursion is the library's.  The process exit status is 0 unless the interpreter dies.
"""
import json
import sys
import time

CONSTRUCTS = ('paren', 'brack', 'unclosed', 'case', 'func', 'subq', 'idlist', 'mixed')


def build(construct, n):
    if construct == 'paren':
        return '(' * n + ')' * n
    if construct == 'brack':
        return '[' * n + ']' * n
    if construct == 'unclosed':
        return '(' * n
    if construct == 'case':
        return 'case when 1 then ' * n + '1' + ' end' * n
    if construct == 'func':
        return 'f(' * n + '1' + ')' * n
    if construct == 'subq':
        return '(select ' * n + '1' + ')' * n
    if construct == 'idlist':
        return '(a, ' * n + 'a' + ')' * n
    if construct == 'mixed':
        return 'f((select case when a[' * n + '1' + '] then 1 end))' * n
    if construct.startswith('rand:'):
        import random
        r = random.Random(construct)
        units = [('(', ')'), ('[', ']'), ('f(', ')'), ('case when 1 then ', ' end'), ('(select ', ')'),
                 ('(a, ', ')'), ('x in (', ')'), ('cast(', ' as int)'), ('a[', ']'), ('(1 + ', ')')]
        seq = [r.choice(units) for _ in range(n)]
        return ''.join(o for o, _ in seq) + '1' + ''.join(c for _, c in reversed(seq))
    if construct == 'plain':
        return 'select (1)'
    raise ValueError(construct)


OPTS = {
    'none': {},
    'reindent': {'reindent': True},
    'strip': {'strip_comments': True, 'strip_whitespace': True},
    'kwcase': {'keyword_case': 'upper'},
    # thorough tier only
    'aligned': {'reindent_aligned': True},
    'spaces': {'use_space_around_operators': True},
    'python': {'output_format': 'python', 'reindent': True},
    'idcase_trunc': {'identifier_case': 'upper', 'truncate_strings': 5},
}


def nows(s):
    return ''.join(s.split())


def tree_checks(stmts, x):
    """round trip and tree sanity on parse() output, without recursion"""
    import sqlparse.sql as S
    leaves = []
    maxdepth = 0
    ngroups = 0
    for st in stmts:
        if not isinstance(st, S.Statement):
            return 'top-level object is %s' % type(st).__name__, 0, 0
        # iterative post-order: text of every group from its children, compared with the cached value
        stack = [(st, 0, False)]
        texts = {}
        while stack:
            node, d, done = stack.pop()
            if not node.is_group:
                leaves.append(node.value)
                texts[id(node)] = node.value
                continue
            if not done:
                ngroups += 1
                if d + 1 > maxdepth:
                    maxdepth = d + 1
                stack.append((node, d, True))
                for ch in reversed(node.tokens):
                    if ch.parent is not node:
                        return 'parent pointer of a child of %s is wrong' % type(node).__name__, maxdepth, ngroups
                    stack.append((ch, d + 1, False))
            else:
                t = ''.join(texts.pop(id(ch)) for ch in node.tokens)
                if node.value != t:
                    return 'cached value of a %s differs from the text of its leaves' % type(node).__name__, maxdepth, ngroups
                texts[id(node)] = t
    joined = ''.join(leaves)
    if not x.startswith(joined) or x[len(joined):].strip() != '':
        return 'leaves do not reproduce the input', maxdepth, ngroups
    return None, maxdepth, ngroups


def later_call():
    import sqlparse
    a = sqlparse.format('select 1', reindent=True)
    if a != 'select 1':
        return 'format(select 1, reindent) = %r' % a
    b = sqlparse.format('select a, b from t where x = 1', reindent=True)
    if b != 'select a,\n       b\nfrom t\nwhere x = 1':
        return 'format(.., reindent) = %r' % b
    c = sqlparse.parse('select 1;select (2)')
    if len(c) != 2 or str(c[1]) != 'select (2)':
        return 'parse(select 1;select (2)) wrong'
    d = sqlparse.split('a;b')
    if d != ['a;', 'b']:
        return 'split(a;b) = %r' % d
    return None


CLI_FLAGS = {'none': [], 'reindent': ['-r'], 'strip': ['--strip-comments'], 'kwcase': ['-k', 'upper']}


def run_cli(x, opts):
    """sqlparse.cli.main on a temporary file, stdout captured; returns the text written"""
    import io
    import os
    import tempfile
    import sqlparse.cli
    fd, path = tempfile.mkstemp(suffix='.sql')
    with os.fdopen(fd, 'w', encoding='utf-8', newline='') as f:
        f.write(x)
    old = sys.stdout
    buf = io.StringIO()
    sys.stdout = buf
    try:
        rc = sqlparse.cli.main([path] + CLI_FLAGS[opts])
    finally:
        sys.stdout = old
        os.unlink(path)
    if rc != 0:
        raise RuntimeError('cli.main returned %r' % rc)
    return buf.getvalue()


def frame_depth():
    f = sys._getframe()
    n = 0
    while f is not None:
        n += 1
        f = f.f_back
    return n


def dive(n, thunk):
    if n <= 0:
        return thunk()
    return dive(n - 1, thunk)


def through_guard(exc):
    """does the traceback of an escaped exception pass through FilterStack.run?"""
    tb = exc.__traceback__
    while tb is not None:
        co = tb.tb_frame.f_code
        if co.co_name == 'run' and co.co_filename.endswith('filter_stack.py'):
            return True
        tb = tb.tb_next
    return False


def run_cell(cell):
    import sqlparse
    from sqlparse.exceptions import SQLParseError
    x = build(cell['construct'], cell['depth'])
    entry, opts = cell['entry'], OPTS[cell.get('opts', 'none')]
    res = {'len': len(x)}
    if cell.get('warm'):
        sqlparse.parse('select 1')              # the Lexer singleton is initialised by an earlier call
    sys.setrecursionlimit(cell['limit'])
    t0 = time.time()
    out = None

    def call():
        if entry == 'parse':
            return sqlparse.parse(x)
        if entry == 'parsestream':
            return list(sqlparse.parsestream(x))
        if entry == 'split':
            return sqlparse.split(x)
        if entry == 'format':
            return sqlparse.format(x, **opts)
        if entry == 'cli':
            return run_cli(x, cell.get('opts', 'none'))
        raise ValueError(entry)
    try:
        if 'headroom' in cell:
            # call the entry point with only `headroom` frames left below the recursion limit
            out = dive(cell['limit'] - cell['headroom'] - frame_depth() - 1, call)
        else:
            out = call()
        res['outcome'] = 'ok'
    except SQLParseError as e:
        res['outcome'] = 'SQLParseError'
        res['chained'] = type(e.__cause__).__name__ if e.__cause__ is not None else None
    except RecursionError as e:
        res['outcome'] = 'RecursionError'
        res['through_guard'] = through_guard(e)
    except MemoryError:
        res['outcome'] = 'MemoryError'
    except BaseException as e:  # noqa
        res['outcome'] = 'other:' + type(e).__name__
        res['detail'] = str(e)[:200]
    res['t_call'] = round(time.time() - t0, 3)
    if 'headroom' in cell:
        sys.setrecursionlimit(max(cell['limit'], 1000))
    # ---- checks on a successful result (iterative)
    if res['outcome'] == 'ok':
        bad = None
        if entry in ('parse', 'parsestream'):
            bad, res['tree_depth'], res['groups'] = tree_checks(out, x)
            # observation only: what the CALLER gets from the library's recursive __str__ on the result
            try:
                s = ''.join(str(st) for st in out)
                res['caller_str'] = 'ok' if (x.startswith(s) and x[len(s):].strip() == '') else 'differs'
            except RecursionError:
                res['caller_str'] = 'RecursionError'
        elif entry == 'split':
            if not isinstance(out, list) or not all(isinstance(s, str) for s in out):
                bad = 'split() did not return a list of str'
            elif nows(''.join(out)) != nows(x):
                bad = 'split() pieces do not reproduce the input (whitespace ignored)'
        else:
            if not isinstance(out, str):
                bad = 'format() did not return a str'
            elif entry == 'cli' and cell.get('opts', 'none') == 'strip':
                bad = None if nows(out) == nows(x) else 'cli --strip-comments changed more than whitespace'
            else:
                o = cell.get('opts', 'none')
                if o == 'none' and out != x.rstrip():
                    bad = 'format() without options changed the text'
                elif o in ('kwcase', 'idcase_trunc') and out.lower() != x.rstrip().lower():
                    bad = 'format(keyword_case) changed more than case'
                elif o in ('reindent', 'strip', 'aligned', 'spaces') and nows(out) != nows(x):
                    bad = 'format(%s) changed more than whitespace' % o
        if bad:
            res['check'] = bad
    # ---- a later ordinary call in the same process
    # under a watchdog: a later call that BLOCKS (e.g. on a lock the failed call left held) must not look like a slow cell
    import signal

    def _hang(signum, frame):
        raise TimeoutError('the later ordinary call did not return within 30 s (blocked)')
    try:
        signal.signal(signal.SIGALRM, _hang)
        signal.alarm(30)
        try:
            lc = later_call()
        finally:
            signal.alarm(0)
    except BaseException as e:  # noqa
        lc = 'later call raised %s: %s' % (type(e).__name__, str(e)[:100])
    if lc:
        res['later'] = lc
    res['t_total'] = round(time.time() - t0, 3)
    return res


def thresholds(spec):
    """for each (construct, depth): the outcome of parse() under every limit of a scan; used to check that
    success is monotone in the limit and to record the frames the implementation needs per level"""
    import sqlparse
    from sqlparse.exceptions import SQLParseError
    out = []
    for construct in spec['constructs']:
        for d in spec['depths']:
            x = build(construct, d)
            row = []
            for lim in spec['limits']:
                sys.setrecursionlimit(lim)
                try:
                    sqlparse.parse(x)
                    o = 'ok'
                except SQLParseError:
                    o = 'SQLParseError'
                except RecursionError:
                    o = 'RecursionError'
                except BaseException as e:  # noqa
                    o = 'other:' + type(e).__name__
                row.append(o)
            sys.setrecursionlimit(1000)
            out.append({'construct': construct, 'depth': d, 'outcomes': row})
    return out


def impl_depths(texts):
    import sqlparse
    sys.setrecursionlimit(20000)
    res = []
    for x in texts:
        try:
            stmts = sqlparse.parse(x)
        except Exception as e:  # noqa
            res.append('ERR ' + type(e).__name__)
            continue
        ds = []
        for st in stmts:
            m = 0
            stack = [(st, 1)]
            while stack:
                n, d = stack.pop()
                if n.is_group:
                    m = max(m, d)
                    stack.extend((c, d + 1) for c in n.tokens)
            ds.append(m)
        res.append('OK ' + ','.join(map(str, ds)))
    return res


def main():
    import os
    import sqlparse
    repo = os.environ.get('VERIF_REPO', '/repo')
    assert os.path.realpath(sqlparse.__file__).startswith(os.path.realpath(repo) + os.sep), sqlparse.__file__
    if sys.argv[1] == '--thresholds':
        print(json.dumps(thresholds(json.loads(sys.argv[2]))))
    elif sys.argv[1] == '--depths':
        print(json.dumps(impl_depths(json.loads(sys.stdin.read()))))
    else:
        print(json.dumps(run_cell(json.loads(sys.argv[1]))))
    sys.stdout.flush()


if __name__ == '__main__':
    main()
