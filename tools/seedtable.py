"""Prints the markdown table of DESIGN.md 11.7 from seeded/*/meta.json (check_results are written by tools/seedtest.py)."""
import glob
import json
import os

V = os.path.dirname(os.path.dirname(os.path.abspath(__file__)))


def main():
    print('| id | seeded change (one line) | check result | how it was caught |')
    print('|---|---|---|---|')
    for d in sorted(glob.glob(os.path.join(V, 'seeded', '*'))):
        m = json.load(open(os.path.join(d, 'meta.json')))
        sid = os.path.basename(d)
        summ = ' '.join(m.get('summary', '').split())
        summ = summ[:150] + ('…' if len(summ) > 150 else '')
        cr = m.get('check_results', {})
        cells = []
        how = []
        for k, r in sorted(cr.items()):
            if r.get('detected'):
                rs = r.get('replay_summary') if isinstance(r.get('replay_summary'), dict) else {}
                concrete = bool(rs.get('input')) or (rs.get('observed') not in (None, 'None'))
                cells.append(f"{k}: VIOLATION" + ('' if concrete else ' (no-failing-input-found)'))
                bo = [b.replace('theories/', '') for b in rs.get('broken_obligations', [])][:2]
                st = rs.get('stages', [])
                h = []
                if bo:
                    h.append('proof/regen broke: ' + ', '.join(bo))
                if st:
                    h.append('correspondence: ' + ', '.join(st[:3]))
                if rs.get('observed') not in (None, 'None'):
                    h.append('input: ' + ' '.join(str(rs['observed']).split())[:110])
                how.append('; '.join(h))
            else:
                cells.append(f"{k}: exit {r.get('exit')} (missed)")
        print(f"| {sid} | {summ.replace('|', '/')} | {'<br>'.join(cells) or 'not run'} | {' '.join(how).replace('|', '/')} |")




def update_design():
    """Replace the part of DESIGN.md between the SEEDTABLE markers by the current table."""
    import io
    import contextlib
    buf = io.StringIO()
    with contextlib.redirect_stdout(buf):
        main()
    p = os.path.join(V, 'DESIGN.md')
    s = open(p).read()
    a = s.index('<!-- SEEDTABLE BEGIN -->') + len('<!-- SEEDTABLE BEGIN -->')
    b = s.index('<!-- SEEDTABLE END -->')
    open(p, 'w').write(s[:a] + '\n' + buf.getvalue() + s[b:])


if __name__ == '__main__':
    import sys
    if len(sys.argv) > 1 and sys.argv[1] == '--design':
        update_design()
    else:
        main()
