"""The second evaluation route of the correspondence: the KERNEL evaluates the model.

The extracted OCaml program is what runs the model on thousands of inputs; it is only as good as extraction and the
driver.  Here a sample of the same inputs (the corpus of earlier minimised disagreements first) is written into a Coq file
of closed terms, `Eval vm_compute in (map k_lex [...])`, compiled by coqc against the built theories, and the printed
numbers are compared with (a) the implementation and (b) the extracted model.  Zero glue on the model side: no
extraction, no OCaml, no driver -- the encodings Inst/Encode.v are ordinary Gallina.

    kernel_stage('lex' | 'split' | 'parse', texts) -> list of int lists (one per text)
    impl_stage(stage, text) -> the same encoding computed from the real library
"""
import hashlib
import os
import re
import subprocess
import tempfile

import vlib

_CODES = None


def _codes():
    """constructor -> number tables, parsed from coq/theories/Inst/Encode.v (never duplicated by hand)"""
    global _CODES
    if _CODES is None:
        src = open(os.path.join(vlib.COQ, 'theories', 'Inst', 'Encode.v'), encoding='utf-8').read()
        out = {}
        for name in ('tcomp_code', 'cls_code', 'exn_code'):
            m = re.search(r'Definition %s .*?match \w+ with(.*?)end' % name, src, re.S)
            out[name] = {k: int(v) for k, v in re.findall(r'\|\s*(\w+)\s*=>\s*(\d+)', m.group(1))}
        _CODES = out
    return _CODES


def _enc_text(s):
    return [len(s)] + [ord(c) for c in s]


def _enc_ttype(tt):
    comps = list(tt)
    tab = _codes()['tcomp_code']
    return [len(comps)] + [tab['Token_' if c == 'Token' else c] for c in comps]


def _enc_tok(tt, v):
    return _enc_ttype(tt) + _enc_text(v)


def _enc_node(n):
    if n.is_group:
        cname = 'C' + type(n).__name__
        out = [1, _codes()['cls_code'][cname]] + _enc_text(n.value) + [len(n.tokens)]
        for k in n.tokens:
            out += _enc_node(k)
        return out
    return [0] + _enc_ttype(n.ttype) + _enc_text(n.value)


def _exn(e):
    return [0, _codes()['exn_code'].get(type(e).__name__, 98)]


FMT_STAGES = {
    # stage -> (Gallina function of Inst/EncodeFmt.v, options of sqlparse.format)
    'fmt_sw': ('k_fmt_sw', {'strip_whitespace': True}),
    'fmt_sp': ('k_fmt_sp', {'use_space_around_operators': True}),
    'fmt_ri': ('k_fmt_ri', {'reindent': True}),
    'fmt_al': ('k_fmt_al', {'reindent_aligned': True}),
}


def impl_stage(stage, text):
    if stage in FMT_STAGES:
        import sqlparse
        try:
            out = sqlparse.format(text, **FMT_STAGES[stage][1])
            return [1] + _enc_text(out)
        except Exception as e:  # noqa
            return _exn(e)
    from sqlparse import lexer
    from sqlparse.engine.statement_splitter import StatementSplitter
    import impl
    try:
        if stage == 'lex':
            toks = list(lexer.tokenize(text))
            out = [1, len(toks)]
            for tt, v in toks:
                out += _enc_tok(tt, v)
            return out
        stmts = list(StatementSplitter().process(lexer.tokenize(text)))
        if stage == 'split':
            out = [1, len(stmts)]
            for st in stmts:
                out.append(len(st.tokens))
                for t in st.tokens:
                    out += _enc_tok(t.ttype, t.value)
            return out
        for st in stmts:
            for f in impl.pass_list():
                f(st)
        out = [1, len(stmts)]
        for st in stmts:
            out += _enc_node(st)
        return out
    except Exception as e:  # noqa
        return _exn(e)


def kernel_stage(stage, texts, timeout=600):
    """Evaluate k_<stage> on every text inside Coq (vm_compute); returns the list of encodings, or raises RuntimeError."""
    fn = FMT_STAGES[stage][0] if stage in FMT_STAGES else {'lex': 'k_lex', 'split': 'k_split', 'parse': 'k_parse'}[stage]
    body = '; '.join('[' + '; '.join(str(ord(c)) for c in t) + ']' if t else '[]' for t in texts)
    src = ('From SqlModel Require Import Base.\nFrom SqlModel.Inst Require Import Encode%s.\n' % (' EncodeFmt' if stage in FMT_STAGES else '') +
           'Local Open Scope N_scope.\n'
           'Definition cases : list (list N) := [%s].\n'
           'Eval vm_compute in (map %s cases).\n' % (body, fn))
    d = tempfile.mkdtemp(prefix='kcases_')
    try:
        name = 'kc_' + hashlib.sha256(src.encode()).hexdigest()[:10]
        path = os.path.join(d, name + '.v')
        with open(path, 'w') as f:
            f.write(src)
        p = subprocess.run(['timeout', str(timeout), 'coqc', '-R', os.path.join(vlib.COQ, 'theories'), 'SqlModel', path],
                           cwd=d, stdout=subprocess.PIPE, stderr=subprocess.STDOUT, text=True, errors='replace',
                           preexec_fn=vlib._unlimit_stack)
        if p.returncode != 0:
            raise RuntimeError('coqc failed on the kernel cases file: ' + p.stdout[-600:])
        out = p.stdout
    finally:
        subprocess.run(['rm', '-rf', d])
    i = out.find('=')
    j = out.rfind(': list (list N)')
    if i < 0 or j < 0:
        raise RuntimeError('unexpected coqc output: ' + out[-300:])
    term = out[i + 1:j]
    res, depth, cur, num = [], 0, None, ''
    for ch in term:
        if ch == '[':
            depth += 1
            if depth == 2:
                cur = []
        elif ch == ']':
            if num:
                cur.append(int(num))
                num = ''
            if depth == 2:
                res.append(cur)
                cur = None
            depth -= 1
        elif ch.isdigit():
            num += ch
        else:
            if num and cur is not None:
                cur.append(int(num))
            num = ''
    if len(res) != len(texts):
        raise RuntimeError('kernel returned %d results for %d cases' % (len(res), len(texts)))
    return res


def stage_disagreements(stage, texts, limit=10):
    """Compare kernel evaluation with the implementation on the texts; -> (disagreements, number compared)."""
    texts = [t for t in texts if len(t) <= 400]
    if not texts:
        return [], 0
    try:
        ks = kernel_stage(stage, texts)
    except RuntimeError as e:
        return [{'stage': 'kernel-' + stage, 'detail': str(e)[-500:]}], 0
    dis = []
    for t, k in zip(texts, ks):
        m = impl_stage(stage, t)
        if m != k:
            dis.append({'stage': 'kernel-' + stage, 'input': [ord(c) for c in t], 'impl': str(m)[:300], 'model': str(k)[:300]})
            if len(dis) >= limit:
                break
    return dis, len(texts)
