"""Implementation-side observer for the command line slice: the REAL sqlparse.cli (create_parser / main) run
in-process, in the dump format of ocaml/drv_cli.ml.

`sqlparse.format` is replaced FROM OUTSIDE (a module attribute assignment, undone afterwards; no hook in the
source) by the same marker function the extracted model is instantiated with, so the comparison covers
argparse, the file/stdin/stdout plumbing, the decoding, the options handed over and the encoding of the result,
and does not depend on the formatter."""
import contextlib
import io
import os
import sys
import warnings

import impl_opt as IO


def cps(s):
    return ','.join(str(ord(c)) for c in s) if s else '-'


def cpsb(b):
    return ','.join(str(x) for x in b) if b else '-'


def request(cmd, items):
    return ' '.join([cmd] + list(items))


def argv_items(argv):
    return [cps(a) for a in argv]


class MarkerError(Exception):
    pass


def marker(sql, **options):
    """The stand-in for sqlparse.format: dump of the keyword arguments, '|', the text with U+00FF -> U+0178;
    a text containing U+0007 raises TypeError."""
    if '\x07' in sql:
        raise TypeError('marker')
    return IO.enc_opts(options) + '|' + sql.replace('\xff', 'Ÿ')


@contextlib.contextmanager
def patched_format():
    import sqlparse
    saved = sqlparse.format
    sqlparse.format = marker
    try:
        yield
    finally:
        sqlparse.format = saved


@contextlib.contextmanager
def patched_stdio(stdin_bytes):
    old = sys.stdin, sys.stdout, sys.stderr
    out_raw = io.BytesIO()
    err = io.StringIO()
    sys.stdout = io.TextIOWrapper(out_raw, encoding='utf-8', errors='surrogatepass', newline='')
    sys.stderr = err
    # main() only touches sys.stdin.buffer
    sys.stdin = io.TextIOWrapper(io.BytesIO(stdin_bytes), encoding='utf-8')
    box = {}
    try:
        yield box
    finally:
        try:
            sys.stdout.flush()
        except Exception:  # noqa
            pass
        box['out'] = out_raw.getvalue().decode('utf-8', 'surrogatepass')
        box['err'] = err.getvalue()
        sys.stdin, sys.stdout, sys.stderr = old


def cliargs_dump(argv):
    """parser.parse_args(argv): the namespace, or the SystemExit code."""
    from sqlparse import cli
    with patched_stdio(b''):
        try:
            ns = cli.create_parser().parse_args(list(argv))
        except SystemExit as e:
            return 'EXIT %s' % (e.code,)
    return 'OK ' + IO.enc_opts(vars(ns))


def cliopts_dump(argv):
    """validate_options(vars(parse_args(argv))): what main() hands to format."""
    from sqlparse import cli, formatter
    with patched_stdio(b''):
        try:
            ns = cli.create_parser().parse_args(list(argv))
        except SystemExit as e:
            return 'EXIT %s' % (e.code,)
    try:
        return 'OK ' + IO.enc_opts(formatter.validate_options(vars(ns)))
    except Exception as e:  # noqa
        return 'RAISE ' + type(e).__name__


ERR_PREFIX = [('[ERROR] Failed to read', 'read'), ('[ERROR] Failed to open', 'open'), ('[ERROR] Invalid options', 'options')]


OLD = 1_000_000_000


def _snapshot(cwd, age):
    snap = {}
    for root, _dirs, files in os.walk(cwd):
        for f in files:
            full = os.path.join(root, f)
            if age:
                os.utime(full, (OLD, OLD))
            snap[os.path.relpath(full, cwd)] = os.stat(full).st_mtime_ns
    return snap


def norm_path(cwd, p):
    """The path as the comparison sees it: relative to the working directory of the run."""
    return os.path.relpath(os.path.join(cwd, p), cwd)


def climain_dump(argv, stdin_bytes, cwd):
    """sqlparse.cli.main(argv) with cwd as the working directory (a scratch directory owned by the caller).
    The file opened for writing is found by its modification time (every file is aged before the run)."""
    from sqlparse import cli
    before = _snapshot(cwd, True)
    old_cwd = os.getcwd()
    os.chdir(cwd)
    try:
        with patched_format(), patched_stdio(stdin_bytes) as box:
            try:
                with warnings.catch_warnings():
                    warnings.simplefilter('ignore')
                    rc = cli.main(list(argv))
                status = 'RET %s' % (rc,)
            except SystemExit as e:
                status = 'EXIT %s' % (e.code,)
            except RecursionError:
                raise
            except Exception as e:  # noqa
                status = 'RAISE ' + type(e).__name__
        # a stream that was opened but never closed (error paths) is closed when collected
        import gc
        gc.collect()
    finally:
        os.chdir(old_cwd)
    err = 'none'
    for pre, name in ERR_PREFIX:
        if box['err'].startswith(pre):
            err = name
    if err == 'none' and box['err'] and status.startswith('RET'):
        err = 'other:' + box['err'][:40].replace(' ', '_')
    out = box['out'] if not status.startswith('EXIT') else ''
    after = _snapshot(cwd, False)
    touched = sorted(p for p, m in after.items() if before.get(p) != m)
    file = 'none'
    if touched:
        with open(os.path.join(cwd, touched[0]), 'rb') as f:
            file = cps(touched[0]) + '=' + cpsb(f.read())
        if len(touched) > 1:
            file += '+%d-more' % (len(touched) - 1)
    return f'{status} err={err} out={cps(out)} file={file}'
