"""Shared machinery of the checks: regenerate -> build -> extract -> run model / implementation,
evidence and violation reporting."""
import concurrent.futures
import fcntl
import glob
import hashlib
import json
import os
import re
import subprocess
import sys
import tempfile
import time

VERIF = os.path.dirname(os.path.dirname(os.path.abspath(__file__)))
REPO = os.environ.get('VERIF_REPO', '/repo')
COQ = os.path.join(VERIF, 'coq')
OCAML_BUILD = os.path.join(VERIF, 'ocaml', 'build')
MODEL_BIN = os.path.join(OCAML_BUILD, 'sqlmodel')
CACHE = os.path.join(VERIF, '.cache')
PY = '/venv/bin/python'
NPROC = min(16, os.cpu_count() or 4)

sys.path.insert(0, os.path.join(VERIF, 'tools'))
sys.path.insert(0, os.path.join(VERIF, 'tools', 'gen'))
sys.path.insert(0, os.path.join(VERIF, 'tools', 'regen'))


def pyenv():
    env = dict(os.environ)
    env['PYTHONPATH'] = REPO
    env['PYTHONHASHSEED'] = '0'
    env['VERIF_REPO'] = REPO
    return env


def sha_files(paths):
    h = hashlib.sha256()
    for p in sorted(paths):
        h.update(p.encode())
        try:
            with open(p, 'rb') as f:
                h.update(f.read())
        except OSError:
            h.update(b'<missing>')
    return h.hexdigest()


def repo_fingerprint():
    files = glob.glob(os.path.join(REPO, 'sqlparse', '**', '*.py'), recursive=True)
    return sha_files(files)


def framework_fingerprint():
    files = [p for p in glob.glob(os.path.join(COQ, 'theories', '**', '*.v'), recursive=True)
             if os.sep + 'Gen' + os.sep not in p]
    files += glob.glob(os.path.join(COQ, 'extract', '*.ext'))
    files += [os.path.join(COQ, '_CoqProject')] + glob.glob(os.path.join(VERIF, 'ocaml', '*.ml'))
    files += glob.glob(os.path.join(VERIF, 'tools', 'regen', '*.py'))
    return sha_files(files)


class Build:
    """Result of regenerate + make + extract for the current /repo tree."""

    def __init__(self):
        self.ok = False
        self.regen = {}          # translator -> {'ok':bool, 'error':..., 'where':...}
        self.failed_vo = []      # .v files whose compilation failed
        self.log = ''
        self.model_ok = False
        self.fingerprint = ''
        self.assumptions = {}    # Props file -> Print Assumptions text
        self.make_cmd = ''
        self.wall = 0.0

    def to_json(self):
        return self.__dict__

    @staticmethod
    def from_json(d):
        b = Build()
        b.__dict__.update(d)
        return b


def _run(cmd, cwd=None, timeout=1800, env=None):
    p = subprocess.run(cmd, cwd=cwd, env=env, stdout=subprocess.PIPE, stderr=subprocess.STDOUT,
                       timeout=timeout, text=True, errors='replace')
    return p.returncode, p.stdout


def write_extract_v():
    """Assemble ocaml/build/Extract.v from the fragments coq/extract/*.ext.
    ExtrOcamlBasic only; no Extract Constant / Extract Inductive."""
    reqs, names = [], []
    for p in sorted(glob.glob(os.path.join(COQ, 'extract', '*.ext'))):
        with open(p) as f:
            for line in f:
                line = line.strip()
                if line.startswith('REQUIRE '):
                    if line[8:] not in reqs:
                        reqs.append(line[8:])
                elif line.startswith('NAMES '):
                    names += [n for n in line[6:].split() if n not in names]
    out = os.path.join(OCAML_BUILD, 'Extract.v')
    with open(out, 'w') as f:
        f.write('(* ASSEMBLED from coq/extract/*.ext -- ExtrOcamlBasic only: bool/option/list/prod/unit/sumbool map to\n'
                '   OCaml\'s; nat, N, positive, Z stay the extracted inductive types. *)\n'
                'Require Extraction.\nRequire Import ExtrOcamlBasic.\n' + '\n'.join(reqs) +
                '\nExtraction Language OCaml.\nExtraction "sqlmodel.ml" ' + ' '.join(names) + '.\n')
    return out


def ensure_built(verbose=True):
    """Regenerate Gen/*.v from /repo, rebuild the Coq development and the extracted model.
    Serialised by a file lock so concurrently started checks share one build."""
    os.makedirs(CACHE, exist_ok=True)
    os.makedirs(OCAML_BUILD, exist_ok=True)
    lock = open(os.path.join(COQ, '.lock'), 'w')
    fcntl.flock(lock, fcntl.LOCK_EX)
    try:
        fp = repo_fingerprint() + ':' + framework_fingerprint()
        stamp = os.path.join(CACHE, 'build_status.json')
        try:
            with open(stamp) as f:
                prev = Build.from_json(json.load(f))
            if prev.fingerprint == fp and (not prev.model_ok or os.path.exists(MODEL_BIN)):
                return prev
        except (OSError, ValueError):
            pass
        b = Build()
        b.fingerprint = fp
        t0 = time.time()
        # 1. regenerate
        rc, out = _run([PY, os.path.join(VERIF, 'tools', 'regen', 'regen.py')], env=pyenv(),
                       timeout=900)
        b.log += out
        try:
            with open(os.path.join(COQ, 'theories', 'Gen', 'regen_status.json')) as f:
                b.regen = json.load(f)
        except (OSError, ValueError):
            b.regen = {'regen.py': {'ok': False, 'error': out[-2000:]}}
        # 2. build (keep going so unaffected properties still check)
        if not os.path.exists(os.path.join(COQ, 'Makefile')) or \
                os.path.getmtime(os.path.join(COQ, 'Makefile')) < os.path.getmtime(os.path.join(COQ, '_CoqProject')):
            _run(['coq_makefile', '-f', '_CoqProject', '-o', 'Makefile'], cwd=COQ)
        b.make_cmd = f'cd {COQ} && coq_makefile -f _CoqProject -o Makefile && make -k -j{NPROC}'
        # every file under its own time limit: a source change can make a vm_compute obligation over the regenerated
        # tables explode (e.g. an exponentially ambiguous regex); that file then counts as a broken obligation
        rc, out = _run(['timeout', '3000', 'make', '-k', f'-j{NPROC}', 'COQC=timeout 900 coqc'], cwd=COQ, timeout=3100)
        b.log += out
        b.failed_vo = sorted(set(re.findall(r'\*\*\* \[Makefile[^\]]*: ([^\]]+?)\.vo\] Error', out)))
        for m in re.finditer(r'File "\./(theories/[^"]+\.v)"[^\n]*\n(?:[^\n]*\n){0,6}?Error', out):
            f = m.group(1)[:-2]
            if f not in b.failed_vo:
                b.failed_vo.append(f)
        # Print Assumptions output is in the make log only when a Props file was recompiled;
        # keep the last seen text per file in the cache
        ass_path = os.path.join(CACHE, 'assumptions.json')
        try:
            with open(ass_path) as f:
                ass = json.load(f)
        except (OSError, ValueError):
            ass = {}
        cur = None
        for line in out.splitlines():
            m = re.match(r'COQC (theories/Props/\w+)\.v', line)
            if m:
                cur = m.group(1)
                ass[cur] = ''
                continue
            if line.startswith('COQC ') or line.startswith('make'):
                cur = None
            elif cur is not None:
                ass[cur] += line + '\n'
        with open(ass_path, 'w') as f:
            json.dump(ass, f)
        b.assumptions = ass
        # 3. extract + compile the model (Extract.v is assembled from coq/extract/*.ext fragments)
        if all(not f.startswith('theories/Inst/Cur') for f in b.failed_vo):
            ext_v = write_extract_v()
            rc1, out1 = _run(['timeout', '900', 'coqc', '-R', os.path.join(COQ, 'theories'), 'SqlModel', ext_v],
                             cwd=OCAML_BUILD, timeout=1000)
            b.log += out1
            if rc1 == 0:
                for old_ml in glob.glob(os.path.join(OCAML_BUILD, 'drv_*.ml')) + glob.glob(os.path.join(OCAML_BUILD, 'zz_*.ml')):
                    os.remove(old_ml)
                mls = sorted(glob.glob(os.path.join(VERIF, 'ocaml', '*.ml')))
                for m in mls:
                    subprocess.run(['cp', m, OCAML_BUILD])
                names = [os.path.basename(m) for m in mls]
                order = ['drv_common.ml'] + [n for n in names if n.startswith('drv_') and n != 'drv_common.ml'] + \
                        [n for n in names if n.startswith('zz_')]
                rc2, out2 = _run(['ocamlfind', 'ocamlopt', '-w', '-a', '-O2', 'sqlmodel.mli', 'sqlmodel.ml'] + order +
                                 ['-o', 'sqlmodel'], cwd=OCAML_BUILD, timeout=900)
                b.log += out2
                b.model_ok = (rc2 == 0)
        b.ok = (not b.failed_vo) and b.model_ok and all(v.get('ok') for v in b.regen.values())
        b.wall = time.time() - t0
        b.log = b.log[-200000:]
        with open(stamp, 'w') as f:
            json.dump(b.to_json(), f)
        return b
    finally:
        fcntl.flock(lock, fcntl.LOCK_UN)
        lock.close()


# ---------------------------------------------------------------------------------------------
def dep_cone(target_v):
    """Transitive .v dependencies of a theory file, from coqdep's .Makefile.d."""
    deps = {}
    try:
        with open(os.path.join(COQ, '.Makefile.d')) as f:
            txt = f.read().replace('\\\n', ' ')
    except OSError:
        return [target_v]
    for line in txt.splitlines():
        if ':' not in line:
            continue
        lhs, rhs = line.split(':', 1)
        outs = lhs.split()
        vo = [o for o in outs if o.endswith('.vo')]
        if not vo:
            continue
        src = vo[0][:-1]
        deps[src] = [d[:-1] for d in rhs.split() if d.endswith('.vo') and d.startswith('theories/')]
    seen = []
    todo = [target_v]
    while todo:
        x = todo.pop()
        if x in seen:
            continue
        seen.append(x)
        todo.extend(deps.get(x, []))
    return sorted(seen)


_THM = re.compile(r'^\s*(Theorem|Lemma|Corollary|Example|Fact|Proposition)\s+(\w+)', re.M)


def obligations(prop_file):
    """(all obligations in the dependency cone of a Props file, those discharged by the build)."""
    cone = dep_cone(prop_file)
    total = []
    done = []
    for v in cone:
        p = os.path.join(COQ, v)
        try:
            with open(p, encoding='utf-8') as f:
                names = [m.group(2) for m in _THM.finditer(f.read())]
        except OSError:
            names = []
        vo = p + 'o'
        ok = os.path.exists(vo) and os.path.getmtime(vo) >= os.path.getmtime(p)
        for n in names:
            total.append(f'{v}:{n}')
            if ok:
                done.append(f'{v}:{n}')
    return total, done, cone


FORBIDDEN = re.compile(r'\b(Admitted|admit|Axiom|Parameter|Conjecture|Unset Guard|bypass_check|'
                       r'type-in-type|impredicative-set|Admit Obligations)\b')


def forbidden_scan():
    bad = []
    for p in glob.glob(os.path.join(COQ, '**', '*.v'), recursive=True):
        with open(p, encoding='utf-8') as f:
            txt = f.read()
        txt = re.sub(r'\(\*.*?\*\)', '', txt, flags=re.S)
        for m in FORBIDDEN.finditer(txt):
            bad.append(f'{os.path.relpath(p, COQ)}: {m.group(0)}')
    return bad


# ---------------------------------------------------------------------------------------------
def cps(s):
    return ','.join(str(ord(c)) for c in s) if s else '-'


def uncps(s):
    return '' if s in ('', '-') else ''.join(chr(int(x)) for x in s.split(','))


def run_model(requests, nproc=NPROC, timeout=1200):
    """Run request lines through the extracted model, in parallel chunks; returns reply lines."""
    if not requests:
        return []
    n = max(1, min(nproc, (len(requests) + 49) // 50))
    chunks = [requests[i::n] for i in range(n)]

    def work(chunk):
        try:
            p = subprocess.run([MODEL_BIN], input='\n'.join(chunk) + '\n', stdout=subprocess.PIPE,
                               stderr=subprocess.PIPE, text=True, timeout=timeout,
                               preexec_fn=_unlimit_stack)
        except subprocess.TimeoutExpired as e:
            # the model did not answer in time (e.g. a regenerated rule that backtracks exponentially): the answers
            # given so far are kept, the rest count as a disagreement
            got = (e.stdout or '')
            if isinstance(got, bytes):
                got = got.decode('utf-8', 'replace')
            lines = got.split('\n')
            if lines and lines[-1] == '':
                lines.pop()
            lines = lines[:len(chunk)]
            return lines + [f'TIMEOUT after {timeout}s'] * (len(chunk) - len(lines))
        lines = p.stdout.split('\n')
        if lines and lines[-1] == '':
            lines.pop()
        if len(lines) != len(chunk):
            lines += [f'CRASH rc={p.returncode} {p.stderr[-200:]!r}'] * (len(chunk) - len(lines))
        return lines
    with concurrent.futures.ThreadPoolExecutor(n) as ex:
        results = list(ex.map(work, chunks))
    out = [None] * len(requests)
    for k, res in enumerate(results):
        out[k::n] = res
    return out


def _unlimit_stack():
    import resource
    try:
        resource.setrlimit(resource.RLIMIT_STACK, (resource.RLIM_INFINITY, resource.RLIM_INFINITY))
    except (ValueError, OSError):
        try:
            soft, hard = resource.getrlimit(resource.RLIMIT_STACK)
            resource.setrlimit(resource.RLIMIT_STACK, (hard, hard))
        except (ValueError, OSError):
            pass


# ---------------------------------------------------------------------------------------------
TRUSTED_BASE_COMMON = [
    'Coq 8.16.1 kernel (coqc, full .vo build; vm_compute used for finite obligations over '
    'regenerated tables; native_compute not used)',
    'no Axiom/Parameter/Admitted anywhere (scanned on every run); Print Assumptions of every '
    'property theorem recorded below',
    'translators tools/regen/*.py (fail-closed; regex ASTs via CPython re._parser; character '
    'classes by exhaustive evaluation of CPython re on all 0x110000 code points)',
    'extraction: Require Extraction + ExtrOcamlBasic only, no Extract Constant/Inductive of our own; '
    'OCaml 4.13.1 ocamlfind ocamlopt; ocaml/drv_*.ml, zz_main.ml (line-oriented driver, plug-in registry)',
    'correspondence harness tools/*.py (differential runs of the extracted model against /repo); second route for the lexer, '
    'splitter and parser stages (C01, C02, C05): a sample incl. the corpus is evaluated by the KERNEL (vm_compute inside coqc over '
    'Inst/Encode.v, no extraction / OCaml / driver) and compared with the implementation (tools/kernel_corr.py); likewise '
    'the final strings of four formatting option sets in C10 (Inst/EncodeFmt.v)',
    'modelled rather than verified: CPython re engine structure semantics (Regex/Re.v), str '
    'methods, hand-modelled loops of sqlparse (tied by stage-wise differential runs)',
]


def write_evidence(prop, tier, seed, coverage, wall, violations, assumptions=None, level='proof'):
    os.makedirs(os.path.join(VERIF, 'evidence'), exist_ok=True)
    ev = {
        'property_id': prop,
        'tier': tier,
        'seed': int(seed),
        'level': level,
        'coverage': coverage,
        'assumptions': assumptions or [],
        'wall_s': round(wall, 2),
        'violations': int(violations),
    }
    p = os.path.join(VERIF, 'evidence', prop + '.json')
    with open(p + '.tmp', 'w') as f:
        json.dump(ev, f, indent=1, ensure_ascii=True)
    os.replace(p + '.tmp', p)
    return p


def write_replay(prop, payload):
    os.makedirs(os.path.join(VERIF, 'replays'), exist_ok=True)
    blob = json.dumps(payload, sort_keys=True, ensure_ascii=True)
    h = hashlib.sha256(blob.encode()).hexdigest()[:12]
    p = os.path.join(VERIF, 'replays', f'{prop}-{h}.json')
    with open(p, 'w') as f:
        f.write(blob)
    return p


def load_known_findings():
    try:
        with open(os.path.join(VERIF, 'known_findings.json')) as f:
            return json.load(f)
    except OSError:
        return []
