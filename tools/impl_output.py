"""Implementation-side observers for the output_format slice (dump format of ocaml/drv_output.ml)."""
import sqlparse

import impl_reindent
import impl_tokfilters


def cps(s):
    return ','.join(str(ord(c)) for c in s) if s else '-'


def exn_name(e):
    return impl_reindent.exn_name(e)


def outfmt_dump(fmt, text):
    """final string of sqlparse.format(text, output_format=fmt)"""
    try:
        out = sqlparse.format(text, output_format=fmt)
    except Exception as e:  # noqa
        return 'ERR ' + exn_name(e)
    return 'OK ' + cps(out)


def options_of(fmt, kw, idc, tr, sc, sw, ri):
    """format() keyword arguments for the driver's argument tuple of `fmtall`."""
    o = impl_tokfilters.options_of(kw, idc, tr)
    if fmt != '-':
        o['output_format'] = fmt
    if sc != '0':
        o['strip_comments'] = True
    if sw != '0':
        o['strip_whitespace'] = True
    if ri != '-':
        o['reindent'] = True
        o.update(impl_reindent.opts_of_str(ri))
    return o


def args_of(o):
    """inverse of options_of: options dict -> 'fmt kw idc tr sc sw ri' (the fmtall arguments)."""
    tr = '-'
    if o.get('truncate_strings') is not None:
        tr = impl_tokfilters.trunc_param(int(o['truncate_strings']), o.get('truncate_char', '[...]'))
    ri = '-'
    if o.get('reindent') or o.get('indent_columns'):
        ri = impl_reindent.opts_str(o)
    return ' '.join([o.get('output_format') if o.get('output_format') in ('python', 'php') else '-',
                     o.get('keyword_case') or '-', o.get('identifier_case') or '-', tr,
                     '1' if o.get('strip_comments') else '0', '1' if o.get('strip_whitespace') else '0', ri])


def fmtall_dump(o, text):
    try:
        out = sqlparse.format(text, **dict(o))
    except Exception as e:  # noqa
        return 'ERR ' + exn_name(e)
    return 'OK ' + cps(out)


def hasnl_dump(text):
    return 'OK 1' if len(text.strip().splitlines()) > 1 else 'OK 0'


def splitlines_dump(text):
    return 'OK ' + '|'.join(cps(x) for x in text.splitlines())
