"""Implementation-side observers: canonical dumps of what /repo's sqlparse computes."""
import re

import sqlparse
from sqlparse import lexer, tokens as T, sql
from sqlparse.engine import grouping
from sqlparse.engine.statement_splitter import StatementSplitter


def ttype_str(tt):
    return '.'.join(tt) if tt is not None else 'None'


def exn_name(e):
    return type(e).__name__


def lex_dump(text):
    """'OK tok|tok...' in the model driver's format, or 'ERR <exception class>'."""
    try:
        toks = list(lexer.tokenize(text))
    except Exception as e:  # noqa
        return 'ERR ' + exn_name(e)
    return 'OK ' + '|'.join(ttype_str(tt) + ':' + (','.join(str(ord(c)) for c in v)) for tt, v in toks)


def compiled_rules():
    lx = lexer.Lexer.get_default_instance()
    return lx._SQL_REGEX


def rmatch_dump(i, pos, text):
    rules = compiled_rules()
    if i >= len(rules):
        return 'OK None'
    m = rules[i][0](text, pos)
    if not m:
        return 'OK None'
    return 'OK %d' % (m.end() - pos)


def tok_str(tt, v):
    return ttype_str(tt) + ':' + (','.join(str(ord(c)) for c in v))


def splitstream_dump(text):
    """Statements as the splitter yields them (before grouping)."""
    try:
        stmts = list(StatementSplitter().process(lexer.tokenize(text)))
    except Exception as e:  # noqa
        return 'ERR ' + exn_name(e)
    return 'OK ' + '||'.join('|'.join(tok_str(t.ttype, t.value) for t in st.tokens) for st in stmts)
