"""Implementation-side observers: canonical dumps of what /repo's sqlparse computes."""
import re

import sqlparse
from sqlparse import lexer, tokens as T, sql
from sqlparse.engine import grouping
from sqlparse.engine.statement_splitter import StatementSplitter


def ttype_str(tt):
    return '.'.join(tt) if tt is not None else 'None'


def exn_name(e):
    return type(e).__name__


def lex_dump(text):
    """'OK tok|tok...' in the model driver's format, or 'ERR <exception class>'."""
    try:
        toks = list(lexer.tokenize(text))
    except Exception as e:  # noqa
        return 'ERR ' + exn_name(e)
    return 'OK ' + '|'.join(ttype_str(tt) + ':' + (','.join(str(ord(c)) for c in v)) for tt, v in toks)


def compiled_rules():
    lx = lexer.Lexer.get_default_instance()
    return lx._SQL_REGEX


def rmatch_dump(i, pos, text):
    rules = compiled_rules()
    if i >= len(rules):
        return 'OK None'
    m = rules[i][0](text, pos)
    if not m:
        return 'OK None'
    return 'OK %d' % (m.end() - pos)


def tok_str(tt, v):
    return ttype_str(tt) + ':' + (','.join(str(ord(c)) for c in v))


def splitstream_dump(text):
    """Statements as the splitter yields them (before grouping)."""
    try:
        stmts = list(StatementSplitter().process(lexer.tokenize(text)))
    except Exception as e:  # noqa
        return 'ERR ' + exn_name(e)
    return 'OK ' + '||'.join('|'.join(tok_str(t.ttype, t.value) for t in st.tokens) for st in stmts)


def node_str(n, out):
    if n.is_group:
        out.append('G' + type(n).__name__ + ':' + ','.join(str(ord(c)) for c in n.value) + '(')
        for i, k in enumerate(n.tokens):
            if i:
                out.append(';')
            node_str(k, out)
        out.append(')')
    else:
        out.append('L' + ttype_str(n.ttype) + ':' + ','.join(str(ord(c)) for c in n.value))


def nodes_str(stmts):
    out = []
    for i, s in enumerate(stmts):
        if i:
            out.append('||')
        node_str(s, out)
    return ''.join(out)


def pass_list():
    """The functions grouping.group applies, in order, read from its source."""
    import ast
    import inspect
    src = inspect.getsource(grouping.group)
    fn = ast.parse(src).body[0]
    for n in ast.walk(fn):
        if isinstance(n, ast.For) and isinstance(n.iter, ast.List):
            return [getattr(grouping, e.id) for e in n.iter.elts]
    raise RuntimeError('grouping.group: pass list not found')


def parse_dump(text, k=None):
    """Tree after the first k passes of grouping.group (all when k is None)."""
    try:
        stmts = list(StatementSplitter().process(lexer.tokenize(text)))
        fns = pass_list()
        if k is not None:
            fns = fns[:k]
        for st in stmts:
            for f in fns:
                f(st)
    except Exception as e:  # noqa
        return 'ERR ' + exn_name(e)
    return 'OK ' + nodes_str(stmts)
