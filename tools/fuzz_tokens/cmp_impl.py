import sys
sys.path.insert(0, '/repo')
from sqlparse import sql, tokens as T
from sqlparse.engine import grouping
import os; sys.path.insert(0, os.path.join(os.path.dirname(os.path.abspath(__file__)), '..'))
import impl
alpha = [
  ('Text.Whitespace', " "), ('Text.Whitespace.Newline', "\n"), ('Comment.Single', "--x\n"), ('Comment.Multiline', "/*x*/"),
  ('Punctuation', "("), ('Punctuation', ")"), ('Punctuation', "["), ('Punctuation', "]"),
  ('Keyword', "CASE"), ('Keyword', "END"), ('Keyword', "IF"), ('Keyword', "END IF"), ('Keyword', "FOR"), ('Keyword', "END LOOP"),
  ('Keyword', "BEGIN"), ('Keyword', "WHERE"), ('Keyword', "ORDER BY"), ('Keyword', "OVER"),
  ('Name', "a"), ('Name', "b"), ('Punctuation', "."), ('Punctuation', ","), ('Punctuation', ";"), ('Punctuation', "::"),
  ('Assignment', ":="), ('Keyword', "AS"), ('Operator', "+"), ('Wildcard', "*"), ('Operator.Comparison', "="),
  ('Literal.Number.Integer', "1"), ('Keyword.Order', "ASC"), ('Keyword.TZCast', "AT TIME ZONE"), ('Name.Builtin', "int"),
  ('Literal.String.Single', "'x'"), ('Keyword', "TIMESTAMP"), ('Keyword', "DAY"), ('Keyword', "VALUES"), ('Keyword.DML', "select"),
  ('Keyword.DDL', "CREATE"), ('Keyword', "TABLE"), ('Keyword', "NULL"), ('Operator', "->"), ('Keyword', "CURRENT_DATE"),
  ('Literal.String.Symbol', "\"s\""), ('Keyword', "from"),
]
def tt(path):
    t = T.Token
    for p in path.split('.'):
        t = getattr(t, p)
    return t
def empty_groups(n):
    c = 0
    for t in n.tokens:
        if t.is_group:
            if not t.tokens: c += 1
            c += empty_groups(t)
    return c
nd = 0; n = 0; nraise = 0; nempty = 0
for line in open(sys.argv[1]):
    idxs, res = line.rstrip('\n').split('|')
    idxs = [int(x) for x in idxs.split(',')]
    st = sql.Statement([sql.Token(tt(alpha[i][0]), alpha[i][1]) for i in idxs])
    try:
        grouping.group(st)
        r = 'OK ' + impl.nodes_str([st])
        if empty_groups(st): nempty += 1; print('EMPTY GROUP', idxs)
    except Exception as e:
        r = 'ERR ' + type(e).__name__; nraise += 1
    n += 1
    if r != res:
        nd += 1
        if nd <= 20: print('DIFF', idxs, [alpha[i][1] for i in idxs], 'model', res, 'impl', r)
print('compared', n, 'diff', nd, 'impl raises', nraise, 'impl empty groups', nempty)
