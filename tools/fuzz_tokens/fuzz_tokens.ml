(* Fuzzer over ARBITRARY token lists (not only lexer output): random lists over a 45-token alphabet that
   contains every token the 25 grouping passes look at; prints  <alphabet indices>|OK <tree dump>  or
   <indices>|ERR <exn> <first failing pass>.   odd seed = alphabet focused on group_assignment.
   build:  cd ocaml/build && ocamlfind ocamlopt -w -a -O2 -I . sqlmodel.cmx drv_common.cmx ../../tools/fuzz_tokens/fuzz_tokens.ml -o fuzz_tokens
   run:    ./fuzz_tokens <count> <maxlen> <seed> > out.txt
   compare with the implementation (same trees, raises, empty groups):
           PYTHONPATH=/repo /venv/bin/python tools/fuzz_tokens/cmp_impl.py out.txt *)
open Sqlmodel
open Drv_common
let txt s = List.init (String.length s) (fun i -> n_of_int (Char.code s.[i]))
let alpha = [|
  ([Text;Whitespace], " "); ([Text;Whitespace;Newline], "\n"); ([Comment;Single], "--x\n"); ([Comment;Multiline], "/*x*/");
  ([Punctuation], "("); ([Punctuation], ")"); ([Punctuation], "["); ([Punctuation], "]");
  ([Keyword], "CASE"); ([Keyword], "END"); ([Keyword], "IF"); ([Keyword], "END IF"); ([Keyword], "FOR"); ([Keyword], "END LOOP");
  ([Keyword], "BEGIN"); ([Keyword], "WHERE"); ([Keyword], "ORDER BY"); ([Keyword], "OVER");
  ([Name], "a"); ([Name], "b"); ([Punctuation], "."); ([Punctuation], ","); ([Punctuation], ";"); ([Punctuation], "::");
  ([Assignment], ":="); ([Keyword], "AS"); ([Operator], "+"); ([Wildcard], "*"); ([Operator;Comparison], "=");
  ([Literal;Number;Integer], "1"); ([Keyword;Order], "ASC"); ([Keyword;TZCast], "AT TIME ZONE"); ([Name;Builtin], "int");
  ([Literal;String;Single], "'x'"); ([Keyword], "TIMESTAMP"); ([Keyword], "DAY"); ([Keyword], "VALUES"); ([Keyword;DML], "select");
  ([Keyword;DDL], "CREATE"); ([Keyword], "TABLE"); ([Keyword], "NULL"); ([Operator], "->"); ([Keyword], "CURRENT_DATE");
  ([Literal;String;Symbol], "\"s\""); ([Keyword], "from");
|]
let () =
  let n = int_of_string Sys.argv.(1) and maxlen = int_of_string Sys.argv.(2) and seed = int_of_string Sys.argv.(3) in
  Random.init seed;
  let na = Array.length alpha in
  for _ = 1 to n do
    let len = 1 + Random.int maxlen in
    (* restrict to a random sub-alphabet to increase interaction *)
    let k = 2 + Random.int 7 in
    let focus = [|0;18;21;22;24;24;14;9;4;5;25;37;29|] in
    let sub = Array.init k (fun _ -> if seed land 1 = 1 then focus.(Random.int (Array.length focus)) else Random.int na) in
    let idxs = List.init len (fun _ -> sub.(Random.int k)) in
    let toks = List.map (fun i -> let (ty, v) = alpha.(i) in (ty, txt v)) idxs in
    let st = statement_of toks in
    let r = match group st with
      | Ok n -> "OK " ^ nodes_str [n]
      | Err e ->
        let rec first k = if k > 25 then 99 else match group_upto (nat_of_int k) st with Err _ -> k | Ok _ -> first (k+1) in
        Printf.sprintf "ERR %s %d" (exn_name e) (first 0) in
    Printf.printf "%s|%s\n" (String.concat "," (List.map string_of_int idxs)) r
  done
