#!/bin/sh
# usage: coqshow.sh <file.v> <line>   -- shows the proof state after the given line
cd /verif/coq && (head -n "$2" "$1"; echo "Show.") | coqtop -R theories SqlModel 2>&1 | tail -n "${3:-40}"
