#!/usr/bin/env python3
"""Run the accessor slice checks:  acc_run.py [seed] [n] [corr,c07,c12,c13,c18]"""
import os
import sys
HERE = os.path.dirname(os.path.abspath(__file__))
PY = '/venv/bin/python'
if os.path.realpath(sys.executable) != os.path.realpath(PY) or os.environ.get('PYTHONPATH') != '/repo' \
        or os.environ.get('PYTHONHASHSEED') != '0':
    env = dict(os.environ)
    env['PYTHONPATH'] = '/repo'
    env['PYTHONHASHSEED'] = '0'
    os.execve(PY, [PY, os.path.abspath(__file__)] + sys.argv[1:], env)
sys.path.insert(0, HERE)
import vlib  # noqa: E402,F401  (sets sys.path for gen/)
from props import acc_common  # noqa: E402
acc_common.main()
