#!/usr/bin/env python3
"""Stand-alone run of the object-heap correspondence: python3 tools/corr/heap_corr.py [n] [seed]"""
import os
import sys
HERE = os.path.dirname(os.path.abspath(__file__))
PY = '/venv/bin/python'
if os.path.realpath(sys.executable) != os.path.realpath(PY) or os.environ.get('PYTHONPATH') != '/repo':
    env = dict(os.environ)
    env['PYTHONPATH'] = '/repo'
    env['PYTHONHASHSEED'] = '0'
    os.execve(PY, [PY, os.path.abspath(__file__)] + sys.argv[1:], env)
sys.path.insert(0, os.path.dirname(HERE))
import vlib  # noqa
import random
import json
from props import C03_heap

n = int(sys.argv[1]) if len(sys.argv) > 1 else 5000
seed = sys.argv[2] if len(sys.argv) > 2 else '0'
rng = random.Random('heap:' + seed)
r = C03_heap.corr(rng, n, n_pipeline=max(200, n // 4))
print(json.dumps({k: v for k, v in r.items() if k not in ('disagreements', 'texts')}, indent=1, sort_keys=True))
print('disagreements:', len(r['disagreements']))
for d in r['disagreements'][:5]:
    print(json.dumps(d)[:3000])
