#!/usr/bin/env python3
"""Exhaustive short token sequences + random longer ones: exception sites of format(.., reindent_aligned=True)."""
import collections, itertools, os, random, sys, traceback
HERE = os.path.dirname(os.path.abspath(__file__))
PY = '/venv/bin/python'
if os.path.realpath(sys.executable) != os.path.realpath(PY) or os.environ.get('PYTHONPATH') != '/repo':
    env = dict(os.environ); env['PYTHONPATH'] = '/repo'; env['PYTHONHASHSEED'] = '0'
    os.execve(PY, [PY, os.path.abspath(__file__)] + sys.argv[1:], env)
sys.path.insert(0, os.path.dirname(HERE)); sys.path.insert(0, os.path.join(os.path.dirname(HERE), 'gen'))
import sqlparse
from sqlparse.exceptions import SQLParseError

ALPHA = ['case', 'when', 'then', 'else', 'end', 'where', 'as', 'select', '(', ')', ',', 'a', '1', 'and', 'between',
         'from', 'group by', 'join', 'on', '::', '[', ']', '.', ';', 'if', 'for', 'begin', 'loop', 'over', 'in', '=',
         '*', 'order', 'x.y', 'foo(', '--c\n', 'values', 'asc', 'having', "'s'", 'end if', 'end loop', 'while', 'create',
         'or replace', 'declare', 'interval', 'union', 'limit', ':=', '-', 'not', 'null', '/*c*/', 'window', 'filter']


def site(text):
    try:
        sqlparse.format(text, reindent_aligned=True)
    except SQLParseError:
        return None
    except Exception as e:
        tb = traceback.extract_tb(e.__traceback__)
        fr = [f for f in tb if '/repo/sqlparse' in f.filename]
        inner = fr[-1]
        flt = [f for f in fr if '/filters/' in f.filename or '/engine/' in f.filename]
        f2 = flt[-1] if flt else inner
        return (type(e).__name__, os.path.basename(f2.filename), f2.lineno, os.path.basename(inner.filename), inner.lineno)
    return None


def main():
    maxlen = int(sys.argv[1]) if len(sys.argv) > 1 else 3
    nrand = int(sys.argv[2]) if len(sys.argv) > 2 else 100000
    found = collections.defaultdict(list)
    cnt = 0
    for L in range(1, maxlen + 1):
        for seq in itertools.product(ALPHA, repeat=L):
            for sep in (' ', ''):
                t = sep.join(seq)
                cnt += 1
                s = site(t)
                if s:
                    found[s].append(t)
    rng = random.Random(7)
    for _ in range(nrand):
        L = rng.choice([4, 5, 6, 8])
        t = rng.choice([' ', ' ', '', '\n']).join(rng.choice(ALPHA) for _ in range(L))
        cnt += 1
        s = site(t)
        if s:
            found[s].append(t)
    print('tried', cnt)
    for k, v in sorted(found.items(), key=lambda kv: -len(kv[1])):
        v.sort(key=len)
        print(len(v), k, [repr(x) for x in v[:6]])

main()
