import sys, random, collections, json
sys.path.insert(0,'/tmp/agent_RX/tools'); sys.path.insert(0,'/tmp/agent_RX/tools/gen')
from props import C10_reindent as C
class Ctx:
    def __init__(s): s.rng=random.Random(int(sys.argv[1])); s.tier='thorough'
    def n(s,q,t): return int(sys.argv[2])
r = C.run(Ctx())
print(r['evaluations'], r['distribution'])
un = [f for f in r['failures'] if not C.classify(f, C.KNOWN)]
print('unclassified among first 50:', len(un))
for f in un[:5]: print(f['class'], repr(''.join(map(chr,f['input']))[:200]), f['observed'])
