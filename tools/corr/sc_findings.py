"""Search the implementation for violations of the strip_comments property, tabulate kinds and their
co-occurrence, shrink one witness per (kind, signature)."""
import collections, os, random, sys, time
HERE = os.path.dirname(os.path.abspath(__file__))
TOOLS = os.path.dirname(HERE)
PY = '/venv/bin/python'
if os.path.realpath(sys.executable) != os.path.realpath(PY) or os.environ.get('PYTHONPATH') != '/repo':
    env = dict(os.environ); env['PYTHONPATH'] = '/repo'; env['PYTHONHASHSEED'] = '0'
    os.execve(PY, [PY, os.path.abspath(__file__)] + sys.argv[1:], env)
sys.path.insert(0, TOOLS)
import vlib
from props import C08_sc, common
import gens_sc

n = int(sys.argv[1]) if len(sys.argv) > 1 else 5000
seed = sys.argv[2] if len(sys.argv) > 2 else '0'
rng = random.Random('find:' + seed)
combos = collections.Counter()
kinds = collections.Counter()
wit = {}
t0 = time.time()
texts = [gens_sc.sc_text(rng)[0][:400] for _ in range(n)]
for s in texts:
    fs = C08_sc.oracle_all(s)
    ks = tuple(sorted(f['kind'] for f in fs))
    if ks:
        combos[ks] += 1
    for f in fs:
        kinds[f['kind']] += 1
        if f['kind'] not in wit or len(f['input']) < len(wit[f['kind']]['input']):
            wit[f['kind']] = f
    # significant non-idempotence without a left-over comment or a removed hint
    if 'not-idempotent' in ks and 'comment-left' not in ks:
        wit.setdefault('not-idempotent-without-comment-left', fs[[f['kind'] for f in fs].index('not-idempotent')])
print('texts', n, 'wall %.0fs' % (time.time() - t0))
print('kinds', dict(kinds))
for k, v in combos.most_common():
    print('  combo', v, k)
for k, f in wit.items():
    kk = f['kind']
    g = C08_sc.shrink(f)
    print('WITNESS', k, repr(''.join(map(chr, g['input']))), '::', g['observed'][:300])
