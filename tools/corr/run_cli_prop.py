"""Run tools/props/C19_cli.py the way check.py would (quick tier) and print a summary:
   PYTHONPATH=/repo PYTHONHASHSEED=0 /venv/bin/python tools/corr/run_cli_prop.py [quick|thorough] [seed]"""
import json, os, random, sys, time
HERE = os.path.dirname(os.path.dirname(os.path.abspath(__file__)))
sys.path.insert(0, HERE)
import vlib  # noqa
from props import C19_cli as P  # noqa


class Ctx:
    def __init__(self, tier, seed):
        self.tier = tier
        self.rng = random.Random('C19_cli:%s' % seed)
        self.notes = []

    def quick(self):
        return self.tier == 'quick'

    def n(self, q, t):
        return q if self.tier == 'quick' else t


tier = sys.argv[1] if len(sys.argv) > 1 else 'quick'
ctx = Ctx(tier, sys.argv[2] if len(sys.argv) > 2 else 0)
t0 = time.time()
res = P.run(ctx)
print('wall %.1fs' % (time.time() - t0))
print('evaluations', res['evaluations'], 'traces_validated_against_impl', res['traces_validated_against_impl'])
print('disagreements', len(res['disagreements']))
for d in res['disagreements'][:5]:
    print('  ', json.dumps(d)[:600])
print('distribution', json.dumps(res['distribution'], sort_keys=True)[:3000])
print('notes', res.get('notes'))
with open(os.path.join(HERE, '..', 'known_findings.json')) as f:
    known = json.load(f)
print('failures', len(res['failures']))
for f in res['failures']:
    print('  class=%s -> known finding %s' % (f.get('class'), P.classify(f, known)))
    print('     text=%r flags=%r enc=%s inp=%s out=%s' % (''.join(map(chr, f['text'])), f['flags'], f['enc'], f['inp'], f['out']))
    print('     observed', f['observed'][:160]); print('     expected', f['expected'][:160])
for k in known:
    if 'C19-cli' in k['id']:
        g = P.rederive_known(k)
        print('rederive', k['id'], 'class', k['class'], '->', 'reproduced' if g else 'NOT reproduced')
        r = P.replay({'failure': g or k['witness']})
        print('   replay fails:', r['fails'])
