import sys, random, collections
sys.path.insert(0,'/tmp/agent_RA/tools'); sys.path.insert(0,'/tmp/agent_RA/tools/gen')
from props import C10_aligned as C
import gens_aligned as ga, gens_reindent as gr, gens
rng = random.Random(int(sys.argv[1])); N = int(sys.argv[2])
stats = collections.Counter(); fails = collections.defaultdict(list)
for i in range(N):
    r = rng.random()
    if r < 0.35: t = ga.casesoup(rng)
    elif r < 0.7: t = gr.kwsoup(rng)
    elif r < 0.85:
        g = gens.SqlGen(rng, max_depth=2); s = gens.render(g.statement(), rng, layout='random', comments=0.3, recase='random')
        k = rng.randrange(0, len(s) + 1); t = s[:k] + gens.junk(rng, rng.choice([1, 2, 3])) + s[k:]
    else: t = C.gen_grammar_case(rng)[0]
    try:
        out = ''.join(C.format_pieces(t))
    except Exception:
        stats['exc'] += 1; continue
    kws, _ = C.scan_output(out)
    for k in kws:
        if k['between_and']: stats['exempt-between-and'] += 1
        elif k['in_case']: stats['exempt-in-case'] += 1
        elif k['in_plain_paren']: stats['exempt-plain-paren'] += 1
        elif k['own_line']: stats['checked-ok'] += 1
        else:
            stats['VIOLATION'] += 1; fails[k['kw']].append((t, k, out))
print(dict(stats))
for kw, v in fails.items():
    v.sort(key=lambda x: len(x[0]))
    print('==', kw, len(v))
    for t, k, out in v[:3]:
        def f(s):
            for fl in C.oracle_all(s):
                if fl['part'] == 'a': return fl
        from props import common
        sm, best = common.shrink_text(t, f)
        print('   ', repr(sm), best['observed'] if best else '', repr(best['output']) if best else '')
