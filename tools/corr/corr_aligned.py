#!/usr/bin/env python3
"""Correspondence of the aligned-indent model with sqlparse.format(text, reindent_aligned=True).
usage: corr_aligned.py [N] [seed] [mode]   mode: str (default: the final string) | tree"""
import collections
import os
import random
import sys

HERE = os.path.dirname(os.path.abspath(__file__))
PY = '/venv/bin/python'
if os.path.realpath(sys.executable) != os.path.realpath(PY) or os.environ.get('PYTHONPATH') != '/repo':
    env = dict(os.environ)
    env['PYTHONPATH'] = '/repo'
    env['PYTHONHASHSEED'] = '0'
    os.execve(PY, [PY, os.path.abspath(__file__)] + sys.argv[1:], env)
sys.path.insert(0, os.path.dirname(HERE))
sys.path.insert(0, os.path.join(os.path.dirname(HERE), 'gen'))
import vlib  # noqa: E402
import impl_aligned as ia  # noqa: E402
import gens_aligned as ga  # noqa: E402
from props import common  # noqa: E402

# inputs that must be part of every run: the known crash and its variants, hand-written shapes
FIXED = ['case\nwhere end', 'case,end', 'case::end', 'case a as end', 'case when a then b as end', '(as)', '(:=)',
         'case end', 'case when 1 then 2 else 3 end', '', ' ', ';', 'select 1;select 2',
         'select a, b as c, case when x=1 then 2 when yyy between 1 and 3 then 4 else 5 end from t left join u on '
         't.a=u.a where a=1 and b between 2 and 3 or c in (select x from y where z=1) group by a, b order by 1 limit 3',
         'select * from a natural join b cross join c straight_join d full outer join e',
         'select a from t group  by a, b order\tby c, d', 'update t set a=1, b=2 where c between 1 and 2 and d',
         'insert into t (a, b) values (1, 2), (3, 4)', 'delete from t where a in (select 1 union select 2)',
         'select (select (select 1 from a) from b) from c', 'select a from (select b, c from t group by b, c) x',
         'create function f() returns int', 'alter table t add constraint c', 'handler format connection',
         "select 'a\nb', c from t", 'select a -- c\n, b from t', 'select a /* x */ from t -- y']


def main():
    n = int(sys.argv[1]) if len(sys.argv) > 1 else 2000
    seed = int(sys.argv[2]) if len(sys.argv) > 2 else 1
    mode = sys.argv[3] if len(sys.argv) > 3 else 'str'
    rng = random.Random(seed)
    cases = [(t, 'fixed') for t in FIXED]
    for _ in range(n):
        cases.append(ga.gen_text(rng))
    cmd = 'aligned' if mode == 'str' else 'aligned_tree'
    fn = ia.aligned_dump if mode == 'str' else ia.aligned_tree_dump
    reqs = [f'{cmd} {vlib.cps(t)}' for t, _ in cases]
    replies = vlib.run_model(reqs)
    agree = collections.Counter()
    total = collections.Counter()
    stuck = collections.Counter()
    errs = collections.Counter()
    changed = 0
    dis = []
    for (t, kind), r in zip(cases, replies):
        mine = fn(t)
        total[kind] += 1
        if r == 'ERR Stuck':
            stuck[kind] += 1
        if mine.startswith('ERR'):
            errs[mine] += 1
        if mode == 'str' and mine.startswith('OK') and vlib.uncps(mine[3:]) != t:
            changed += 1
        if mine == r:
            agree[kind] += 1
        else:
            dis.append((t, mine, r))
    print('mode', mode, 'n', len(cases), 'seed', seed)
    for k in sorted(total):
        print(f'  {k:14s} total {total[k]:6d} agree {agree[k]:6d} stuck {stuck[k]:4d}')
    print('  TOTAL', sum(total.values()), 'agree', sum(agree.values()), 'model Stuck', sum(stuck.values()),
          'output differs from input', changed)
    print('  impl exceptions:', dict(errs))
    print('  disagreements:', len(dis))
    for t, mine, r in dis[:int(os.environ.get('SHOW', '3'))]:
        def fails(s):
            a = fn(s)
            b = vlib.run_model([f'{cmd} {vlib.cps(s)}'])[0]
            return (a, b) if a != b else None
        s, best = common.shrink_text(t, fails)
        print('  ---- shrunk input', repr(s))
        print('       impl ', best[0][:300] if best else mine[:300])
        print('       model', best[1][:300] if best else r[:300])
        if best and best[0].startswith('OK') and best[1].startswith('OK') and mode == 'str':
            print('       impl  str', repr(vlib.uncps(best[0][3:])))
            print('       model str', repr(vlib.uncps(best[1][3:])))
    sys.exit(1 if dis else 0)


main()
