"""Hand-built (partly ill-formed) trees: real ReindentFilter.process vs the Coq model (coqtop vm_compute)."""
import re, subprocess, sys
import sqlparse
from sqlparse import sql, tokens as T
from sqlparse.filters import ReindentFilter

TT = {'Name': T.Name, 'Keyword': T.Keyword, 'Punctuation': T.Punctuation, 'Whitespace': T.Whitespace,
      'DML': T.Keyword.DML, 'Integer': T.Number.Integer, 'Newline': T.Newline}
COQTT = {'Name': 'T_Name', 'Keyword': 'T_Keyword', 'Punctuation': 'T_Punctuation', 'Whitespace': 'T_Whitespace',
         'DML': 'T_DML', 'Integer': 'T_Integer', 'Newline': 'T_Newline'}

def L(tt, v): return ('L', tt, v)
def G(cls, *kids): return ('G', cls, list(kids))

def build(t):
    if t[0] == 'L':
        return sql.Token(TT[t[1]], t[2])
    g = getattr(sql, t[1])([build(k) for k in t[2]])
    return g

def text(t):
    return t[2] if t[0] == 'L' else ''.join(text(k) for k in t[2])

def cps(s): return '[' + ';'.join(str(ord(c)) for c in s) + ']%N'

def coq(t):
    if t[0] == 'L':
        return f'(Leaf {COQTT[t[1]]} {cps(t[2])})'
    return f'(Grp C{t[1]} {cps(text(t))} [' + ';'.join(coq(k) for k in t[2]) + '])'

kw = lambda s: L('Keyword', s); nm = lambda s: L('Name', s); p = lambda s: L('Punctuation', s); ws = L('Whitespace', ' ')
CASES = [
 ('fn-empty', G('Statement', G('Function')), {}),
 ('idl-only-comma', G('Statement', G('IdentifierList', p(','))), {}),
 ('idl-only-comma-cols', G('Statement', G('IdentifierList', p(','))), {'indent_columns': True}),
 ('idl-in-fn-ends-comma', G('Statement', G('Function', nm('f'), G('Parenthesis', p('('), G('IdentifierList', nm('a'), p(',')), p(')')))), {}),
 ('idl-in-fn-one-id-wrap', G('Statement', G('Function', nm('f'), G('Parenthesis', p('('), G('IdentifierList', nm('a'), p(','), ws), p(')')))), {'wrap_after': 1}),
 ('case-first-else', G('Statement', G('Case', kw('case'), kw('else'), ws, nm('x'), ws, kw('end'))), {}),
 ('case-empty', G('Statement', G('Case', kw('case'), kw('end'))), {}),
 ('idl-empty-first', G('Statement', G('IdentifierList', G('Identifier'), p(','), ws, nm('b'))), {}),
 ('values-empty-paren', G('Statement', G('Values', kw('values'), ws, G('Parenthesis'), p(','), G('Parenthesis', p('('), p(')')))), {}),
 ('values-ok', G('Statement', G('Values', kw('values'), ws, G('Parenthesis', p('('), nm('a'), p(')')), p(','), G('Parenthesis', p('('), p(')')))), {'comma_first': True}),
 ('case-empty-group-cond', G('Statement', G('Case', kw('case'), G('Identifier'), ws, kw('when'), ws, nm('a'), ws, kw('then'), ws, nm('b'), ws, kw('end'))), {}),
 ('paren-no-open', G('Statement', G('Parenthesis', nm('a'), ws, kw('from'), ws, nm('b'))), {}),
 ('ok-nested', G('Statement', L('DML', 'select'), ws, G('IdentifierList', nm('a'), p(','), ws, G('Function', nm('f'), G('Parenthesis', p('('), G('IdentifierList', nm('x'), p(','), nm('y')), p(')')))), ws, kw('from'), ws, nm('t')), {'wrap_after': 3}),
 ('idl-kw-item-nl', G('Statement', G('IdentifierList', nm('x'), p(','), ws, kw('union'))), {}),
]

def real(tree, opts):
    stmt = build(tree)
    o = dict(width=opts.get('indent_width', 2), char='\t' if opts.get('indent_tabs') else ' ', wrap_after=opts.get('wrap_after', 0),
             comma_first=opts.get('comma_first', False), indent_after_first=opts.get('indent_after_first', False),
             indent_columns=opts.get('indent_columns', False), compact=opts.get('compact', False))
    f = ReindentFilter(**o)
    try:
        f.process(stmt)
    except RuntimeError as e:
        return 'ERR StopIteration' if 'StopIteration' in str(e) else 'ERR RuntimeError'
    except Exception as e:
        return 'ERR ' + type(e).__name__
    return 'OK ' + repr(str(stmt))

def model(cases):
    src = ['From SqlModel Require Import Base PyStr Node Passes.', 'From SqlModel.Filters Require Import RxStripWs RxSerial Reindent.',
           'From Coq Require Import ZArith.']
    for i, (name, tree, o) in enumerate(cases):
        b = lambda k: 'true' if o.get(k) else 'false'
        src.append(f'Definition o{i} : ropts := {{| o_width := {o.get("indent_width", 2)}; o_tab := {b("indent_tabs")}; o_wrap := {o.get("wrap_after", 0)}; '
                   f'o_comma_first := {b("comma_first")}; o_after_first := {b("indent_after_first")}; o_columns := {b("indent_columns")}; o_compact := {b("compact")} |}}.')
        src.append(f'Eval vm_compute in (match reindent_stmt o{i} init_rstate {coq(tree)} with Ok (_, n) => inl (text_of n) | Err x => inr x end).')
    open('/tmp/rx_treecmp_t.v', 'w').write('\n'.join(src) + '\n')
    out = subprocess.run(['coqtop', '-R', '/tmp/agent_RX/coq/theories', 'SqlModel', '-batch', '-l', '/tmp/rx_treecmp_t.v'],
                         capture_output=True, text=True, timeout=600).stdout
    res = []
    for m in re.finditer(r'= (inl|inr)\s+([^:]*?)\s*:\s', out, re.S):
        if m.group(1) == 'inr':
            res.append('ERR ' + m.group(2).strip())
        else:
            nums = re.findall(r'(\d+)%N', m.group(2))
            res.append('OK ' + repr(''.join(chr(int(x)) for x in nums)))
    return res, out

ms, raw = model(CASES)
assert len(ms) == len(CASES), raw[-2000:]
bad = 0
for (name, tree, o), m in zip(CASES, ms):
    r = real(tree, o)
    print(f'{name:28s} {"AGREE" if r == m else "DISAGREE"}  real={r}  model={m}')
    bad += r != m
print('disagreements', bad)
