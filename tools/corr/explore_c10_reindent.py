import sys, random, collections, json
sys.path.insert(0,'/tmp/agent_RX/tools'); sys.path.insert(0,'/tmp/agent_RX/tools/gen')
from props import C10_reindent as C
import gens, gens_reindent as gr
rng = random.Random(int(sys.argv[1])); N=int(sys.argv[2])
grammar_only = len(sys.argv)>3
cl = collections.defaultdict(list); tot=0; dist=collections.Counter()
for _ in range(N):
    if grammar_only:
        g = gens.SqlGen(rng); text = gens.render(g.script(), rng, layout=rng.choice(['canon','random']), comments=rng.choice([0,0,0.2]), recase=rng.choice([None,'random'])); kind='script'
        o = gr.gen_opts(rng)
    else:
        text, kind, o = C.gen_case(rng)
    dist[kind]+=1; tot+=1
    for f in C.oracle_all(text, o):
        cl[f['class']].append(f)
print('tried', tot, dict(dist))
for k, v in sorted(cl.items(), key=lambda kv:-len(kv[1])):
    known = collections.Counter(C.classify(f) for f in v)
    print('==', k, len(v), 'known:', dict(known))
    shown=0
    for f in sorted(v, key=lambda f: len(f['input']))[:40]:
        if C.classify(f): continue
        print('   ORIG', repr(''.join(map(chr,f['input']))[:300]), f['observed'][:150])
        g = C.shrink(f)
        print('   ', repr(''.join(map(chr,g['input']))), g['options']); print('       ', g['observed']); print('       ', repr(g.get('output','')[:200]))
        shown+=1
        if shown>=3: break
