#!/usr/bin/env python3
"""Sanity: the correspondence notices a library whose group_tokens lacks the re-parenting loop / grp.parent = self."""
import os, sys
HERE = os.path.dirname(os.path.abspath(__file__))
PY = '/venv/bin/python'
if os.path.realpath(sys.executable) != os.path.realpath(PY) or os.environ.get('PYTHONPATH') != '/repo':
    env = dict(os.environ); env['PYTHONPATH'] = '/repo'; env['PYTHONHASHSEED'] = '0'
    os.execve(PY, [PY, os.path.abspath(__file__)] + sys.argv[1:], env)
sys.path.insert(0, os.path.dirname(HERE))
import vlib, random
from sqlparse import sql
from props import C03_heap

which = sys.argv[1]
def gt(self, grp_cls, start, end, include_end=True, extend=False):
    start_idx = start
    start = self.tokens[start_idx]
    end_idx = end + include_end
    if extend and isinstance(start, grp_cls):
        subtokens = self.tokens[start_idx + 1:end_idx]
        grp = start
        grp.tokens.extend(subtokens)
        del self.tokens[start_idx + 1:end_idx]
        grp.value = str(start)
    else:
        subtokens = self.tokens[start_idx:end_idx]
        grp = grp_cls(subtokens)
        self.tokens[start_idx:end_idx] = [grp]
        if which != 'nogrpparent':
            grp.parent = self
    if which != 'noreparent':
        for token in subtokens:
            token.parent = grp
    return grp
sql.TokenList.group_tokens = gt
r = C03_heap.corr(random.Random(3), 300, 100)
print(which, 'disagreements', len(r['disagreements']), 'violations', len(r['violations']))
for d in r['disagreements'][:1]:
    print(d['stage'], ''.join(map(chr, d['input']))[:80], d['ops'][:200]); print(' impl ', d['impl'][:300]); print(' model', d['model'][:300])
print(r['violations'][:1])
