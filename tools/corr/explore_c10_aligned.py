#!/usr/bin/env python3
"""Explore the C10_aligned oracles: failure classes, known/unknown, shrunk representatives.
usage: explore_c10_aligned.py seed N [grammar]"""
import collections, os, random, sys
HERE = os.path.dirname(os.path.abspath(__file__))
PY = '/venv/bin/python'
if os.path.realpath(sys.executable) != os.path.realpath(PY) or os.environ.get('PYTHONPATH') != '/repo':
    env = dict(os.environ); env['PYTHONPATH'] = '/repo'; env['PYTHONHASHSEED'] = '0'
    os.execve(PY, [PY, os.path.abspath(__file__)] + sys.argv[1:], env)
sys.path.insert(0, os.path.dirname(HERE)); sys.path.insert(0, os.path.join(os.path.dirname(HERE), 'gen'))
from props import C10_aligned as C
rng = random.Random(int(sys.argv[1])); N = int(sys.argv[2])
grammar_only = len(sys.argv) > 3
cl = collections.defaultdict(list); dist = collections.Counter()
for i in range(N):
    text, kind = C.gen_grammar_case(rng) if (grammar_only or i % 3 != 2) else C.gen_case(rng)
    dist[kind] += 1
    for f in C.oracle_all(text):
        cl[f['class']].append(f)
print('tried', N, dict(dist))
for k, v in sorted(cl.items(), key=lambda kv: -len(kv[1])):
    known = collections.Counter(C.classify(f) for f in v)
    print('==', k, len(v), 'known:', dict(known))
    shown = 0
    for f in sorted(v, key=lambda f: len(f['input'])):
        if C.classify(f):
            continue
        g = C.shrink(f)
        print('   ', repr(''.join(map(chr, g['input']))), '| classify(shrunk) =', C.classify(g)); print('       ', g['observed']); print('       ', repr(g.get('output', '')[:200]))
        shown += 1
        if shown >= 4:
            break
