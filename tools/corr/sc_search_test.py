"""Exhaustive + random comparison of the Gallina nl_search with re.search(r'([\r\n]+) *$', s)."""
import itertools, os, random, sys
HERE = os.path.dirname(os.path.abspath(__file__))
sys.path.insert(0, os.path.dirname(HERE))
import vlib
import impl_stripcomments as I

def main():
    alpha = ['\r', '\n', ' ', 'x']
    strs = ['']
    for n in range(1, 9):
        strs += [''.join(p) for p in itertools.product(alpha, repeat=n)]
    rng = random.Random(1)
    alpha2 = ['\r', '\n', ' ', 'x', '\t', '\x0b', '\x0c', '\x85', ' ', '\xa0', '-', '*', '/']
    for _ in range(30000):
        strs.append(''.join(rng.choice(alpha2) for _ in range(rng.randrange(0, 16))))
    rep = vlib.run_model(['scsearch ' + vlib.cps(s) for s in strs])
    bad = [(s, r, I.scsearch_dump(s)) for s, r in zip(strs, rep) if r != I.scsearch_dump(s)]
    print('compared', len(strs), 'disagreements', len(bad))
    for b in bad[:10]:
        print(repr(b))
    for s in ['\n \n', '\r\n', 'x\n  ', 'x\n', '\r\n \n', 'a\n\n', '\n \n \n', 'x \n', '\n\r \n']:
        print(repr(s), I.scsearch_dump(s))
main()
