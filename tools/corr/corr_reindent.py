#!/usr/bin/env python3
"""Correspondence of the reindent model with sqlparse.format(..., reindent=True, **opts).
usage: corr_reindent.py [N] [seed] [mode]   mode: str (default) | tree | stripws"""
import collections
import os
import random
import sys

HERE = os.path.dirname(os.path.abspath(__file__))
PY = '/venv/bin/python'
if os.path.realpath(sys.executable) != os.path.realpath(PY) or os.environ.get('PYTHONPATH') != '/repo':
    env = dict(os.environ)
    env['PYTHONPATH'] = '/repo'
    env['PYTHONHASHSEED'] = '0'
    os.execve(PY, [PY, os.path.abspath(__file__)] + sys.argv[1:], env)
sys.path.insert(0, os.path.dirname(HERE))
sys.path.insert(0, os.path.join(os.path.dirname(HERE), 'gen'))
import vlib  # noqa: E402
import impl_reindent as ir  # noqa: E402
import gens_reindent as gr  # noqa: E402
from props import common  # noqa: E402


def main():
    n = int(sys.argv[1]) if len(sys.argv) > 1 else 2000
    seed = int(sys.argv[2]) if len(sys.argv) > 2 else 1
    mode = sys.argv[3] if len(sys.argv) > 3 else 'str'
    rng = random.Random(seed)
    cases = []
    for _ in range(n):
        text, kind = gr.gen_text(rng)
        o = gr.gen_opts(rng)
        cases.append((text, kind, o))
    if mode == 'str':
        reqs = [f'reindent {ir.opts_str(o)} {vlib.cps(t)}' for t, _, o in cases]
        fn = lambda t, o: ir.reindent_dump(o, t)
    elif mode == 'tree':
        reqs = [f'reindent_tree {ir.opts_str(o)} {vlib.cps(t)}' for t, _, o in cases]
        fn = lambda t, o: ir.reindent_tree_dump(o, t)
    else:
        reqs = [f'stripws_tree {vlib.cps(t)}' for t, _, o in cases]
        fn = lambda t, o: ir.stripws_tree_dump(t)
    replies = vlib.run_model(reqs)
    agree = collections.Counter()
    total = collections.Counter()
    stuck = collections.Counter()
    errs = collections.Counter()
    dis = []
    for (t, kind, o), r in zip(cases, replies):
        mine = fn(t, o)
        total[kind] += 1
        if r == 'ERR Stuck':
            stuck[kind] += 1
        if mine.startswith('ERR'):
            errs[mine] += 1
        if mine == r:
            agree[kind] += 1
        else:
            dis.append((t, o, mine, r))
    print('mode', mode, 'n', n, 'seed', seed)
    for k in sorted(total):
        print(f'  {k:12s} total {total[k]:6d} agree {agree[k]:6d} stuck {stuck[k]:4d}')
    print('  impl exceptions:', dict(errs))
    print('  disagreements:', len(dis))
    shown = 0
    for t, o, mine, r in dis[:int(os.environ.get('SHOW', '3'))]:
        def fails(s):
            a = fn(s, o)
            req = reqs[0].split(' ')[0]
            line = f'{req} {ir.opts_str(o)} {vlib.cps(s)}' if mode != 'stripws' else f'{req} {vlib.cps(s)}'
            b = vlib.run_model([line])[0]
            return (a, b) if a != b else None
        s, best = common.shrink_text(t, fails)
        print('  ---- shrunk input', repr(s), 'opts', ir.opts_str(o))
        print('       impl ', best[0][:300] if best else mine[:300])
        print('       model', best[1][:300] if best else r[:300])
        if best and best[0].startswith('OK') and best[1].startswith('OK') and mode == 'str':
            print('       impl  str', repr(vlib.uncps(best[0][3:])))
            print('       model str', repr(vlib.uncps(best[1][3:])))


main()
