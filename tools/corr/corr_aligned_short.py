#!/usr/bin/env python3
"""Exhaustive short token sequences (exception-heavy): model `aligned` vs sqlparse.format(.., reindent_aligned=True),
and the safety predicate: `alsafe` has a 0  <=>  the AlignedIndentFilter stage raises (aligned_stmt_rspec).
usage: corr_aligned_short.py [maxlen]"""
import collections
import itertools
import os
import sys

HERE = os.path.dirname(os.path.abspath(__file__))
PY = '/venv/bin/python'
if os.path.realpath(sys.executable) != os.path.realpath(PY) or os.environ.get('PYTHONPATH') != '/repo':
    env = dict(os.environ)
    env['PYTHONPATH'] = '/repo'
    env['PYTHONHASHSEED'] = '0'
    os.execve(PY, [PY, os.path.abspath(__file__)] + sys.argv[1:], env)
sys.path.insert(0, os.path.dirname(HERE))
sys.path.insert(0, os.path.join(os.path.dirname(HERE), 'gen'))
import vlib  # noqa: E402
import impl_aligned as ia  # noqa: E402
import impl_reindent as ir  # noqa: E402

ALPHA = ['case', 'when', 'then', 'else', 'end', 'where', 'as', 'select', '(', ')', ',', 'a', '1', 'and', 'between',
         'from', 'group by', 'join', 'on', '::', '[', ']', '.', ';', 'if', 'for', 'begin', 'loop', 'over', 'in', '=',
         '*', 'order', 'x.y', 'foo(', '--c\n', 'values', 'asc', 'having', "'s'", 'end if', 'end loop', 'while', 'create',
         'or replace', 'declare', 'interval', 'union', 'limit', ':=', '-', 'not', 'null', '/*c*/', 'window', 'filter']


def main():
    maxlen = int(sys.argv[1]) if len(sys.argv) > 1 else 3
    texts = []
    for L in range(1, maxlen + 1):
        for seq in itertools.product(ALPHA, repeat=L):
            texts.append(' '.join(seq))
            if L <= 2:
                texts.append(''.join(seq))
    texts = sorted(set(texts))
    replies = vlib.run_model([f'aligned {vlib.cps(t)}' for t in texts])
    safe = vlib.run_model([f'alsafe {vlib.cps(t)}' for t in texts])
    errs = collections.Counter()
    dis = []
    safety_bad = []
    for t, r, s in zip(texts, replies, safe):
        mine = ia.aligned_dump(t)
        if mine.startswith('ERR'):
            errs[mine] += 1
        if mine != r:
            dis.append((t, mine, r))
        # the stage that raises: stripws alone (strip_whitespace=True) succeeds <=> alsafe is Ok
        sw = ir.stripws_tree_dump(t)
        if sw.startswith('OK') != s.startswith('OK'):
            safety_bad.append((t, sw[:40], s))
        elif s.startswith('OK'):
            unsafe = '0' in s[3:].split(',')
            if unsafe != mine.startswith('ERR'):
                safety_bad.append((t, mine[:40], s))
    print('short sequences', len(texts), 'agree', len(texts) - len(dis), 'model Stuck', sum(1 for r in replies if r == 'ERR Stuck'))
    print('  impl exceptions:', dict(errs))
    print('  disagreements:', len(dis), [d for d in dis[:5]])
    print('  alsafe <-> no exception violated:', len(safety_bad), safety_bad[:5])
    sys.exit(1 if dis or safety_bad else 0)


main()
