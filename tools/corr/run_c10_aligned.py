#!/usr/bin/env python3
"""Run tools/props/C10_aligned.run like check.py does. usage: run_c10_aligned.py seed N"""
import os, random, sys
HERE = os.path.dirname(os.path.abspath(__file__))
PY = '/venv/bin/python'
if os.path.realpath(sys.executable) != os.path.realpath(PY) or os.environ.get('PYTHONPATH') != '/repo':
    env = dict(os.environ); env['PYTHONPATH'] = '/repo'; env['PYTHONHASHSEED'] = '0'
    os.execve(PY, [PY, os.path.abspath(__file__)] + sys.argv[1:], env)
sys.path.insert(0, os.path.dirname(HERE)); sys.path.insert(0, os.path.join(os.path.dirname(HERE), 'gen'))
from props import C10_aligned as C


class Ctx:
    def __init__(s):
        s.rng = random.Random(int(sys.argv[1])); s.tier = 'thorough'
    def n(s, q, t):
        return int(sys.argv[2])


r = C.run(Ctx())
print('evaluations', r['evaluations'], 'model==impl on', r['traces_validated_against_impl'], 'disagreements', len(r['disagreements']))
print(r['distribution'])
un = [f for f in r['failures'] if not C.classify(f, C.KNOWN)]
print('failures listed', len(r['failures']), 'unclassified:', len(un))
for f in un[:5]:
    print(f['class'], repr(''.join(map(chr, f['input']))[:200]), f['observed'])
