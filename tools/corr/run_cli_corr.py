"""Stand-alone run of the command line correspondence (tools/props/C19_cli.py) outside check.py:
   PYTHONPATH=/repo PYTHONHASHSEED=0 /venv/bin/python tools/corr/run_cli_corr.py [n_args] [n_main] [seed]"""
import json, os, random, sys, time
HERE = os.path.dirname(os.path.dirname(os.path.abspath(__file__)))
sys.path.insert(0, HERE)
import vlib  # noqa
from props import C19_cli as P  # noqa


class Ctx:
    def __init__(self, seed):
        self.rng = random.Random('C19cli:%s' % seed)
        self.tier = 'quick'

    def n(self, q, t):
        return q


na = int(sys.argv[1]) if len(sys.argv) > 1 else 4000
nm = int(sys.argv[2]) if len(sys.argv) > 2 else 3000
ctx = Ctx(sys.argv[3] if len(sys.argv) > 3 else 0)
res = {'disagreements': []}
t0 = time.time()
n1, adist = P.corr_args(ctx, na, res)
print('cliargs+cliopts compared:', n1, 'disagreements so far:', len(res['disagreements']), '%.1fs' % (time.time() - t0))
print(json.dumps(dict(adist), sort_keys=True))
t0 = time.time()
n2, skipped, mdist, tagd = P.corr_main(ctx, nm, res)
print('climain compared:', n2, 'skipped (encoding outside table):', skipped, '%.1fs' % (time.time() - t0))
print(json.dumps(dict(mdist), sort_keys=True))
print(json.dumps(dict(tagd), sort_keys=True))
print('DISAGREEMENTS:', len(res['disagreements']))
for d in res['disagreements'][:12]:
    d = dict(d)
    for k in ('stdin', 'files'):
        d.pop(k, None)
    print(json.dumps(d, ensure_ascii=True)[:900])
