"""Stand-alone runner of props/C08_sc.py: python tools/corr/sc_run.py [quick|thorough] [seed]"""
import json, os, random, sys, time
HERE = os.path.dirname(os.path.abspath(__file__))
TOOLS = os.path.dirname(HERE)
PY = '/venv/bin/python'
if os.path.realpath(sys.executable) != os.path.realpath(PY) or os.environ.get('PYTHONPATH') != '/repo':
    env = dict(os.environ); env['PYTHONPATH'] = '/repo'; env['PYTHONHASHSEED'] = '0'
    os.execve(PY, [PY, os.path.abspath(__file__)] + sys.argv[1:], env)
sys.path.insert(0, TOOLS)
import vlib
from props import C08_sc, common


class Ctx:
    def __init__(self, tier, seed):
        self.tier, self.seed = tier, seed
        self.rng = random.Random(f'C08_sc:{seed}')
        self.notes = []
    def quick(self): return self.tier == 'quick'
    def n(self, q, t): return q if self.tier == 'quick' else t


def main():
    tier = sys.argv[1] if len(sys.argv) > 1 else 'quick'
    seed = int(sys.argv[2]) if len(sys.argv) > 2 else 0
    b = vlib.ensure_built()
    assert b.model_ok
    ctx = Ctx(tier, seed)
    t0 = time.time()
    res = C08_sc.run(ctx)
    print('evaluations', res['evaluations'], 'distinct', res['distinct_nontrivial'], 'wall %.1f' % (time.time() - t0))
    print('distribution', json.dumps(res['distribution']))
    print('disagreements', len(res['disagreements']))
    seen = set()
    for d in res['disagreements'][:200]:
        s = ''.join(map(chr, d['input']))
        if d['stage'] == 'stripcomments':
            import impl_stripcomments as isc
            s2, _ = common.shrink_text(s, lambda t: isc.stripcomments_dump(t) != vlib.run_model(['stripcomments ' + vlib.cps(t)])[0])
        else:
            s2 = s
        if s2 in seen:
            continue
        seen.add(s2)
        print(' DIS', d['stage'], repr(s2))
        if len(seen) > 8:
            break
    for f in res['failures']:
        g = C08_sc.shrink(f)
        print(' FAIL', g['kind'], repr(''.join(map(chr, g['input']))), '::', g['observed'])
main()
