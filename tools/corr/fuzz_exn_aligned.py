#!/usr/bin/env python3
"""Fuzz the real library: which exception classes escape format(text, reindent_aligned=True)?
usage: fuzz_exn_aligned.py [N] [seed]"""
import collections, os, random, sys, traceback
HERE = os.path.dirname(os.path.abspath(__file__))
PY = '/venv/bin/python'
if os.path.realpath(sys.executable) != os.path.realpath(PY) or os.environ.get('PYTHONPATH') != '/repo':
    env = dict(os.environ); env['PYTHONPATH'] = '/repo'; env['PYTHONHASHSEED'] = '0'
    os.execve(PY, [PY, os.path.abspath(__file__)] + sys.argv[1:], env)
sys.path.insert(0, os.path.dirname(HERE)); sys.path.insert(0, os.path.join(os.path.dirname(HERE), 'gen'))
import sqlparse
from sqlparse.exceptions import SQLParseError
import gens_aligned as ga
from props import common


def site(text):
    try:
        sqlparse.format(text, reindent_aligned=True)
    except SQLParseError:
        return None
    except Exception as e:
        tb = traceback.extract_tb(e.__traceback__)
        fr = [f for f in tb if '/repo/sqlparse' in f.filename]
        # innermost frame inside sqlparse + the innermost frame inside the filters
        inner = fr[-1]
        flt = [f for f in fr if '/filters/' in f.filename]
        f2 = flt[-1] if flt else inner
        return (type(e).__name__, os.path.basename(f2.filename), f2.lineno, os.path.basename(inner.filename), inner.lineno, str(e)[:60])
    return None


def main():
    n = int(sys.argv[1]) if len(sys.argv) > 1 else 20000
    seed = int(sys.argv[2]) if len(sys.argv) > 2 else 1
    rng = random.Random(seed)
    found = collections.defaultdict(list)
    dist = collections.Counter()
    for _ in range(n):
        t, kind = ga.gen_text(rng)
        dist[kind] += 1
        s = site(t)
        if s:
            found[s[:5]].append((t, kind, s))
    print('tried', n, dict(dist))
    for k, v in sorted(found.items(), key=lambda kv: -len(kv[1])):
        t = min((x[0] for x in v), key=len)
        def fails(s, k=k):
            r = site(s)
            return r if r and r[:5] == k else None
        sm, best = common.shrink_text(t, fails)
        print(len(v), k, 'kinds', dict(collections.Counter(x[1] for x in v)))
        print('     minimal', repr(sm), best[5] if best else '')

main()
