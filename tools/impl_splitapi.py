"""Implementation-side observer for sqlparse.split(): same dump format as the driver command `split`."""
import sqlparse


def piece_str(p):
    return ','.join(str(ord(c)) for c in p) if p else '-'


def split_dump(text, strip_semicolon=False):
    try:
        ps = sqlparse.split(text, strip_semicolon=strip_semicolon)
    except Exception as e:  # noqa
        return 'ERR ' + type(e).__name__
    return 'OK ' + '|'.join(piece_str(p) for p in ps)
