#!/usr/bin/env python3
"""Self-test of the command line translator (tools/regen/gen_cli.py) and of the obligations over Gen/CliTab.v.

Every mutation below is applied to sqlparse/cli.py in a TEMPORARY COPY of /repo (never to /repo itself); the
translator is run on the copy (VERIF_REPO), and if it does not fail closed the regenerated CliTab.v is compiled
together with Sys/CliDefs.v, Sys/CliFacts.v and Props/C19cli.v in a hard-linked scratch copy of coq/theories.
Each mutation must either fail closed or break a named obligation.  Everything temporary is removed at the end.

    python3 tools/misc/cli_selftest.py [name ...]
"""
import os
import re
import shutil
import subprocess
import sys
import tempfile

VERIF = os.path.dirname(os.path.dirname(os.path.dirname(os.path.abspath(__file__))))
PY = '/venv/bin/python'
REPO = '/repo'

MUTATIONS = [
    ('encoding-default-utf-8-sig', "        default='utf-8',", "        default='utf-8-sig',"),
    ('strip-comments-dest-renamed', "        dest='strip_comments',", "        dest='strip_comment',"),
    ('indent_width-type-int-dropped', "        default=2,\n        type=int,", "        default=2,"),
    ('-a-mapped-to-reindent', "        '-a', '--reindent_aligned',\n", "        '-a', '--reindent_aligned',\n        dest='reindent',\n"),
    ('output-opened-with-other-encoding', "open(args.outfile, 'w', encoding=args.encoding)",
     "open(args.outfile, 'w', encoding='utf-8')"),
    ('input-opened-with-newline-empty', "open(args.filename, encoding=args.encoding)",
     "open(args.filename, encoding=args.encoding, newline='')"),
    # a few more of the same family
    ('stdin-wrapped-with-newline-empty', "TextIOWrapper(sys.stdin.buffer, encoding=args.encoding)",
     "TextIOWrapper(sys.stdin.buffer, encoding=args.encoding, newline='')"),
    ('stdin-decoded-with-constant', "TextIOWrapper(sys.stdin.buffer, encoding=args.encoding)",
     "TextIOWrapper(sys.stdin.buffer, encoding='latin-1')"),
    ('keywords-choices-without-capitalize', "_CASE_CHOICES = ['upper', 'lower', 'capitalize']", "_CASE_CHOICES = ['upper', 'lower']"),
    ('wrap_after-default-1', "        dest='wrap_after',\n        default=0,", "        dest='wrap_after',\n        default=1,"),
    ('reindent-default-true', "        dest='reindent',\n        action='store_true',\n        default=False,",
     "        dest='reindent',\n        action='store_true',\n        default=True,"),
    ('comma_first-becomes-store_true', "        dest='comma_first',\n        default=False,\n        type=bool,",
     "        dest='comma_first',\n        default=False,\n        action='store_true',"),
    ('short-flag-renamed', "        '-r', '--reindent',", "        '-R', '--reindent',"),
    ('stdin-marker-changed', "if args.filename == '-':", "if args.filename == 'stdin':"),
    ('options-not-validated', "        formatter_opts = sqlparse.formatter.validate_options(formatter_opts)",
     "        formatter_opts = dict(formatter_opts)"),
    ('format-called-with-raw-namespace', "s = sqlparse.format(data, **formatter_opts)", "s = sqlparse.format(data, **vars(args))"),
    ('errors-replace-on-output', "open(args.outfile, 'w', encoding=args.encoding)",
     "open(args.outfile, 'w', encoding=args.encoding, errors='replace')"),
    ('allow_abbrev-off', "        usage='%(prog)s  [OPTIONS] FILE, ...',", "        usage='%(prog)s  [OPTIONS] FILE, ...',\n        allow_abbrev=False,"),
    ('nargs-on-filename', "    parser.add_argument('filename')", "    parser.add_argument('filename', nargs='?')"),
]

CHAIN = ['theories/Gen/CliTab.v', 'theories/Sys/CliDefs.v', 'theories/Sys/CliFacts.v', 'theories/Props/C19cli.v']


def sh(cmd, cwd=None, env=None, timeout=1800):
    p = subprocess.run(cmd, cwd=cwd, env=env, stdout=subprocess.PIPE, stderr=subprocess.STDOUT, text=True, timeout=timeout,
                       errors='replace')
    return p.returncode, p.stdout


def enclosing(vfile, line):
    name = '?'
    with open(vfile, encoding='utf-8') as f:
        for i, l in enumerate(f, 1):
            m = re.match(r'\s*(Theorem|Lemma|Corollary|Example|Definition|Fixpoint)\s+(\w+)', l)
            if m:
                name = m.group(2)
            if i >= line:
                break
    return name


def run_one(root, name, old, new):
    work = os.path.join(root, name)
    repo = os.path.join(work, 'repo')
    shutil.copytree(REPO, repo, ignore=shutil.ignore_patterns('.git', '__pycache__', '*.pyc'))
    p = os.path.join(repo, 'sqlparse', 'cli.py')
    with open(p, encoding='utf-8') as f:
        src = f.read()
    if src.count(old) != 1:
        return f'MUTATION DOES NOT APPLY ({src.count(old)} occurrences)'
    with open(p, 'w', encoding='utf-8') as f:
        f.write(src.replace(old, new))
    env = dict(os.environ, VERIF_REPO=repo, PYTHONPATH=repo, PYTHONHASHSEED='0')
    out_v = os.path.join(work, 'CliTab.v')
    code = ("import sys; sys.path.insert(0, %r); import common, gen_cli\n"
            "try:\n    files, side = gen_cli.generate()\n"
            "except common.Unsupported as e:\n    print('UNSUPPORTED: ' + str(e.what)[:400]); sys.exit(3)\n"
            "open(%r, 'w').write(files['CliTab.v'])\n") % (os.path.join(VERIF, 'tools', 'regen'), out_v)
    rc, out = sh([PY, '-c', code], env=env)
    if rc == 3:
        return 'translator fails closed: ' + out[out.index('UNSUPPORTED: ') + 13:].strip().splitlines()[0][:260]
    if rc != 0:
        return 'translator crashed (counts as failed closed in regen.py): ' + out.strip().splitlines()[-1][:200]
    with open(os.path.join(VERIF, 'coq', 'theories', 'Gen', 'CliTab.v'), encoding='utf-8') as f:
        if f.read() == open(out_v, encoding='utf-8').read():
            return 'NOT CAUGHT: the generated table is unchanged'
    th = os.path.join(work, 'theories')
    sh(['cp', '-al', os.path.join(VERIF, 'coq', 'theories'), th])
    for v in CHAIN:
        for ext in ('o', 'os', 'ok'):
            try:
                os.unlink(os.path.join(work, v + ext))
            except OSError:
                pass
    os.unlink(os.path.join(work, CHAIN[0]))
    shutil.copy(out_v, os.path.join(work, CHAIN[0]))
    for v in CHAIN:
        rc, out = sh(['timeout', '900', 'coqc', '-R', 'theories', 'SqlModel', '-w', '-notation-overridden', v], cwd=work)
        if rc != 0:
            m = re.search(r'File "\./([^"]+)", line (\d+)', out)
            where = ''
            if m:
                where = f'{m.group(1)}:{m.group(2)} ({enclosing(os.path.join(work, m.group(1)), int(m.group(2)))})'
            err = [l for l in out.splitlines() if l.startswith('Error')]
            return f'obligation broken: {where} -- {(err[0] if err else out.strip()[-160:])[:160]}'
    return 'NOT CAUGHT: every obligation still checks'


def main():
    only = sys.argv[1:]
    root = tempfile.mkdtemp(prefix='cli_mut_', dir='/tmp')
    bad = 0
    try:
        for name, old, new in MUTATIONS:
            if only and name not in only:
                continue
            res = run_one(root, name, old, new)
            if res.startswith(('NOT CAUGHT', 'MUTATION DOES NOT')):
                bad += 1
            print(f'{name:40s} {res}', flush=True)
            shutil.rmtree(os.path.join(root, name), ignore_errors=True)
    finally:
        shutil.rmtree(root, ignore_errors=True)
    print('temporary copies removed:', not os.path.exists(root))
    sys.exit(1 if bad else 0)


if __name__ == '__main__':
    main()
