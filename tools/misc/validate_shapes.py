#!/usr/bin/env python3
"""Which of the shapes of tools/gen/shapes.py fail a property's search() oracles on the tree VERIF_REPO (default /repo)?
Run on the UNCHANGED tree: prints the EXCLUDE table of tools/gen/shapes.py.  search() is called with a budget of zero (only
the candidate inputs and the fixed families are tried, not the random generators).

    python3 tools/misc/validate_shapes.py [Cxx ...]"""
import importlib
import json
import os
import random
import sys
import time

HERE = os.path.dirname(os.path.dirname(os.path.abspath(__file__)))
VERIF = os.path.dirname(HERE)
PY = '/venv/bin/python'
REPO = os.environ.get('VERIF_REPO', '/repo')
if os.path.realpath(sys.executable) != os.path.realpath(PY) or os.environ.get('PYTHONPATH') != REPO \
        or os.environ.get('PYTHONHASHSEED') != '0':
    env = dict(os.environ, PYTHONPATH=REPO, PYTHONHASHSEED='0')
    os.execve(PY, [PY, os.path.abspath(__file__)] + sys.argv[1:], env)
sys.path.insert(0, HERE)
sys.path.insert(0, os.path.join(HERE, 'gen'))
os.chdir(VERIF)
import vlib  # noqa: E402,F401
import shapes  # noqa: E402


class Ctx0:
    def __init__(self, prop):
        self.prop, self.tier, self.seed, self.build = prop, 'quick', 0, None
        self.rng = random.Random(prop)
        self.t0 = time.time()
        self.notes = []

    def quick(self):
        return True

    def n(self, quick, thorough):
        return 0


def main():
    props = sys.argv[1:] or ['C%02d' % i for i in range(1, 21)]
    out = {}
    for p in props:
        mod = importlib.import_module('props.' + p)
        live = list(range(len(shapes.SHAPES)))
        bad = []
        # what search() reports with no candidate at all (a listed finding that search() does not classify itself, ...)
        try:
            base = mod.search(Ctx0(p), {'broken': [], 'regen': {}, 'disagreements': []}).get('failures', [])
        except Exception:  # noqa
            base = []
        base_inputs = [json.dumps(f.get('input'), default=str) for f in base]
        if base:
            print(p, 'search() without candidates already reports:', str(base[0].get('observed'))[:120])
        for _round in range(len(shapes.SHAPES)):
            hints = {'broken': [], 'regen': {}, 'disagreements': [
                {'stage': 'shape', 'input': [ord(c) for c in shapes.SHAPES[i]]} for i in live]}
            try:
                r = mod.search(Ctx0(p), hints)
            except Exception as e:  # noqa
                print(p, 'search raised', type(e).__name__, e)
                break
            fs = [f for f in r.get('failures', []) if json.dumps(f.get('input'), default=str) not in base_inputs]
            if not fs:
                break
            f = fs[0]
            t = ''.join(map(chr, f.get('input', []))) if isinstance(f.get('input'), list) else f.get('input')
            hit = [i for i in live if shapes.SHAPES[i] == t]
            if not hit:
                # a shrunk or derived input: find the shape by elimination
                hit = []
                for i in live:
                    h1 = dict(hints, disagreements=[{'stage': 'shape', 'input': [ord(c) for c in shapes.SHAPES[i]]}])
                    if [g for g in mod.search(Ctx0(p), h1).get('failures', []) if json.dumps(g.get('input'), default=str) not in base_inputs]:
                        hit.append(i)
                if not hit:
                    print(p, 'failure not caused by a shape:', json.dumps(f, default=str)[:300])
                    break
            for i in hit:
                print(p, 'shape', i, repr(shapes.SHAPES[i])[:80], '->', str(f.get('observed') or f.get('kind'))[:160], flush=True)
                live.remove(i)
                bad.append(i)
        out[p] = sorted(bad)
        print(p, 'excluded', sorted(bad), flush=True)
    print('EXCLUDE = {')
    for p, b in out.items():
        if b:
            print("    '%s': %r," % (p, b))
    print('}')


if __name__ == '__main__':
    main()
