#!/usr/bin/env python3
"""Write the task files for a round of seeded changes: /tmp/<round>/<Cxx>_task.md from the template of an earlier round
(/tmp/seed5/<Cxx>_task.md), with the list of mechanisms already used regenerated from /verif/seeded/*/meta.json, and create
the scratch worktrees /tmp/<round>/<Cxx>.   usage: mkseedtasks.py seed6 [C01 C02 ...]"""
import glob, json, os, re, subprocess, sys
rnd = sys.argv[1]
props = sys.argv[2:] or ['C%02d' % i for i in range(1, 21)]
base = '/tmp/' + rnd
os.makedirs(base + '/out', exist_ok=True)
for p in props:
    t = open('/tmp/seed5/%s_task.md' % p).read().replace('seed5', rnd)
    used = []
    for m in sorted(glob.glob('/verif/seeded/%s-*/meta.json' % p)):
        s = json.load(open(m)).get('summary', '')
        used.append('  - ' + s[:200].replace('\n', ' '))
    a = t.index('5. Do not repeat')
    b = t.index('6. Verify yourself')
    head = t[a:].split('\n  - ')[0]
    t = t[:a] + head + '\n' + '\n'.join(used) + '\n' + t[b:]
    open('%s/%s_task.md' % (base, p), 'w').write(t)
    wt = '%s/%s' % (base, p)
    if not os.path.exists(wt):
        subprocess.check_call(['git', '-C', '/repo', 'worktree', 'add', '-q', '--detach', wt, 'HEAD'])
print('ok', len(props))
