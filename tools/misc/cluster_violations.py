import sys, random, re, collections
import os; R=os.path.dirname(os.path.dirname(os.path.abspath(__file__))); sys.path.insert(0,R); sys.path.insert(0,R+'/props'); sys.path.insert(0,R+'/gen')
import C10_ws as C, gens_ws
kind = sys.argv[1]; N = int(sys.argv[2]); seed = sys.argv[3] if len(sys.argv) > 3 else 'x'
rng = random.Random(seed)
texts, _ = gens_ws.ws_texts(rng, N)
f = C.oracle_kind(kind)
from props import common
shapes = collections.Counter(); ex = {}
cnt = 0
for s in texts:
    if len(s) > 300: continue
    v = f(s)
    if not v: continue
    cnt += 1
    if cnt > 120: break
    t, best = common.shrink_text(s, f)
    # normalise
    def norm(t):
        t = re.sub(r'[ \t\x0b\x0c\xa0 \x1c\x85]', ' ', t)
        t = re.sub(r'\r\n|\r', '\n', t)
        t = re.sub(r'[A-Za-z_][A-Za-z_0-9]*', lambda m: m.group(0) if m.group(0).upper() in ('GO','SELECT','FROM','LIKE','NOT','AS','IN','OR','AND','CASE','END','BEGIN') else 'a', t)
        t = re.sub(r'\d+', '1', t)
        return t
    k = norm(t)
    shapes[k] += 1
    if k not in ex or len(t) < len(ex[k][0]): ex[k] = (t, best['output'], best['observed'])
for k, c in shapes.most_common():
    print(c, repr(k), '| ex', repr(ex[k][0]), '->', repr(ex[k][1]), '::', ex[k][2][:80])
