"""C18 - Statement.get_type() names the statement's leading DML/DDL keyword."""
import collections
import re

import vlib
from props import common
from props import acc_common as A

THEOREMS = ['Props/C18b.v / Inst/C18Barrier.v: C18_barrier (UNBOUNDED, pipeline level: any token list pre ++ (ty, kw) :: rest with skippable pre, '
            'DML/DDL ty and barrier_guard: group with all 25 passes succeeds and get_type = upper kw), passes_sinv (all 25 passes keep '
            'the keyword leaf a direct child preceded only by skippable children), C18_barrier_lexed (through cur_parse), '
            'C18_barrier_text_cut / C18_barrier_text_partial (text level), five refutations showing each guard conjunct necessary',
            'Acc/AccFacts.v: get_type_keyword (ANY prefix of whitespace leaves / comment leaves / Comment groups, then a DML or DDL '
            'keyword leaf, then ANYTHING: get_type = upper(value)), get_type_cte (WITH ... Identifier/IdentifierList ws* DML: the '
            'DML keyword), get_type_unknown_blank / _other (UNKNOWN otherwise), get_type_total (never raises)',
            'Inst/CaseInv.v C_lex_case_single + Inst/Words.v: every DML/DDL dictionary word in every letter case lexes as one token '
            'of that type in a delimited context',
            'Inst/C18Fin.v: C18_pipeline_fin / C18_pipeline_fin_member / C18_create_or_replace_fin (finite, bound in the statement: every '
            'DML/DDL word of the regenerated dictionaries x 2 casings x 6 prefixes x 3 separators x 18 continuations through lexer, '
            'splitter, all 25 passes and get_type)',
            'C18_rest_ignored_refuted (select(1)), C18_select_dot_unknown, C18_drop_typecast_unknown, '
            'C18_create_or_replace_refuted: the full statement is false of the unchanged tree (findings)']
TRUSTED = ['exact model of get_type and hand-written model of the 25 passes, tied to the code by the acc / parse correspondence and '
           'the pass-table translator']
ASSUMPTIONS = []


def _tail_class(tail):
    """Mechanisms found while proving the barrier theorem (Inst/C18Barrier.v: the conjuncts of barrier_guard)."""
    import re
    if re.match(r'(?i)at\s+time\s+zone\b', tail):
        # group_tzcasts: valid_prev = `token is not None`: the keyword becomes the left operand of AT TIME ZONE
        return 'keyword-absorbed-by-following:tzcast'
    if len(re.findall(r':=', tail)) >= 2:
        # group_assignment groups up to a far `;` and continues with stale indices: a second `:=` regroups from index 0
        return 'assignment-stale-index-regroups-from-start'
    return None


def _class(inst, d):
    k = inst['kind']
    if k == 'keyword':
        a = inst.get('after', '')
        if a[:1] in ('(', '.') or a.startswith('::') or a[:1] == ',' or a.startswith(':='):
            return 'keyword-absorbed-by-following:' + ('(' if a[:1] == '(' else '.' if a[:1] == '.' else '::' if a.startswith('::') else a[:1])
        # the same three followers after whitespace: the lexer rule is `word (?=\s*\.)`, group_typecasts / group_assignment
        # look at the previous non-whitespace token
        text = inst.get('text', '')
        pre = inst.get('pre', '')
        tail = text[len(pre) + len(inst.get('expected', '')):].lstrip()
        for sym in ('::', ':=', '.'):
            if a.strip() == '' and tail.startswith(sym):
                return 'keyword-absorbed-by-following:' + sym
        cls = _tail_class(tail) if a.strip() == '' else None
        if cls:
            return cls
        return 'deviation:keyword:after=%r' % a
    if k == 'create_or_replace':
        if inst.get('sp') != '  ' and isinstance(d.get('observed'), str) and ' '.join(d['observed'].split()) == 'CREATE OR REPLACE':
            return 'create-or-replace-inner-whitespace-kept'
        return 'deviation:create_or_replace'
    if k == 'cte':
        # the DML keyword after the CTE list, followed (after whitespace) by `::`, `:=` or `.`: absorbed as everywhere
        for sym in ('::', ':=', '.'):
            if inst.get('rest', '').lstrip().startswith(sym):
                return 'keyword-absorbed-by-following:' + sym
        cls = _tail_class(inst.get('rest', '').lstrip())
        if cls:
            return cls
    return 'deviation:' + k


def _failure(inst, d):
    return {'input': [ord(c) for c in inst['text']], 'inst': inst, 'class': _class(inst, d), 'expected': inst['expected'],
            'observed': 'get_type() = %r, expected %r' % (d.get('observed'), inst['expected'])}


def classify(f, known):
    for k in known:
        if k.get('class') and f.get('class', '').startswith(k['class']) and not f.get('class', '').startswith('deviation:'):
            return k['id']
    return None


def rederive_known(k):
    inst = k.get('witness', {}).get('inst')
    if not inst:
        return None
    d = A.c18_check_text(inst['text'], inst['expected'])
    if d:
        f = _failure(inst, d)
        if classify(f, [k]) == k['id']:
            return f
    return None


def sweep(rng, n):
    fails, dist = [], collections.Counter()
    seen = set()
    for _ in range(n):
        inst = A.c18_instance(rng)
        dist[inst['kind']] += 1
        d = A.c18_check_text(inst['text'], inst['expected'])
        if d:
            f = _failure(inst, d)
            if f['class'] not in seen:
                seen.add(f['class'])
                fails.append(f)
    return fails, dist


HISTORY_CASES = [
    # text, edit, leading keyword after the edit
    ('select a from t', 'prepend-insert', 'INSERT'),
    ('update t set a = 1', 'replace-first', 'DELETE'),
    ('with c as (select 1) select * from c', 'replace-dml-after-cte', 'DELETE'),
]


def history_failures():
    """get_type() is asked, the tree is edited through the tree API, get_type() is asked again: the second answer names the
    leading keyword of the tree as it is now (what a fresh parse of str(stmt) answers)"""
    import sqlparse
    from sqlparse import sql, tokens as T
    out = []
    for text, edit, want in HISTORY_CASES:
        try:
            st = sqlparse.parse(text)[0]
            st.get_type()
            if edit == 'prepend-insert':
                st.insert_before(0, sql.Token(T.Whitespace, ' '))
                st.insert_before(0, sql.Token(T.Keyword.DML, 'insert'))
            elif edit == 'replace-first':
                st.tokens[0] = sql.Token(T.Keyword.DML, 'delete')
                st.tokens[0].parent = st
            else:
                i = next(k for k, t in enumerate(st.tokens) if t.ttype is T.Keyword.DML)
                st.tokens[i] = sql.Token(T.Keyword.DML, 'delete')
                st.tokens[i].parent = st
            got = st.get_type()
        except Exception as e:  # noqa
            got = 'exception ' + type(e).__name__
        if got != want:
            out.append({'input': [ord(c) for c in text], 'history': 'get_type(); %s; get_type()' % edit, 'expected': want,
                        'observed': 'after the edit get_type() = %r, the leading keyword is now %r' % (got, want)})
    return out


def run(ctx):
    n = ctx.n(4000, 50000)
    fails, dist = sweep(ctx.rng, n)
    fails = fails + common.threshold_failures('C18', ctx.quick()) + history_failures()[:1]
    c = A.corr(ctx.rng, ctx.n(1200, 12000))
    return {'failures': fails, 'disagreements': c['disagreements'][:20],
            'evaluations': n + c['evaluations'], 'distinct_nontrivial': c['distinct_nontrivial'],
            'rule': 'C18 instances: every DML/DDL dictionary word x random letter case x prefixes of whitespace/comments/hints x '
                    'continuations (blank, newline, `(`, `.`, `::`, `;`, operators, literals, ...), CREATE OR REPLACE with varied inner '
                    'whitespace, WITH <1..3 CTE definitions, column lists, RECURSIVE, comments> <DML>, and non-DML/DDL heads '
                    '(UNKNOWN); acc correspondence of the model; distinct_nontrivial as in C12',
            'samples': [A.c18_instance(ctx.rng)['text'][:100] for _ in range(4)],
            'traces_validated_against_impl': c['evaluations'],
            'distribution': {'kinds': dict(dist), 'acc': c['distribution']}}


def run_oracle_only(ctx):
    fails, dist = sweep(ctx.rng, ctx.n(4000, 50000))
    return {'failures': fails, 'evaluations': sum(dist.values()), 'distinct_nontrivial': 0, 'rule': 'oracle only', 'samples': []}


def search(ctx, hints):
    import time
    known = [k for k in vlib.load_known_findings() if k.get('property') == 'C18' and k.get('status') == 'open']
    h = history_failures()
    if h:
        return {'failures': h[:1], 'tried': len(HISTORY_CASES)}
    t0, tried = time.time(), 0
    while time.time() - t0 < ctx.n(60, 600):
        fails, _ = sweep(ctx.rng, 500)
        tried += 500
        new = [f for f in fails if classify(f, known) is None]
        if new:
            return {'failures': new[:1], 'tried': tried}
    return {'failures': [], 'tried': tried}


def shrink(f):
    inst = f.get('inst')
    if not inst:
        return f
    exp = inst['expected']
    cls = f.get('class')

    def chk(s):
        if not A.keeps_kind(inst, s):
            return None
        d = A.c18_check_text(s, exp)
        return d
    t, sd = common.shrink_text(inst['text'], chk)
    if sd:
        g = dict(f)
        g['input'] = [ord(c) for c in t]
        g['shrunk_text'] = t
        g['observed'] = 'get_type() = %r, expected %r' % (sd.get('observed'), exp)
        return g
    return f


def replay(payload):
    _f = payload.get('failure') or {}
    if _f.get('threshold_input'):
        return common.threshold_replay('C18', _f)
    f = payload.get('failure')
    if f and f.get('history'):
        g = [x for x in history_failures() if x['input'] == f.get('input')]
        return {'fails': bool(g), 'observed': g[:1]}
    if not f or 'input' not in f:
        return {'fails': False, 'note': 'no concrete input: ' + str(payload.get('no_longer_checks'))}
    d = A.c18_check_text(''.join(map(chr, f['input'])), f.get('expected'))
    return {'fails': bool(d), 'observed': d}
