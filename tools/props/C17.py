"""C17 - procedural bodies (CREATE ... BEGIN ... END;) stay one statement."""
import collections
import re

import vlib
import impl
import gens
from props import common
from props import split_common as sc

THEOREMS = ['Props/C17.v: C17_create_unit (CREATE[ OR REPLACE] <header> BEGIN <Blk> END ; is one unit, for every block of the '
            'bracket language Blk: nested BEGIN..END, IF/WHILE/FOR..END IF/END WHILE/END FOR, CASE..END, LOOP..END LOOP, '
            'inner DECLARE, parentheses, semicolons, any nesting depth), C17_script / C17_partial (the surrounding units are '
            'returned separately and unchanged)',
            'C17_refuted_endloop (F2), C17_refuted_endcase (F3), C17_refuted_declare (F12): the three productions of the '
            'full grammar on which the property fails, witnesses by vm_compute on the lexed text',
            'Split/Level.v: csl_begin/csl_end/csl_case/csl_open/csl_close/csl_neutral (table lemmas over the REGENERATED '
            '_change_splitlevel), blk_run (induction over the block grammar with the splitter state generalised)']
TRUSTED = ['hand-written process loop of the splitter (splitstream correspondence); keyword tokens arrive as the lexer '
           'produces them (END IF / END LOOP / END WHILE as single tokens: lex correspondence)']
ASSUMPTIONS = ['grammar G17 minus: FOR/WHILE ... LOOP ... END LOOP, CASE ... END CASE statements, DECLARE before BEGIN '
               '(known findings F2, F3, F12)']


def _known():
    return [k for k in vlib.load_known_findings() if k.get('property') == 'C17' and k.get('status') == 'open']


RX_FORLOOP = re.compile(r'\b(FOR|WHILE)\b(?:(?!\bDO\b).)*?\bLOOP\b', re.I | re.S)
RX_ENDCASE = re.compile(r'\bEND\s+CASE\b', re.I)
RX_KW_DOT = re.compile(r'\b(IF|WHILE|FOR|FOREACH|CASE|BEGIN|DECLARE|LOOP|END) ?(\.|\()', re.I)
RX_DECL_BEFORE_BEGIN = re.compile(r'\bCREATE\b(?:(?!\bBEGIN\b).)*\bDECLARE\b', re.I | re.S)
def _block_kw_lexed_as_name(raw):
    from sqlparse import lexer, tokens as T
    try:
        return any(tt is T.Name and v.upper() in ('IF', 'WHILE', 'FOR', 'FOREACH', 'CASE', 'BEGIN', 'DECLARE', 'LOOP', 'END')
                   for tt, v in lexer.tokenize(raw))
    except Exception:  # noqa
        return False


def _dot_case(raw):
    from sqlparse import lexer, tokens as T
    try:
        toks = list(lexer.tokenize(raw))
    except Exception:  # noqa
        return False
    return any(tt is T.Keyword and v.upper() == 'CASE' and i > 0 and toks[i - 1][1] == '.' for i, (tt, v) in enumerate(toks))


# predicate(raw text, keyword skeleton)
CLASS_PRED = {
    'qualified-name-ending-in-case': lambda raw, s: _dot_case(raw),
    'for-while-loop-end-loop': lambda raw, s: bool(RX_FORLOOP.search(s)),
    'end-case-statement': lambda raw, s: bool(RX_ENDCASE.search(s)),
    'declare-before-begin': lambda raw, s: bool(RX_DECL_BEFORE_BEGIN.search(s)),
    'block-keyword-before-dot-or-paren': lambda raw, s: _block_kw_lexed_as_name(raw),
}


def _skeleton(s):
    """The significant tokens (no whitespace, no comments), upper-cased, joined by single blanks: the classes below are
    about the SEQUENCE of keywords, whatever layout/comments separate them."""
    try:
        return ' '.join(' '.join(v.upper().split()) for v in sc.sig_tokens(s))
    except Exception:  # noqa
        return s.upper()


def classify(f, known):
    raw = ''.join(map(chr, f.get('input', [])))
    s = _skeleton(raw)
    for k in known:
        p = CLASS_PRED.get(k.get('class'))
        if p and p(raw, s):
            return k['id']
    return None


def rederive_known(k):
    import sqlparse
    w = ''.join(map(chr, k['witness']['input']))
    n = len(sqlparse.split(w))
    if n != k['witness']['expected_statements']:
        return {'input': k['witness']['input'], 'observed': f'{n} statements instead of {k["witness"]["expected_statements"]}'}
    return None


class BodyGen(gens.ProcGen):
    """ProcGen plus body vocabulary that several seeded changes needed and no generator produced (all of it is split
    correctly by the unchanged library): GOTO, EXECUTE IMMEDIATE, COMMIT WORK / START TRANSACTION, DDL inside a body
    (TRUNCATE / DROP / ALTER) in front of a control construct, the IF() function, IF [NOT] EXISTS (subquery) THEN, MySQL
    condition handlers and nested CASE expressions."""

    def simple_stmt(self):
        from gens import kw, nm, WS0, WS1
        r = self.r.random()
        if r >= 0.2:
            return super().simple_stmt()
        k = int(r / 0.2 * 10)
        if k == 8:
            # MySQL condition handlers, with and without the action word
            act = self.r.choice([[kw('EXIT'), WS1], [kw('CONTINUE'), WS1], [kw('UNDO'), WS1], []])
            return [kw('DECLARE'), WS1] + act + [kw('HANDLER FOR'), WS1, nm('SQLEXCEPTION'), WS1, kw('SET'), WS1, nm('x'), WS1,
                                                 ('op', '='), WS1, ('lit', '1')]
        if k == 9:
            # a CASE expression nested in another one
            return [kw('SET'), WS1, nm('x'), WS1, ('op', '='), WS1, kw('CASE'), WS1, kw('WHEN'), WS1, nm('b'), WS1, kw('THEN'), WS1,
                    kw('CASE'), WS1, kw('WHEN'), WS1, nm('c'), WS1, kw('THEN'), WS1, ('lit', '1'), WS1, kw('ELSE'), WS1, ('lit', '2'),
                    WS1, kw('END'), WS1, kw('ELSE'), WS1, ('lit', '3'), WS1, kw('END')]
        if k == 0:
            return [kw('GOTO'), WS1, nm('lbl')]
        if k == 1:
            return [kw('EXECUTE'), WS1, kw('IMMEDIATE'), WS1] + self.string()
        if k == 2:
            return [kw('COMMIT'), WS1, kw('WORK')]
        if k == 3:
            return [kw('START'), WS1, kw('TRANSACTION')]
        if k == 4:
            return [kw('TRUNCATE'), WS1, kw('TABLE'), WS1, nm(self.ident_plain())]
        if k == 5:
            return [kw('DROP'), WS1, kw('TABLE'), WS1, nm(self.ident_plain())]
        if k == 6:
            return [kw('ALTER'), WS1, kw('TABLE'), WS1, nm(self.ident_plain()), WS1, kw('ADD'), WS1, nm('c9'), WS1, nm('int')]
        return [kw('SET'), WS1, nm('v'), WS1, ('op', '='), WS1, nm('IF'), ('punct', '('), nm('a'), WS1, ('op', '>'), WS1,
                ('lit', '0'), ('punct', ','), WS1, ('lit', '1'), ('punct', ','), WS1, ('lit', '2'), ('punct', ')')]

    def cond(self, d=0):
        from gens import kw, WS1
        if self.r.random() < 0.12:
            pre = [kw('NOT'), WS1] if self.r.random() < 0.4 else []
            return pre + [kw('EXISTS'), WS1, ('punct', '(')] + self.select(2) + [('punct', ')')]
        return super().cond(d)


def gen_case(rng, full):
    g = BodyGen(rng, full=full)
    npre = rng.choice([0, 1, 2])
    npost = rng.choice([0, 1, 2])
    pre = [g.statement() for _ in range(npre)]
    post = [g.statement() for _ in range(npost)]
    if rng.random() < 0.12:
        # transaction control in front of the routine: BEGIN opens nothing here
        from gens import kw, WS1
        pre = [[kw('BEGIN')] + ([WS1, kw('TRANSACTION')] if rng.random() < 0.5 else [])] + pre + [[kw('COMMIT')]]
        npre = len(pre)
    create = g.create()[:-2]            # drop the final WS0 ';' : separators are added below
    stmts = pre + [create] + post
    seps = [[gens.WS0, ('punct', ';'), gens.WS1] for _ in stmts]
    layout = rng.choice(['canon', 'random'])
    script, texts = sc.render_script(stmts, seps, rng, layout, rng.choice([0, 0, 0.1]), rng.choice([None, 'random', 'lower', 'upper']))
    return script, texts, npre


def oracle_script(script, texts):
    import sqlparse
    try:
        pieces = sqlparse.split(script)
    except Exception:  # noqa
        return None
    why = sc.check_pieces(script, texts, pieces)
    if why:
        return {'input': [ord(c) for c in script], 'observed': why, 'written': len(texts), 'returned': len(pieces)}
    return None


def run(ctx):
    res = {'disagreements': [], 'failures': []}
    n = ctx.n(1500, 25000)
    scripts = []
    dist = collections.Counter()
    depth_hist = collections.Counter()
    for i in range(n):
        full = (i % 4 == 0)          # a quarter of the cases use the full grammar (exercises the known findings)
        script, texts, npre = gen_case(ctx.rng, full)
        scripts.append(script)
        dist['full' if full else "G17'"] += 1
        depth_hist[min(len(re.findall(r'\bBEGIN\b', script, re.I)), 6)] += 1
        f = oracle_script(script, texts)
        if f:
            res['failures'].append(f)
    sample = common.corpus('split') + scripts[:ctx.n(1200, 15000)]
    dis, dumps = common.corr_stage('splitstream', sample, impl.splitstream_dump, 'splitstream')
    res['disagreements'] += dis
    shapes = set()
    for d in dumps:
        if d.startswith('OK '):
            kws = tuple(re.findall(r'Keyword(?:\.\w+)?:([0-9,]+)', d))[:40]
            shapes.add(hash(kws))
    res.update({
        'evaluations': n + len(sample),
        'distinct_nontrivial': len(shapes),
        'rule': 'scripts pre ; CREATE..BEGIN <block> END ; post from the procedural grammar (nested BEGIN/IF/WHILE-DO/LOOP/'
                'CASE expressions/inner DECLARE; every 4th case also FOR..LOOP, CASE statements, DECLARE before BEGIN) x '
                'layouts x casings: split() must return the written statements; splitstream correspondence of the model; '
                'distinct_nontrivial = distinct keyword sequences',
        'samples': scripts[:3],
        'traces_validated_against_impl': len(sample),
        'distribution': {'grammar': dict(dist), 'BEGIN_count_histogram': {str(k): v for k, v in sorted(depth_hist.items())},
                         'length_histogram': common.length_hist(scripts)},
    })
    return res


def run_oracle_only(ctx):
    fails = []
    n = ctx.n(1500, 25000)
    for i in range(n):
        script, texts, _ = gen_case(ctx.rng, i % 4 == 0)
        f = oracle_script(script, texts)
        if f:
            fails.append(f)
    return {'failures': fails, 'evaluations': n, 'distinct_nontrivial': 0, 'rule': 'oracle only', 'samples': []}


def search(ctx, hints):
    import time
    t0 = time.time()
    fails = []
    tried = 0
    known = _known()
    while time.time() - t0 < ctx.n(60, 600) and not fails:
        script, texts, _ = gen_case(ctx.rng, False)
        tried += 1
        f = oracle_script(script, texts)
        if f and classify(f, known) is None:
            fails.append(f)
    return {'failures': fails, 'tried': tried}


def replay(payload):
    f = payload.get('failure')
    if not f or 'input' not in f:
        return {'fails': False, 'note': 'no concrete input: ' + str(payload.get('no_longer_checks'))}
    import sqlparse
    n = len(sqlparse.split(''.join(map(chr, f['input']))))
    return {'fails': n != f.get('written'), 'observed': f'{n} statements, {f.get("written")} written'}
