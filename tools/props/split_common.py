"""Shared by C05 / C17: scripts with a known statement structure and direct oracles on split()."""
import re

import gens
from gens import WS0, WS1, kw, nm


def sig_tokens(text):
    """Values of the tokens that are neither whitespace nor comments (real lexer)."""
    from sqlparse import lexer, tokens as T
    return [v for tt, v in lexer.tokenize(text) if tt not in T.Whitespace and tt not in T.Comment]


def norm_sig(text):
    return [v.upper() if v.isascii() else v for v in sig_tokens(text)]


class PlainGen(gens.SqlGen):
    """Plain (non-procedural) statements; optionally a parenthesised `;` and opaque regions with `;`."""

    def __init__(self, rng, nested_semis=True):
        super().__init__(rng)
        self.nested_semis = nested_semis

    def string(self):
        if self.r.random() < 0.3:
            body = self.r.choice(["a;b", ";", "x''y;", "-- ;", "/* ; */", "(;", "end;", "a\n;b"])
            return [('lit', "'" + body + "'")]
        return super().string()

    def funcall(self, d):
        out = super().funcall(d)
        if self.nested_semis and self.r.random() < 0.08:
            out = out + [WS1, ('punct', '('), nm('a'), ('punct', ';'), nm('b'), ('punct', ')')]
        return out

    TEMPLATES = ['CREATE TABLE IF NOT EXISTS t (a int)', 'CREATE INDEX IF NOT EXISTS i ON t (a)', 'DROP TABLE IF EXISTS t',
                 'SELECT a FROM t FOR UPDATE', 'CREATE VIEW v AS SELECT a FROM t FOR UPDATE', 'CREATE TABLE w (a int) WITH (x = 1)',
                 'CREATE TRIGGER tr AFTER INSERT ON t FOR EACH ROW EXECUTE PROCEDURE f()', 'CREATE TABLE c AS SELECT CASE WHEN a THEN 1 END FROM t',
                 'ALTER TABLE t ADD COLUMN IF NOT EXISTS b int', 'CREATE OR REPLACE VIEW v AS SELECT 1 WHILE_', 'GRANT SELECT ON t TO u']

    def statement(self, d=0):
        if d == 0 and self.r.random() < 0.12:
            words = self.r.choice(self.TEMPLATES).split(' ')
            out = []
            for i, w in enumerate(words):
                if i:
                    out.append(WS1)
                out.append(('kw', w) if w.isalpha() and w.isupper() else ('name', w))
            return out
        return super().statement(d)

    def plain_script(self, k=None):
        k = k if k is not None else self.r.choice([1, 2, 2, 3, 4, 6])
        stmts = [self.statement() for _ in range(k)]
        seps = [self.separator(last=False) for _ in range(k)]
        return stmts, seps


def render_script(stmts, seps, rng, layout, comments, recase):
    texts = [gens.render(s, rng, layout=layout, comments=comments, recase=recase) for s in stmts]
    septexts = [gens.render(s, rng, layout=layout, comments=0, recase=None) for s in seps]
    # a whitespace slot after `;` may hold a newline: it then opens the next statement (by design)
    script = ''.join(t + s for t, s in zip(texts, septexts))
    return script, texts


def check_pieces(script, texts, pieces):
    """None, or a description of how split()'s pieces deviate from the k written statements."""
    if len(pieces) != len(texts):
        return f'{len(texts)} statements written, split() returned {len(pieces)}'
    for i, (t, p) in enumerate(zip(texts, pieces)):
        want = norm_sig(t) + [';']
        got = norm_sig(p)
        if got != want:
            return f'statement {i}: significant tokens {got[:12]} != written {want[:12]}'
    return None


END_RE = re.compile(r'\bEND\b', re.I)


def paren_semicolon_after_end(script):
    """F1 class: a statement boundary produced at a `;` nested in parentheses where an END keyword
    occurred earlier in the same statement (the level is already negative when `(` opens)."""
    from sqlparse import lexer, tokens as T
    depth = 0
    seen_end = False
    in_create_begin = False
    for tt, v in lexer.tokenize(script):
        if tt is T.Punctuation and v == '(':
            depth += 1
        elif tt is T.Punctuation and v == ')':
            depth -= 1
        elif tt in T.Keyword and v.upper() == 'END':
            seen_end = True
        elif tt in T.Keyword and v.upper() == 'BEGIN':
            in_create_begin = True
        elif tt is T.Punctuation and v == ';':
            if depth > 0 and seen_end and not in_create_begin:
                return True
            if depth <= 0:
                seen_end = False
                depth = 0
    return False
