"""C19 - all input forms and front ends give the same result.

Two parts: `api` (decode ladder, codecs, parse/parsestream/split/format on str / stream / bytes; oracle over every front end,
CLI included as a black box) and `cli` (the command line inside the model: argparse table and main() regenerated from the
source, executable model of argument parsing and of main's input/output handling, theorems, correspondence with the real
sqlparse.cli)."""
from props import composite, C19_api, C19_cli

composite.make(globals(), [('api', C19_api), ('cli', C19_cli)])
