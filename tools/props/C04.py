"""C04 - split() returns, in order, the stripped text of exactly the statements parse() returns; the pieces are
non-empty, occur at increasing non-overlapping positions with whitespace-only gaps; re-splitting a piece returns
that piece (token level: proved; text level: refuted -- the violations on the unchanged library are known findings)."""
import collections
import re

import vlib
import impl_splitapi
import gens_splitapi
from props import common

THEOREMS = [
    'Props/C04.v: C04_agree (parse t = Ok stmts -> split t = Ok (map (strip . text_of) stmts))',
    'C04_partition (split t = Ok ps -> every piece non-empty /\\ exists gaps, |gaps| = |ps|+1, every gap all-isspace, '
    't = g0 ++ p1 ++ g1 ++ ... ++ pn ++ gn)',
    'C04_resplit_tokens (a statement the splitter yields, fed to the splitter again, is exactly that one statement)',
    'C04_resplit_shape (unconditional: re-splitting a piece yields a non-empty list of pieces partitioning the piece, '
    'outer gaps empty, inner gaps whitespace; of length one only as [piece])',
    'C04_idem_refuted (";# " -> piece ";#" -> re-split ";", "#")  C04_idem_refuted_leftctx ("GO[(];x")',
    'C04_idem_partial (if the piece lexes to the statement\'s own tokens minus whitespace-typed tokens at both ends -- '
    'same types, same values on keyword/punctuation tokens -- then split(piece) = [piece])',
    'Split/SplitApiFacts.v: cforall2_sound (pivot test decides universally quantified statements about two csets), '
    'mhn_sound / only_in_sound (regex analyses sound w.r.t. ends), LexSpec_tok_good (whitespace-typed tokens are '
    'all-isspace, every other token has a non-isspace character), cur_failing_rules (only rules 4, 5 may match '
    'without a non-space character), process_resplit, process_trimmed_sim, strip_idem',
]
TRUSTED = ['the model cur_split (Split/SplitApi.v: lexer, splitter, StripTrailingSemicolonFilter, str().strip()) is tied '
           'to sqlparse.split by the differential runs below (both values of strip_semicolon)']
ASSUMPTIONS = ['text-level idempotence is false of the unchanged library (F11, F12); proved only under the lexing-'
               'stability hypothesis of C04_idem_partial, which the harness evaluates on the implementation for every piece']

WORD = re.compile(r'\w')


# ---------------------------------------------------------------------------------------------------------------
# analysis of one input on the real library
def _tokens(text):
    from sqlparse import lexer
    return list(lexer.tokenize(text))


def _statements(text):
    from sqlparse import lexer
    from sqlparse.engine.statement_splitter import StatementSplitter
    return [[(t.ttype, t.value) for t in st.tokens] for st in StatementSplitter().process(lexer.tokenize(text))]


def _is_ws(tt):
    from sqlparse import tokens as T
    return tt in T.Whitespace


def _trim(toks):
    a, b = 0, len(toks)
    while a < b and _is_ws(toks[a][0]):
        a += 1
    while b > a and _is_ws(toks[b - 1][0]):
        b -= 1
    return toks[a:b]


def _neutral(tt):
    from sqlparse import tokens as T
    return (tt not in T.Keyword) and (tt is not T.Punctuation)


def lex_stable(stmt_toks, piece):
    """Hypothesis of C04_idem_partial evaluated on the implementation: the piece lexes to the statement's tokens
    minus whitespace-typed tokens at both ends; values may differ on tokens that are neither keyword nor punctuation."""
    m = _trim(stmt_toks)
    m2 = _tokens(piece)
    if len(m) != len(m2):
        return False
    for (ta, va), (tb, vb) in zip(m, m2):
        if ta is not tb:
            return False
        if va != vb and not _neutral(ta):
            return False
    return True


def failures_of(text):
    """All violations of the property text on one input (implementation only)."""
    import sqlparse
    inp = [ord(c) for c in text]
    try:
        ps = sqlparse.split(text)
        stmts = sqlparse.parse(text)
    except Exception:  # noqa   (totality is C07)
        return []
    out = []
    want = [str(s).strip() for s in stmts]
    if ps != want:
        out.append({'input': inp, 'kind': 'agree', 'observed': 'split() differs from the stripped str() of parse(): %r vs %r'
                    % (ps[:3], want[:3])})
    pos = 0
    spans = []
    for i, p in enumerate(ps):
        if p == '':
            out.append({'input': inp, 'kind': 'empty', 'observed': 'piece %d is empty' % i})
            spans.append(None)
            continue
        j = pos
        while j < len(text) and text[j].isspace():
            j += 1
        if not text.startswith(p, j):
            out.append({'input': inp, 'kind': 'position', 'observed': 'piece %d %r is not at the next non-whitespace '
                        'position %d' % (i, p[:40], j)})
            return out
        spans.append(j)
        pos = j + len(p)
    if text[pos:].strip() != '':
        out.append({'input': inp, 'kind': 'tail', 'observed': 'text after the last piece is not whitespace: %r' % text[pos:pos + 40]})
    for i, p in enumerate(ps):
        if not p:
            continue
        try:
            q = sqlparse.split(p)
        except Exception as e:  # noqa
            q = ['<%s>' % type(e).__name__]
        if q != [p]:
            out.append({'input': inp, 'kind': 'resplit', 'piece_index': i, 'piece_pos': spans[i],
                        'piece': [ord(c) for c in p], 'resplit': [[ord(c) for c in x] for x in q],
                        'observed': 'split(%r) = %r, not the piece itself' % (p[:60], [x[:30] for x in q[:4]])})
    return out


# ---------------------------------------------------------------------------------------------------------------
# known classes of re-split failures: decidable predicates on a failure record
def _first_token_at(text, pos):
    off = 0
    for tt, v in _tokens(text):
        if off == pos:
            return (tt, v)
        if off > pos:
            return None
        off += len(v)
    return None


def in_class_hash_comment(f):
    """F11: after the statement terminator the text ends with a `# ` comment whose body is all whitespace; strip()
    cuts the blank that made `#` a comment opener, `#` re-lexes as an Operator, which is not an end-of-statement
    token type, so the re-split has one extra final statement `#`."""
    from sqlparse import tokens as T
    if f.get('kind') != 'resplit' or f.get('piece_pos') is None:
        return False
    text = ''.join(map(chr, f['input']))
    p = ''.join(map(chr, f['piece']))
    q = [''.join(map(chr, x)) for x in f['resplit']]
    end = f['piece_pos'] + len(p)
    if not p.endswith('#') or text[end:end + 1] != ' ':
        return False
    tk = _first_token_at(text, end - 1)
    if tk is None or tk[0] not in T.Comment.Single or tk[1].strip() != '#':
        return False
    return len(q) == 2 and q[1] == '#' and q[0] == p[:-1].rstrip()


def in_class_left_context(f):
    """F12: the piece starts directly after a word character (a `GO` / `GO n` terminator without whitespace) and its
    first token lexes differently on its own, because a look-behind of rule 11, 14 or 28 ($tag$, :name/$name, [name])
    no longer sees a word character."""
    if f.get('kind') != 'resplit' or not f.get('piece_pos'):
        return False
    text = ''.join(map(chr, f['input']))
    p = ''.join(map(chr, f['piece']))
    pos = f['piece_pos']
    if not WORD.match(text[pos - 1]) or p[0] not in '[$:':
        return False
    orig = _first_token_at(text, pos)
    new = _tokens(p)[0]
    return orig is not None and (orig[0] is not new[0] or orig[1] != new[1])


CLASS_PREDICATES = {
    'hash-comment-truncated-by-strip': in_class_hash_comment,
    'piece-directly-after-GO-relexes-without-left-context': in_class_left_context,
}


def classify(failure, known):
    """Id of the known finding whose class contains this failure, else None (a different violation is reported)."""
    for k in known:
        pred = CLASS_PREDICATES.get(k.get('class'))
        if pred is None:
            continue
        try:
            if pred(failure):
                return k['id']
        except Exception:  # noqa
            continue
    return None


def rederive_known(k):
    """The listed witness still fails and still falls into its class."""
    w = k.get('witness', {}).get('input')
    if w is None:
        return None
    for f in failures_of(''.join(map(chr, w))):
        if classify(f, [k]) == k['id']:
            return f
    return None


def _known():
    return [k for k in vlib.load_known_findings() if k.get('property') == 'C04' and k.get('status') == 'open']


def oracle(text, known=None):
    """One failure of the property on this input: an unclassified one if there is any, else a known one."""
    fs = failures_of(text)
    if not fs:
        return None
    known = _known() if known is None else known
    for f in fs:
        if classify(f, known) is None:
            return f
    return fs[0]


def oracle_new(text):
    """Only failures outside the known classes (used for shrinking a new violation)."""
    known = _known()
    for f in failures_of(text):
        if classify(f, known) is None:
            return f
    return None


# ---------------------------------------------------------------------------------------------------------------
def gen_texts(ctx, n):
    texts, dist = [], collections.Counter()
    maxlen = ctx.n(500, 2500)
    for _ in range(n):
        s, kind = gens_splitapi.split_text(ctx.rng)
        texts.append(s[:maxlen])
        dist[kind] += 1
    return texts, dist


FIXED = ['', ' ', '\n', '\x85', ' ', '\x1c\x1d\x1e\x1f', '\xa0', '　', ';', ';;;', ' ; ', ';\n;', '; ; ;',
         'a', 'a;', 'a;b', 'a; b ;', ';# ', 'GO[(];x', 'GO 2$a$($a$;x', 'GO:create x begin ;y', 'select 1; -- c\nselect 2',
         'select 1;\r\nselect 2;\r\n', "select 'a ' ; x", 'x;--', 'x;/*', 'GO 2', 'a GO 2 b', 'go\n', 'select $$;$$;x']


def stability_stats(texts):
    """Evaluate the hypothesis of C04_idem_partial on the implementation: stable => re-split must be the piece."""
    import sqlparse
    st = collections.Counter()
    contradictions = []
    for s in texts:
        try:
            stmts = _statements(s)
            ps = sqlparse.split(s)
        except Exception:  # noqa
            continue
        for toks, p in zip(stmts, ps):
            if not p:
                continue
            try:
                stable = lex_stable(toks, p)
                idem = sqlparse.split(p) == [p]
            except Exception:  # noqa
                continue
            st[('stable' if stable else 'unstable') + ('/idempotent' if idem else '/NOT-idempotent')] += 1
            if stable and not idem:
                contradictions.append({'stage': 'C04_idem_partial vs implementation', 'input': [ord(c) for c in s],
                                       'impl': 'piece %r re-splits although it lexes stably' % p[:80], 'model': 'theorem'})
    return st, contradictions


def run(ctx):
    texts, dist = gen_texts(ctx, ctx.n(5000, 40000))
    texts = FIXED + common.corpus('parse')[:ctx.n(200, 2000)] + texts
    res = {'disagreements': [], 'failures': []}
    # parse() is tuple(parsestream()): two lazily consumed streams advanced alternately must each give the statements of
    # their own text (the oracle lives in props/C20.py)
    from props import C20 as _c20
    res['failures'] += _c20.interleave_failures()[:1]
    hist = collections.Counter()
    for flag in (0, 1):
        dis, dumps = common.corr_stage('split', texts, lambda s, flag=flag: impl_splitapi.split_dump(s, bool(flag)),
                                       f'split(strip_semicolon={flag})', extra=f'{flag} ')
        res['disagreements'] += dis
        if flag == 0:
            for d in dumps:
                hist[min(9, 0 if d == 'OK ' else d.count('|') + 1) if d.startswith('OK') else 'ERR'] += 1
    known = _known()
    classes = collections.Counter()
    npieces = set()
    for s in texts:
        for f in failures_of(s):
            res['failures'].append(f)
            classes[classify(f, known) or ('NEW:' + f.get('kind', '?'))] += 1
    st, contra = stability_stats(texts[:ctx.n(3000, 20000)])
    res['disagreements'] += contra
    distinct = len({d for d in dumps})
    res.update({
        'evaluations': 2 * len(texts),
        'distinct_nontrivial': distinct,
        'rule': 'scripts under every separator layout (; GO "GO n" comments after the terminator, CRLF, unicode '
                'whitespace), separator soup, junk, unicode, whitespace-only, semicolon-only inputs and planted instances '
                'of the two known re-split mechanisms; the model\'s split(strip_semicolon=0/1) is compared with '
                'sqlparse.split on each; the direct oracle checks the whole property text on the implementation '
                '(agreement with parse, non-empty pieces, positions and whitespace gaps, re-split of every piece); '
                'distinct_nontrivial = distinct piece lists',
        'samples': [t[:120] for t in texts[len(FIXED):len(FIXED) + 5]],
        'traces_validated_against_impl': 2 * len(texts),
        'distribution': {'generator': dict(dist), 'length_histogram': common.length_hist(texts),
                         'pieces_per_input': {str(k): v for k, v in sorted(hist.items(), key=lambda kv: str(kv[0]))},
                         'failure_classes': dict(classes),
                         'idem_partial_hypothesis_on_impl': dict(st)},
    })
    return res


def run_oracle_only(ctx):
    texts, dist = gen_texts(ctx, ctx.n(5000, 40000))
    fails = [f for s in FIXED + texts for f in failures_of(s)]
    return {'failures': fails, 'evaluations': len(texts), 'distinct_nontrivial': 0,
            'rule': 'oracle only (model unavailable)', 'samples': texts[:3]}


def search(ctx, hints):
    return common.generic_search(ctx, hints, oracle_new, gen=lambda r: gens_splitapi.split_text(r)[0])


def shrink(f):
    if f and f.get('kind') == 'interleaved_streams':
        return f
    return common.shrink_failure(f, oracle_new)


def replay(payload):
    f = payload.get('failure') or {}
    if f.get('kind') == 'interleaved_streams':
        from props import C20 as _c20
        g = _c20.oracle(f)
        return {'fails': bool(g), 'observed': g}
    return common.replay_with(oracle, payload)
