"""C07 - totality: any text and any valid option set gives a result or SQLParseError."""
from props import composite, C07_total, C07_opt

PARTS = [('total', C07_total), ('opt', C07_opt)]
try:
    from props import acc_common as _acc          # accessor correspondence (joins when the accessor slice is present)
    if hasattr(_acc, 'run'):
        PARTS.append(('acc', _acc))
except Exception:  # noqa
    pass
composite.make(globals(), PARTS)
