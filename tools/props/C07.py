"""C07 - totality: any text and any valid option set gives a result or SQLParseError."""
from props import composite, C07_total, C07_opt, C07_out

PARTS = [('total', C07_total), ('opt', C07_opt), ('out', C07_out)]
from props import C07_acc
PARTS.append(('acc', C07_acc))
composite.make(globals(), PARTS)
