"""C03 (object-heap part): parent references, object identity and the navigation helpers.

Model: coq/theories/Tree/HeapDefs.v (objects with identity, a mutable `parent` field and mutable child lists; the
statements of TokenList.group_tokens / insert_before / insert_after / token_index / _token_matching / token_next /
token_prev / token_first / is_child_of / has_ancestor / within / get_token_at_offset / flatten one by one, Python
index and slice semantics).  Theorems: Tree/HeapFacts.v, restated in Props/C03h.v.

Correspondence (driver command `heapops`, implementation side tools/impl_heap.py):
  ops       random operation sequences run on the real objects of parse(text)[si] (after the first k passes) and on the
            model heap allocated from the model's tree; compared: every operation's answer and the final dump of every
            object with the path of the object its parent field names
  pipeline  the real grouping pipeline with group_tokens wrapped: the recorded call sequence (+ ttype re-assignments)
            replayed in the model from the ungrouped statement must give the real final tree, parent fields included
Direct oracle on the implementation: after EVERY grouping pass every parent reference names the containing group, no
object occurs twice, cached values equal the text, no group is empty; on random valid group_tokens calls the same holds
and the leaf sequence is unchanged."""
import collections
import random
import time

import vlib
import impl
import impl_heap
import gens
import gens_heap
from props import common

THEOREMS = [
    'Props/C03h.v: C03_parent_of_node_wf (a freshly allocated tree is well-formed and abstracts to the pure tree)',
    'C03_parent_group_tokens_wf (group_tokens, both branches: wf_heap + cached values preserved, leaf identities and '
    'order unchanged, the returned object is a child of self whose children are the moved ones, each with parent = it)',
    'C03_parent_group_tokens_refines (abs of the new heap = Node.group_tokens applied at the path of self in abs of the old)',
    'C03_parent_insert_before_wf / C03_parent_insert_after_wf (a fresh leaf inserted: wf_heap preserved)',
    'C03_nav_token_index / token_next / token_prev / token_first / is_child_of / has_ancestor / within / '
    'get_token_at_offset (specifications on well-formed heaps)',
    'C03_parent_noreparent_refuted / C03_parent_nogrpparent_refuted (without the final loop / without grp.parent = self '
    'a well-formed heap becomes ill-formed)',
]
TRUSTED = ['the hand-written heap model (Tree/HeapDefs.v) is tied to sql.py by the ops and pipeline correspondences, '
           'not by translation']
ASSUMPTIONS = ['group_tokens theorems: start_idx <> -1 or the extend branch not taken (with start_idx = -1 the slice '
               'self.tokens[start_idx+1:end_idx] starts at 0: see C03_parent_extend_minus1_refuted); no grouping pass '
               'calls group_tokens with a negative index']


def _op_kind(op):
    return op.split(':', 1)[0]


def _diff(a, b):
    """first differing answer / dump entry of two reply lines"""
    xa, xb = a.replace(' # ', ';').replace('|', ';').split(';'), b.replace(' # ', ';').replace('|', ';').split(';')
    for i, (u, v) in enumerate(zip(xa, xb)):
        if u != v:
            return 'field %d: impl %s / model %s' % (i, u[:160], v[:160])
    return 'lengths differ: impl %d fields, model %d fields' % (len(xa), len(xb))


def corr(rng, n, n_pipeline):
    """ops + pipeline correspondence; returns counts, distribution, disagreements."""
    dist = collections.Counter()
    kinds = collections.Counter()
    res_kinds = collections.Counter()
    dis = []
    cases = []
    texts = []
    for _ in range(n):
        k, si, text, ops, kind = gens_heap.heap_case(rng, allow_minus1_extend=(rng.random() < 0.05))
        cases.append((k, si, text, ops))
        dist[kind] += 1
        texts.append(text)
    replies = vlib.run_model([f'heapops {k} {si} {vlib.cps(t)} {ops}' for k, si, t, ops in cases])
    shapes = set()
    nops = 0
    for (k, si, t, ops), r in zip(cases, replies):
        mine = impl_heap.heapops_dump(k, si, t, ops)
        if mine != r:
            dis.append({'stage': 'heapops', 'input': [ord(c) for c in t], 'k': k, 'si': si, 'ops': ops,
                        'detail': _diff(mine, r), 'impl': mine[:600], 'model': r[:600]})
        if mine.startswith('OK '):
            head = mine[3:].split(' # ')[0]
            for op, ans in zip(ops.split('/'), head.split('|')):
                nops += 1
                kd = _op_kind(op)
                kinds[kd] += 1
                if ans.startswith('!'):
                    res_kinds[kd + ' ' + ans] += 1
                elif ans == 'BADPATH':
                    res_kinds[kd + ' BADPATH'] += 1
                elif kd == 'G':
                    res_kinds['G extend-branch' if ans.endswith('x=1') else 'G new-group-branch'] += 1
                    if op.split(':')[6] == '1' and ans.endswith('x=0'):
                        res_kinds['G extend=True on a non-instance'] += 1
                elif kd in ('N', 'P', 'M', 'F', 'O'):
                    res_kinds[kd + (' None' if ans == 'None' else ' found')] += 1
                elif kd in ('A', 'C', 'W'):
                    res_kinds[kd + ' ' + ans] += 1
            shapes.add(common.tree_shape(mine.split(' # ')[-1]))
    # pipeline replay
    ptexts = []
    for _ in range(n_pipeline):
        s, kind = gens_heap.heap_text(rng) if rng.random() < 0.5 else gens.mixed_text(rng)
        ptexts.append(s[:400])
    ptexts += common.corpus('parse')[:200]
    reqs, expect, meta = [], [], []
    pcalls = collections.Counter()
    violations = []
    for t in ptexts:
        rec = impl_heap.record_pipeline(t)
        if rec is None:
            continue
        for si, st in enumerate(rec):
            reqs.append(f'heapops 0 {si} {vlib.cps(t)} {st["ops"]}')
            expect.append(st['line'])
            meta.append((t, si, st['ops']))
            for v in st['violations']:
                violations.append({'input': [ord(c) for c in t], 'observed': 'statement %d %s' % (si, v)})
            head = st['line'][3:].split(' # ')[0]
            for op, ans in zip(st['ops'].split('/'), head.split('|')):
                if op.startswith('G:'):
                    pcalls['G ' + op.split(':')[2] + (' extend-branch' if ans.endswith('x=1') else
                                                    ' extend=True,new-group' if op.endswith(':1') else '')] += 1
                elif op.startswith('RT'):
                    pcalls['RT'] += 1
    preplies = vlib.run_model(reqs)
    for (t, si, ops), e, r in zip(meta, expect, preplies):
        if e != r:
            dis.append({'stage': 'heap-pipeline', 'input': [ord(c) for c in t], 'k': '0', 'si': si, 'ops': ops,
                        'detail': _diff(e, r), 'impl': e[:600], 'model': r[:600]})
    return {'disagreements': dis, 'cases': len(cases), 'ops': nops, 'pipeline_statements': len(reqs),
            'pipeline_calls': dict(pcalls), 'op_kinds': dict(kinds), 'results': dict(res_kinds),
            'generator': dict(dist), 'distinct_nontrivial': len(shapes), 'texts': texts, 'violations': violations}


# ---- direct oracle on the implementation ---------------------------------------------------------------------
def oracle(text):
    """Parent references / uniqueness / cached values / non-emptiness after every grouping pass."""
    return impl_heap.pipeline_check(text)


def ops_oracle(text, k, si, ops):
    """On the real objects: a sequence of group_tokens calls with start >= 0 keeps the tree well-formed, keeps every
    cached value equal to the text and does not change the leaf sequence (identities and order)."""
    try:
        stmts = impl_heap.parse_upto(text, None if k == 'all' else int(k))
    except Exception:  # noqa
        return None
    if not (0 <= si < len(stmts)):
        return None
    root = stmts[si]
    for op in ops.split('/'):
        if not op.startswith('G:'):
            continue
        f = op.split(':')
        if int(f[3]) < 0:
            continue
        before = [id(t) for t in root.flatten()]
        r, stop = impl_heap.run_op(root, op)
        if stop:
            return {'input': [ord(c) for c in text], 'k': k, 'si': si, 'ops': ops, 'observed': 'RecursionError in ' + op}
        if r.startswith('!') or r == 'BADPATH':
            continue
        bad = impl_heap.check_tree(root, nonempty=False)
        if bad is None and [id(t) for t in root.flatten()] != before:
            bad = 'leaf sequence changed'
        if bad is None:
            g = impl_heap.resolve(root, r[2:].split(';')[0])
            if g is None or not g.is_group or any(c.parent is not g for c in g.tokens):
                bad = 'returned group does not own its children'
        if bad:
            return {'input': [ord(c) for c in text], 'k': k, 'si': si, 'ops': ops, 'observed': 'after %s: %s' % (op, bad)}
    return None


def _fail_of(f):
    if 'ops' in f:
        return ops_oracle(''.join(map(chr, f['input'])), f.get('k', 'all'), f.get('si', 0), f['ops'])
    return oracle(''.join(map(chr, f['input'])))


def static_scan():
    """The heap theorems cover group_tokens / insert_*: the grouping passes must mutate the tree ONLY through
    TokenList.group_tokens (plus the one ttype re-typing the property allows).  AST scan of engine/grouping.py: any store to
    .tokens/.parent/.value, any del/slice-store on a .tokens list, any mutating list method on .tokens, any insert_* call is
    reported.  -> list of (line, text)."""
    import ast
    import os
    path = os.path.join(vlib.REPO, 'sqlparse', 'engine', 'grouping.py')
    src = open(path, encoding='utf-8').read()
    tree = ast.parse(src)
    bad = []

    def is_tokens(n):
        return isinstance(n, ast.Attribute) and n.attr == 'tokens'

    for n in ast.walk(tree):
        targets = []
        if isinstance(n, ast.Assign):
            targets = n.targets
        elif isinstance(n, (ast.AugAssign, ast.AnnAssign)):
            targets = [n.target]
        elif isinstance(n, ast.Delete):
            targets = n.targets
        for t in targets:
            for u in ast.walk(t):
                if isinstance(u, ast.Attribute) and u.attr in ('tokens', 'parent', 'value', 'normalized') and isinstance(u.ctx, (ast.Store, ast.Del)):
                    bad.append((n.lineno, ast.unparse(n)))
                if isinstance(u, ast.Subscript) and is_tokens(u.value):
                    bad.append((n.lineno, ast.unparse(n)))
        if isinstance(n, ast.Call) and isinstance(n.func, ast.Attribute):
            if n.func.attr in ('append', 'extend', 'insert', 'pop', 'remove', 'clear', 'reverse', 'sort') and is_tokens(n.func.value):
                bad.append((n.lineno, ast.unparse(n)))
            if n.func.attr in ('insert_before', 'insert_after'):
                bad.append((n.lineno, ast.unparse(n)))
    # ttype stores: exactly the re-typing to Operator
    for n in ast.walk(tree):
        if isinstance(n, ast.Assign):
            for t in n.targets:
                if isinstance(t, ast.Attribute) and t.attr == 'ttype' and ast.unparse(n.value) != 'T.Operator':
                    bad.append((n.lineno, ast.unparse(n)))
    return bad


def run(ctx):
    c = corr(ctx.rng, ctx.n(5000, 40000), ctx.n(1200, 10000))
    fails = list(c['violations'])
    texts, dist = common.gen_texts(ctx, ctx.n(1500, 20000))
    for s in texts + common.corpus('parse'):
        f = oracle(s)
        if f:
            fails.append(f)
    nops_checked = 0
    for _ in range(ctx.n(1500, 15000)):
        k, si, t, ops, _kind = gens_heap.heap_case(ctx.rng)
        nops_checked += 1
        f = ops_oracle(t, k, si, ops)
        if f:
            fails.append(f)
    dis = list(c['disagreements'][:20])
    for line, text in static_scan():
        dis.append({'stage': 'static: engine/grouping.py mutates the tree outside TokenList.group_tokens', 'line': line, 'detail': text[:200]})
    return {'failures': fails[:20], 'disagreements': dis,
            'evaluations': c['cases'] + c['pipeline_statements'] + len(texts) + nops_checked,
            'distinct_nontrivial': c['distinct_nontrivial'],
            'rule': 'heapops stage: answers of every operation and the final object dump (kind, class/ttype, value, path of '
                    'the object named by the parent field) of random operation sequences, extracted heap model vs the real '
                    'objects; heap-pipeline stage: the group_tokens calls of the real grouping passes replayed in the model '
                    'give the real final tree incl. parent fields; oracle: structural invariants after every pass and after '
                    'random valid group_tokens calls; distinct_nontrivial = distinct final dump shapes',
            'samples': c['texts'][:3], 'traces_validated_against_impl': c['ops'] + c['pipeline_statements'],
            'distribution': {'generator': c['generator'], 'op_kinds': c['op_kinds'], 'results': c['results'],
                             'pipeline_calls': c['pipeline_calls'], 'oracle_texts': dict(dist),
                             'ops_cases': c['cases'], 'ops': c['ops'], 'pipeline_statements': c['pipeline_statements']}}


def run_oracle_only(ctx):
    texts, dist = common.gen_texts(ctx, ctx.n(1500, 20000))
    fails = [f for f in (oracle(s) for s in texts) if f]
    for _ in range(ctx.n(1000, 10000)):
        k, si, t, ops, _kind = gens_heap.heap_case(ctx.rng)
        f = ops_oracle(t, k, si, ops)
        if f:
            fails.append(f)
    return {'failures': fails[:20], 'evaluations': len(texts), 'distinct_nontrivial': 0,
            'rule': 'oracle only (model unavailable)', 'samples': texts[:3]}


def search(ctx, hints):
    fails = []
    tried = 0
    for d in hints.get('disagreements', []):
        if 'input' not in d:
            continue
        t = ''.join(map(chr, d['input']))
        tried += 1
        f = oracle(t)
        if not f and 'ops' in d:
            f = ops_oracle(t, d.get('k', 'all'), d.get('si', 0), d['ops'])
        if f:
            return {'failures': [f], 'tried': tried}
    t0 = time.time()
    budget = ctx.n(60, 600)
    while time.time() - t0 < budget and not fails:
        tried += 1
        if tried % 2:
            s = gens.mixed_text(ctx.rng)[0]
            f = oracle(s)
        else:
            k, si, t, ops, _kind = gens_heap.heap_case(ctx.rng)
            f = ops_oracle(t, k, si, ops)
        if f:
            fails.append(f)
    return {'failures': fails[:1], 'tried': tried}


def shrink(f):
    if not f or 'input' not in f:
        return f
    if 'ops' not in f:
        return common.shrink_failure(f, oracle)
    # drop operations, then shrink nothing else (paths depend on the text)
    best = f
    ops = f['ops'].split('/')
    changed = True
    while changed and len(ops) > 1:
        changed = False
        for i in range(len(ops)):
            cand = ops[:i] + ops[i + 1:]
            g = ops_oracle(''.join(map(chr, f['input'])), f.get('k', 'all'), f.get('si', 0), '/'.join(cand))
            if g:
                ops, best, changed = cand, g, True
                break
    return best


def replay(payload):
    f = payload.get('failure')
    if not f or 'input' not in f:
        return {'fails': False, 'note': 'no concrete input in replay file: ' + str(payload.get('no_longer_checks'))}
    g = _fail_of(f)
    return {'fails': bool(g), 'observed': g}
