"""C10 - requested layout normal forms are actually achieved (strip_whitespace, use_space_around_operators, reindent)."""
from props import composite, C10_ws, C10_reindent, C10_aligned

composite.make(globals(), [('ws', C10_ws), ('reindent', C10_reindent), ('aligned', C10_aligned)])
