"""C06, layer 1 - the layout filters only edit whitespace (mutation-site inventory).

Three reusable stages plus a direct oracle on the unchanged library:

  instrumented(...)      run-time instrumentation self-test of the inventory Gen/gen_sites.side.json:
                         sql.Token.__setattr__/__delattr__ and a tracking list class are installed
                         IN THIS PROCESS (nothing under /repo is edited); during format() every
                         observed mutation of a statement tree must happen at an inventoried source
                         line, be of the inventoried kind and concretely be an allowed edit (insert a
                         fresh whitespace-typed leaf with a whitespace-only value / delete a
                         whitespace-typed leaf / set the value of a whitespace-typed leaf to a
                         whitespace string / re-parent).  Also: the non-whitespace leaves of the tree
                         (object identity, type, value) are the same before and after every filter;
                         only inventoried filter classes run; the instrumented output equals the
                         output of the plain sqlparse.format.
  traced(...)            an independent cross-check that does not rely on the patched mutators:
                         sys.settrace line tracing of the filter files; the tree fingerprint is
                         compared at every line/call/return event and every change is blamed on the
                         source line that was executing - which must be an inventoried site.
  translator_selftest()  seeded mutations of a COPY of the library: the translator (plus the Coq
                         obligations of Inst/C06.v evaluated on the regenerated inventory) must
                         reject every one of them.
  oracle(text, opts)     sig(format(s, **opts)) == sig(s) on the real library, sig = values of the
                         non-whitespace tokens of lexer.tokenize; statement counts equal.
"""
import collections
import json
import os
import re
import shutil
import subprocess
import sys
import tempfile
import time

import vlib
import gens_sites
from props import common

THEOREMS = [
    'Filters/SitesFacts.v: C06_leaves_preserved (forall t t\', any_run t t\' -> sigleaves t\' = sigleaves t), '
    'C06_leaves_preserved_list, C06_sigtext_preserved, C06_leaves_filter',
    'Inst/C06.v: C06_sites_ws_only (forallb ws_only_site layout_sites = true), C06_no_unknown, C06_fields_ws, '
    'C06_stack_covered, C06_layer1',
]
TRUSTED = [
    'META-ARGUMENT (not proved in Coq): every execution of the four layout filter classes is a run of the abstract '
    'whitespace-only steps of Filters/Sites.v; rests on tools/regen/gen_sites.py (completeness of the inventory of '
    'mutation sites, classification of constructor expressions / guards / pairings, hand-audited helpers of sql.py '
    'pinned by hash) and on the run-time instrumentation self-test of this module',
]
ASSUMPTIONS = ['layer 1 is about the token TREE (non-whitespace leaves preserved); fusion of adjacent leaves in the '
               'TEXT, the serializer and the statement count are checked by the oracle only']

COVERED_FILES = ['sqlparse/filters/reindent.py', 'sqlparse/filters/aligned_indent.py', 'sqlparse/filters/others.py']
REPO = os.environ.get('VERIF_REPO', '/repo')


def load_inventory():
    with open(os.path.join(vlib.COQ, 'theories', 'Gen', 'gen_sites.side.json')) as f:
        return json.load(f)


# ==================================================================================================
# run-time instrumentation
# ==================================================================================================
class TrackedList(list):
    """list whose mutators report to the active instrumentation before acting"""
    __slots__ = ()

    def _idx(self, i):
        n = len(self)
        if i < 0:
            i += n
        return i

    def append(self, x):
        INSTR.list_event(self, 'append', [x], [])
        list.append(self, x)

    def extend(self, it):
        it = list(it)
        INSTR.list_event(self, 'extend', it, [])
        list.extend(self, it)

    def insert(self, i, x):
        INSTR.list_event(self, 'insert', [x], [])
        list.insert(self, i, x)

    def pop(self, i=-1):
        j = self._idx(i)
        if 0 <= j < len(self):
            INSTR.list_event(self, 'pop', [], [list.__getitem__(self, j)])
        return list.pop(self, i)

    def remove(self, x):
        for y in self:
            if y is x or y == x:
                INSTR.list_event(self, 'remove', [], [y])
                break
        list.remove(self, x)

    def clear(self):
        INSTR.list_event(self, 'clear', [], list(self))
        list.clear(self)

    def sort(self, *a, **k):
        INSTR.list_event(self, 'sort', None, None)
        list.sort(self, *a, **k)

    def reverse(self):
        INSTR.list_event(self, 'reverse', None, None)
        list.reverse(self)

    def __setitem__(self, i, v):
        old = list.__getitem__(self, i)
        INSTR.list_event(self, 'setitem', list(v) if isinstance(i, slice) else [v],
                         list(old) if isinstance(i, slice) else [old])
        list.__setitem__(self, i, v)

    def __delitem__(self, i):
        old = list.__getitem__(self, i)
        INSTR.list_event(self, 'delitem', [], list(old) if isinstance(i, slice) else [old])
        list.__delitem__(self, i)

    def __iadd__(self, it):
        it = list(it)
        INSTR.list_event(self, 'iadd', it, [])
        return list.__iadd__(self, it)

    def __imul__(self, k):
        INSTR.list_event(self, 'imul', None, None)
        return list.__imul__(self, k)


class Instrumentation:
    def __init__(self):
        self.installed = False
        self.active = False
        self.constructing = collections.Counter()
        self.events = []
        self.files = {}

    # ---- patching (this process only)
    def install(self):
        if self.installed:
            return
        from sqlparse import sql
        import sqlparse
        base = os.path.dirname(os.path.dirname(os.path.realpath(sqlparse.__file__)))
        self.files = {os.path.join(base, rel): rel for rel in COVERED_FILES}
        self.sql = sql
        assert '__setattr__' not in sql.Token.__dict__ and '__setattr__' not in sql.TokenList.__dict__
        instr = self
        orig_tok_init = sql.Token.__init__
        orig_tl_init = sql.TokenList.__init__

        def tok_init(self, *a, **k):
            instr.constructing[id(self)] += 1
            try:
                orig_tok_init(self, *a, **k)
            finally:
                instr.constructing[id(self)] -= 1
                if not instr.constructing[id(self)]:
                    del instr.constructing[id(self)]

        def tl_init(self, *a, **k):
            instr.constructing[id(self)] += 1
            try:
                orig_tl_init(self, *a, **k)
            finally:
                instr.constructing[id(self)] -= 1
                if not instr.constructing[id(self)]:
                    del instr.constructing[id(self)]

        def tok_setattr(self, name, value):
            if instr.active and id(self) not in instr.constructing:
                instr.attr_event(self, name, value)
            object.__setattr__(self, name, value)

        def tok_delattr(self, name):
            if instr.active:
                instr.attr_event(self, name, '<deleted>', deleted=True)
            object.__delattr__(self, name)

        self._orig = (orig_tok_init, orig_tl_init)
        sql.Token.__init__ = tok_init
        sql.TokenList.__init__ = tl_init
        sql.Token.__setattr__ = tok_setattr
        sql.Token.__delattr__ = tok_delattr
        self.installed = True

    def uninstall(self):
        if not self.installed:
            return
        sql = self.sql
        sql.Token.__init__, sql.TokenList.__init__ = self._orig
        del sql.Token.__setattr__
        del sql.Token.__delattr__
        self.installed = False

    # ---- events
    def blame(self):
        f = sys._getframe(2)
        while f is not None:
            rel = self.files.get(f.f_code.co_filename)
            if rel is not None:
                return rel, f.f_lineno, f.f_code.co_name
            f = f.f_back
        return None

    def list_event(self, lst, op, added, removed):
        if not self.active:
            return
        self.events.append({'what': 'list', 'op': op, 'added': added, 'removed': removed, 'list': lst,
                            'blame': self.blame()})

    def attr_event(self, obj, name, value, deleted=False):
        self.events.append({'what': 'attr', 'op': 'del' if deleted else 'set', 'name': name, 'obj': obj,
                            'value': value, 'blame': self.blame()})


INSTR = Instrumentation()


def _walk(node):
    yield node
    if node.is_group:
        for t in node.tokens:
            yield from _walk(t)


def _sig_leaves(stmt):
    from sqlparse import tokens as T
    return [(id(t), t.ttype, t.value) for t in stmt.flatten() if t.ttype not in T.Whitespace]


def _shape(node):
    """the tree without its whitespace-typed leaves"""
    from sqlparse import tokens as T
    if not node.is_group:
        return (str(node.ttype), node.value)
    return (type(node).__name__, tuple(_shape(t) for t in node.tokens
                                       if t.is_group or t.ttype not in T.Whitespace))


def _is_ws_leaf(tok):
    from sqlparse import sql, tokens as T
    return type(tok) is sql.Token and tok.ttype is not None and tok.ttype in T.Whitespace


def _ws_text(v):
    return isinstance(v, str) and all(c.isspace() for c in v)


class FilterProbe:
    """wraps one statement filter of the stack: tracking on around its process()"""

    def __init__(self, inner, report, inv):
        self.inner = inner
        self.report = report
        self.inv = inv

    def process(self, stmt):
        rep = self.report
        cname = type(self.inner).__name__
        rep['filters_run'][cname] += 1
        if cname not in rep['covered_classes']:
            rep['violations'].append({'kind': 'uncovered-filter', 'detail': cname})
        # give every list of the tree a tracking list (no aliasing exists at this point)
        seen = set()
        for n in _walk(stmt):
            if n.is_group:
                if id(n.tokens) in seen:
                    rep['violations'].append({'kind': 'aliased-list-before-filter', 'detail': cname})
                seen.add(id(n.tokens))
                if type(n.tokens) is not TrackedList:
                    object.__setattr__(n, 'tokens', TrackedList(n.tokens))
        pre_ids = {id(n) for n in _walk(stmt)}
        before = _sig_leaves(stmt)
        shape_before = _shape(stmt)
        INSTR.events = []
        INSTR.active = True
        CUR['stmt'] = stmt
        try:
            return self.inner.process(stmt)
        finally:
            INSTR.active = False
            events, INSTR.events = INSTR.events, []
            self.check_events(cname, events, pre_ids)
            after = _sig_leaves(stmt)
            if after != before:
                rep['violations'].append({'kind': 'sigleaves-changed', 'detail': cname,
                                          'before': [b[1:] for b in before][:20], 'after': [a[1:] for a in after][:20]})
            if _shape(stmt) != shape_before:
                rep['violations'].append({'kind': 'shape-changed', 'detail': cname})
            rep['filter_calls'] += 1

    def sites_at(self, blame):
        if blame is None:
            return []
        rel, line, _ = blame
        return [s for s in self.inv['sites'] if s['file'] == rel and s['line'] <= line <= s['end_line']]

    def check_events(self, cname, events, pre_ids):
        rep = self.report
        inserted = set()
        for e in events:
            rep['events'] += 1
            sites = self.sites_at(e['blame'])
            desc = self.describe(e)
            if not sites:
                rep['violations'].append({'kind': 'uninventoried-mutation', 'detail': desc, 'filter': cname})
                continue
            ok = False
            why = ''
            for s in sites:
                good, why = self.conforms(e, s, pre_ids, inserted)
                if good:
                    key = '%s:%d' % (s['file'], s['line'])
                    rep['site_hits'][key] += 1
                    ok = True
                    break
            if not ok:
                rep['violations'].append({'kind': 'nonconforming-mutation', 'detail': desc + ' -- ' + why,
                                          'filter': cname, 'site': '%s:%d %s' % (sites[0]['file'], sites[0]['line'], sites[0]['kind'])})

    @staticmethod
    def describe(e):
        b = e['blame']
        where = '%s:%d (%s)' % b if b else '<no frame of a covered file on the stack>'
        if e['what'] == 'list':
            return '%s list.%s added=%r removed=%r' % (where, e['op'], e['added'], e['removed'])
        return '%s %s .%s = %r on %r' % (where, e['op'], e['name'], e['value'], e['obj'])

    @staticmethod
    def conforms(e, s, pre_ids, inserted):
        kind = s['kind']
        if e['what'] == 'attr':
            if e['op'] != 'set':
                return False, 'attribute deleted'
            if e['name'] == 'parent':
                if kind in ('InsWs', 'Rewrap'):
                    return True, ''
                return False, 'parent set at a %s site' % kind
            if e['name'] == 'value':
                if kind != 'SetWsValue':
                    return False, 'value set at a %s site' % kind
                if not _is_ws_leaf(e['obj']):
                    return False, 'value of a non-whitespace token set'
                if not _ws_text(e['value']):
                    return False, 'value set to a non-whitespace string'
                return True, ''
            return False, 'assignment to .%s' % e['name']
        added, removed = e['added'], e['removed']
        if added is None:
            return False, 'list reordered'
        if kind == 'InsWs':
            if e['op'] not in ('insert', 'append') or len(added) != 1 or removed:
                return False, 'not a single insertion'
            t = added[0]
            if not _is_ws_leaf(t):
                return False, 'inserted object is not a whitespace-typed sql.Token'
            if not _ws_text(t.value):
                return False, 'inserted token value %r is not whitespace' % (t.value,)
            if id(t) in pre_ids or id(t) in inserted:
                return False, 'inserted token is not fresh'
            inserted.add(id(t))
            return True, ''
        if kind == 'DelWsGuarded':
            if e['op'] not in ('pop', 'remove', 'delitem') or added or len(removed) != 1:
                return False, 'not a single deletion'
            if not _is_ws_leaf(removed[0]):
                return False, 'deleted element %r is not a whitespace-typed leaf' % (removed[0],)
            return True, ''
        return False, 'list mutation at a %s site' % kind


CUR = {'stmt': None}


def new_report(inv):
    return {'violations': [], 'events': 0, 'filter_calls': 0, 'filters_run': collections.Counter(),
            'site_hits': collections.Counter(), 'covered_classes': [c.split(':')[1] for c in inv['covered']],
            'runs': 0, 'exceptions': collections.Counter(), 'output_mismatch': 0}


def format_probed(text, opts, report, inv, tracer=None):
    """sqlparse.format re-assembled (its body is pinned by gen_sites.py) with a probe around every
    statement filter.  Returns the output text or raises what format() raises."""
    import sqlparse
    from sqlparse import engine, formatter, filters
    stack = engine.FilterStack()
    options = formatter.validate_options(dict(opts))
    stack = formatter.build_filter_stack(stack, options)
    stack.postprocess.append(filters.SerializerUnicode())
    stack.stmtprocess = [FilterProbe(f, report, inv) for f in stack.stmtprocess]
    if tracer is not None:
        sys.settrace(tracer)
    try:
        return ''.join(stack.run(text, None))
    finally:
        if tracer is not None:
            sys.settrace(None)
        INSTR.active = False


def instrumented(cases, inv=None, report=None):
    """cases: iterable of (text, opts).  Returns the report."""
    inv = inv or load_inventory()
    report = report or new_report(inv)
    import sqlparse
    INSTR.install()
    try:
        for text, opts, *_ in cases:
            report['runs'] += 1
            nviol = len(report['violations'])
            try:
                out = format_probed(text, opts, report, inv)
                exc = None
            except Exception as e:  # noqa
                out, exc = None, type(e).__name__
                report['exceptions'][exc] += 1
            for v in report['violations'][nviol:]:
                v.setdefault('input', [ord(c) for c in text])
                v.setdefault('options', dict(opts))
            # the instrumentation must not change what format() computes
            INSTR.uninstall()
            try:
                try:
                    plain = sqlparse.format(text, **opts)
                    pexc = None
                except Exception as e:  # noqa
                    plain, pexc = None, type(e).__name__
            finally:
                INSTR.install()
            if plain != out or pexc != exc:
                report['output_mismatch'] += 1
                report['violations'].append({'kind': 'instrumentation-perturbs-output', 'input': [ord(c) for c in text],
                                             'options': dict(opts), 'detail': '%r/%r vs %r/%r' % (exc, (out or '')[:60], pexc, (plain or '')[:60])})
    finally:
        INSTR.uninstall()
    return report


# ---- the independent line-tracing cross-check ------------------------------------------------------
def _fingerprint(node):
    if not node.is_group:
        return (id(node), id(node.ttype), node.value)
    return (id(node), tuple(_fingerprint(t) for t in node.tokens))


class LineTracer:
    def __init__(self, inv, report):
        import sqlparse
        base = os.path.dirname(os.path.dirname(os.path.realpath(sqlparse.__file__)))
        self.files = {os.path.join(base, rel): rel for rel in COVERED_FILES}
        self.inv = inv
        self.report = report
        self.cur_blame = None
        self.last_fp = None
        self.last_stmt = None

    def check(self):
        stmt = CUR['stmt']
        if stmt is None or not INSTR.active:
            self.last_stmt = None
            return
        fp = _fingerprint(stmt)
        if stmt is not self.last_stmt:
            self.last_stmt, self.last_fp = stmt, fp
            return
        if fp != self.last_fp:
            self.last_fp = fp
            self.report['trace_changes'] += 1
            b = self.cur_blame
            sites = [s for s in self.inv['sites'] if b and s['file'] == b[0] and s['line'] <= b[1] <= s['end_line']]
            if not sites:
                self.report['violations'].append({'kind': 'trace-uninventoried-change',
                                                  'detail': 'tree changed while executing %r' % (b,)})
            else:
                self.report['trace_site_hits']['%s:%d' % (sites[0]['file'], sites[0]['line'])] += 1

    def covered_ancestor(self, frame):
        f = frame.f_back
        while f is not None:
            rel = self.files.get(f.f_code.co_filename)
            if rel is not None:
                return rel, f.f_lineno
            f = f.f_back
        return None

    def global_trace(self, frame, event, arg):
        rel = self.files.get(frame.f_code.co_filename)
        if rel is None:
            return None
        self.check()                       # 'call': nothing of the new frame has run yet
        return self.local_trace

    def local_trace(self, frame, event, arg):
        self.check()
        rel = self.files[frame.f_code.co_filename]
        if event == 'line':
            self.cur_blame = (rel, frame.f_lineno)
        elif event == 'return':
            self.cur_blame = self.covered_ancestor(frame)
        return self.local_trace


def traced(cases, inv=None, report=None):
    inv = inv or load_inventory()
    report = report or new_report(inv)
    report.setdefault('trace_changes', 0)
    report.setdefault('trace_site_hits', collections.Counter())
    INSTR.install()
    try:
        for text, opts, *_ in cases:
            report['runs'] += 1
            tr = LineTracer(inv, report)
            nviol = len(report['violations'])
            try:
                format_probed(text, opts, report, inv, tracer=tr.global_trace)
            except Exception as e:  # noqa
                report['exceptions'][type(e).__name__] += 1
            for v in report['violations'][nviol:]:
                v.setdefault('input', [ord(c) for c in text])
                v.setdefault('options', dict(opts))
    finally:
        sys.settrace(None)
        INSTR.uninstall()
    return report


# ==================================================================================================
# the direct oracle on the unchanged library
# ==================================================================================================
def sig(text):
    from sqlparse import lexer, tokens as T
    return [(tt, v) for tt, v in lexer.tokenize(text) if tt not in T.Whitespace]


_EOL = re.compile(r'\r\n|\r')


def _norm_lines(v):
    """what SerializerUnicode does to text it does not recognise as quoted: line ends -> \\n,
    trailing blanks of every line removed"""
    return '\n'.join(line.rstrip() for line in _EOL.sub('\n', v).split('\n'))


def _feature(tt, v):
    """a short, input-independent label of the token at which a difference starts"""
    from sqlparse import tokens as T
    if tt in T.Keyword or tt in T.Operator or tt in T.Punctuation or tt in T.Assignment:
        return re.sub(r'[0-9]+', 'n', re.sub(r'\s+', ' ', v.upper()))[:14]
    return str(tt).replace('Token.', '')


def _line_class(ta, x):
    from sqlparse import tokens as T
    if ta in T.Comment.Single:
        return 'serializer-comment-single-eol'
    if ta in T.Comment:
        return 'serializer-comment-multiline-lines'
    if ta in T.Literal and x.startswith('$'):
        return 'serializer-dollar-literal-lines'
    if ta in T.Name and x.startswith('`'):
        return 'serializer-backtick-name-lines'
    if ta in T.Name and x.startswith('['):
        return 'serializer-bracket-name-lines'
    if ta in T.Literal.String or ta in T.Name:
        return 'serializer-quoted-lines'
    return 'serializer-other-lines'


def _kw_types():
    from sqlparse import tokens as T
    return T.Keyword


def diff_classes(a, b):
    """a, b: sig of the input / of the output.  Returns a list of (class, detail): tokens that
    differ only by line ends / trailing blanks inside them are reported and skipped; the first
    difference of another nature ends the comparison."""
    out = []
    seen = set()

    def add(cls, detail):
        if cls not in seen:
            seen.add(cls)
            out.append((cls, detail))
    i = 0
    n = min(len(a), len(b))
    while i < n:
        (ta, x), (tb, y) = a[i], b[i]
        if x == y:
            if ta != tb:
                add('retyped:' + _feature(tb, y), '%r: %s -> %s' % (x, ta, tb))
            i += 1
            continue
        if ta == tb and ta in _kw_types() and x.split() == y.split():
            # a multi-word keyword token (ORDER BY, END IF ...) whose INNER white space was respelled (the serializer turns a
            # bare CR into LF): the same keyword token; the property fixes the bytes of literals, quoted names and comments,
            # white space is what layout formatting is allowed to change
            i += 1
            continue
        if _norm_lines(x) == _norm_lines(y) or (x.rstrip() == y.rstrip() and i == n - 1):
            add(_line_class(ta, x), '%s %r -> %r' % (ta, x[:60], y[:60]))
            i += 1
            continue
        break
    else:
        if len(b) < len(a):
            add('dropped:' + _feature(*a[n]), 'missing tail %r' % ([v for _, v in a[n:n + 3]],))
        elif len(b) > len(a):
            add('added:' + _feature(*b[n]), 'extra tail %r' % ([v for _, v in b[n:n + 3]],))
        return out
    va = [v for _, v in a]
    vb = [v for _, v in b]
    x, y = va[i], vb[i]
    feat = _feature(*a[i])
    # fusion: output token = concatenation of >= 2 input tokens
    acc, k = '', i
    while k < len(va) and len(acc) < len(y):
        acc += va[k]
        k += 1
    if acc == y and k - i >= 2:
        add('fused:' + feat, '%r -> %r' % (va[i:k], y))
        return out
    acc, k = '', i
    while k < len(vb) and len(acc) < len(x):
        acc += vb[k]
        k += 1
    if acc == x and k - i >= 2:
        add('split:' + feat, '%r -> %r' % (x, vb[i:k]))
        return out
    if ''.join(va[i:]) == ''.join(vb[i:]) or _norm_lines(''.join(va[i:])) == _norm_lines(''.join(vb[i:])):
        add('relexed:' + feat, 'same characters, other tokens: %r -> %r' % (va[i:i + 3], vb[i:i + 3]))
        return out
    add('changed:' + feat, '%r -> %r' % (va[i:i + 3], vb[i:i + 3]))
    return out


def oracle_case(text, opts, want_class=None):
    """None, or a failure dict with its class.  Exceptions of format() are not C06's business."""
    import sqlparse
    from sqlparse import tokens as T
    try:
        out = sqlparse.format(text, **opts)
    except Exception:  # noqa
        return None
    try:
        a, b = sig(text), sig(out)
    except Exception:  # noqa
        return None
    fails = diff_classes(a, b)
    try:
        n1, n2 = len(sqlparse.split(text)), len(sqlparse.split(out))
        if n1 != n2:
            go = any(tt in T.Keyword and v.upper().split()[0] == 'GO' for tt, v in a)
            fails.append(('statement-count' + (':GO' if go else ''), '%d statements -> %d' % (n1, n2)))
    except Exception:  # noqa
        pass
    if want_class is not None:
        fails = [f for f in fails if f[0] == want_class]
    if not fails:
        return None
    cls, detail = fails[0]
    return {'input': [ord(c) for c in text], 'options': dict(opts), 'class': cls,
            'classes': [c for c, _ in fails], 'observed': '%s: %s' % (cls, detail), 'output': out[:300]}


def shrink_case(f):
    """smallest text (character deletion) and smallest option set that still shows the same class"""
    text = ''.join(map(chr, f['input']))
    opts = dict(f['options'])
    cls = f['class']
    changed = True
    best = f
    while changed:
        changed = False
        for k in list(opts):
            o2 = {x: y for x, y in opts.items() if x != k}
            g = oracle_case(text, o2, cls)
            if g:
                opts, best, changed = o2, g, True
        t2, g = common.shrink_text(text, lambda s: oracle_case(s, opts, cls))
        if g and len(t2) < len(text):
            text, best, changed = t2, g, True
    return best


# ---- known findings ------------------------------------------------------------------------------
# Proposed known_findings.json entries (status open) for the UNCHANGED library.  `match` is what
# classify() keys on: a regex on the failure class (classes carry the token at which the
# difference starts, so a difference starting at another token is a NEW class), options of which
# at least one must be set, and a regex the (shrunk) input must match.
PROPOSED_KNOWN = [
    {'id': 'C06-GO-fusion', 'property': 'C06', 'status': 'open',
     'what_fails': "format() joins the statements with '' after right-stripping each one (SerializerUnicode + ''.join), and "
                   "strip_whitespace drops a statement's trailing whitespace: a batch separator GO / GO n (a statement "
                   "terminator that is not ';') is fused with the first token of the next statement, even with no option at "
                   "all: 'GO U' -> 'GOU', 'GO 2 A' -> 'GO 2A' (re-lexed as GO, 2A); the statement count drops",
     'match': {'class_regex': r'^(fused|changed|relexed|split|dropped|added|statement-count):GO( n)?$'},
     'witness': {'text': 'GO U', 'options': {}}, 'witness_class': 'fused:GO'},
    {'id': 'C06-serializer-comment-eol', 'property': 'C06', 'status': 'open',
     'what_fails': "SerializerUnicode rewrites the line end and removes trailing blanks of a one-line comment "
                   "('--\\r' -> '--\\n', '-- ' -> '--'): comments are not byte-identical (no option needed)",
     'match': {'class_regex': r'^serializer-comment-single-eol$'},
     'witness': {'text': '--\r', 'options': {}}, 'witness_class': 'serializer-comment-single-eol'},
    {'id': 'C06-serializer-empty-hash-comment', 'property': 'C06', 'status': 'open',
     'what_fails': "an empty '# ' comment loses its blank in SerializerUnicode ('# \\nc' -> '#\\nc') and re-lexes as the "
                   "operator '#' (only seen outside the grammar)",
     'match': {'class_regex': r'^changed:Comment\.Single$', 'input_regex': r'# *[\r\n]'},
     'witness': {'text': '# \nc', 'options': {}}, 'witness_class': 'changed:Comment.Single'},
    {'id': 'C06-serializer-comment-multiline', 'property': 'C06', 'status': 'open',
     'what_fails': "SerializerUnicode normalises line ends / strips trailing blanks of the lines INSIDE a /* */ comment",
     'match': {'class_regex': r'^serializer-comment-multiline-lines$'},
     'witness': {'text': '/* \n*/', 'options': {}}, 'witness_class': 'serializer-comment-multiline-lines'},
    {'id': 'C06-serializer-dollar-literal', 'property': 'C06', 'status': 'open',
     'what_fails': "SerializerUnicode edits the lines inside a dollar-quoted literal (split_unquoted_newlines only protects '..' and \"..\")",
     'match': {'class_regex': r'^serializer-dollar-literal-lines$'},
     'witness': {'text': '$$ \n$$', 'options': {}}, 'witness_class': 'serializer-dollar-literal-lines'},
    {'id': 'C06-serializer-backtick-name', 'property': 'C06', 'status': 'open',
     'what_fails': "SerializerUnicode edits the lines inside a backtick-quoted name",
     'match': {'class_regex': r'^serializer-backtick-name-lines$'},
     'witness': {'text': '` \n`', 'options': {}}, 'witness_class': 'serializer-backtick-name-lines'},
    {'id': 'C06-serializer-bracket-name', 'property': 'C06', 'status': 'open',
     'what_fails': "SerializerUnicode edits the lines inside a [bracketed] name",
     'match': {'class_regex': r'^serializer-bracket-name-lines$'},
     'witness': {'text': '[ \n]', 'options': {}}, 'witness_class': 'serializer-bracket-name-lines'},
    {'id': 'C06-serializer-quote-desync', 'property': 'C06', 'status': 'open',
     'what_fails': "a quote character inside a comment, a backtick name or a dollar-quoted literal desynchronises the quote tracking of "
                   "split_unquoted_newlines: the lines inside a FOLLOWING '..' or \"..\" literal are edited "
                   "(\"--'\\n' \\n'\" -> \"--'\\n'\\n'\"): string literals are not byte-identical",
     'match': {'class_regex': r'^serializer-quoted-lines$', 'input_regex': r"(--|/\*|#|`|\[|\$).*['\"]"},
     'witness': {'text': "--'\n' \n'", 'options': {}}, 'witness_class': 'serializer-quoted-lines'},
    {'id': 'C06-serializer-backslash-quote', 'property': 'C06', 'status': 'open',
     'what_fails': "a backslash directly before the closing quote: the lexer backtracks and ends the literal there, SPLIT_REGEX reads "
                   "backslash-quote as an escape and pairs the quotes differently; line ends inside a following quoted name are edited",
     'match': {'class_regex': r'^serializer-quoted-lines$', 'input_regex': r"\\['\"]"},
     'witness': {'text': '\'"\\\'"\r"', 'options': {}}, 'witness_class': 'serializer-quoted-lines'},
    {'id': 'C06-hash-operator-becomes-comment', 'property': 'C06', 'status': 'open',
     'what_fails': "use_space_around_operators puts a blank after the operator '#' ('#x' -> '# x'): '# ' starts a comment, "
                   "the rest of the line (tokens, even ';') is swallowed; outside the grammar strip_whitespace does the "
                   "same to '#' followed by a line end ('#\\n%' -> '# %')",
     'match': {'class_regex': r'^(changed|relexed|fused|dropped|split):#$|^statement-count$',
               'needs_any_option': ['use_space_around_operators', 'strip_whitespace', 'reindent', 'reindent_aligned',
                                    'indent_columns'], 'input_regex': r'#'},
     'witness': {'text': '#x', 'options': {'use_space_around_operators': True}}, 'witness_class': 'changed:#'},
    {'id': 'C06-word-before-paren-retyped', 'property': 'C06', 'status': 'open', 'severity': 'info',
     'what_fails': "reindent breaks the line between a word and the '(' of the sub-select that follows it (EXISTS(, OVER(, "
                   "nvl(, lower(): the token VALUES are unchanged but the word re-lexes as Keyword instead of Name (the lexer "
                   "types a word by the '(' that immediately follows it)",
     'match': {'class_regex': r'^retyped:[A-Z_]+$', 'needs_any_option': ['reindent', 'indent_columns'],
               'input_regex': r'\w\('},
     'witness': {'text': 'exists(select)', 'options': {'reindent': True}}, 'witness_class': 'retyped:EXISTS'},
    {'id': 'C06-trailing-comment-statement-joined', 'property': 'C06', 'status': 'open',
     'what_fails': "a comment-only last statement (';\\n-- c') is put on the line of the preceding ';' by strip_whitespace / "
                   "reindent_aligned and then belongs to that statement: same tokens, one statement less",
     'match': {'class_regex': r'^statement-count$', 'input_regex': r'(--|#)'},
     'witness': {'text': ';\n--', 'options': {'strip_whitespace': True}}, 'witness_class': 'statement-count'},
]


def classify(failure, known):
    """id of the known finding this failure is an instance of, or None (a NEW class: reported)."""
    cls = failure.get('class') or ''
    opts = failure.get('options', {})
    text = ''.join(map(chr, failure.get('input', [])))
    for k in known:
        m = k.get('match', {})
        if not m.get('class_regex') or not re.search(m['class_regex'], cls):
            continue
        need = m.get('needs_any_option')
        if need and not any(opts.get(o) for o in need):
            continue
        if m.get('input_regex') and not re.search(m['input_regex'], text, re.S):
            continue
        return k['id']
    return None


# ==================================================================================================
# translator self-test: seeded mutations must be rejected
# ==================================================================================================
SEEDED = [
    # (name, file, old, new)
    ('guard dropped from del', 'sqlparse/filters/reindent.py',
     "            if prev_ and prev_.is_whitespace:\n                del tlist.tokens[pidx]\n                tidx -= 1\n\n            if not",
     "            if prev_:\n                del tlist.tokens[pidx]\n                tidx -= 1\n\n            if not"),
    ('guard on another token', 'sqlparse/filters/reindent.py',
     "            if prev_ and prev_.is_whitespace:\n                del tlist.tokens[pidx]\n                tidx -= 1\n\n            if not",
     "            if prev_ and token.is_whitespace:\n                del tlist.tokens[pidx]\n                tidx -= 1\n\n            if not"),
    ('index changed between pairing and del', 'sqlparse/filters/reindent.py',
     "            uprev = str(prev_)\n", "            uprev = str(prev_)\n            pidx = pidx - 1\n"),
    ('mutation between pairing and del', 'sqlparse/filters/reindent.py',
     "            uprev = str(prev_)\n", "            uprev = str(prev_)\n            tlist.insert_before(0, self.nl())\n"),
    ('internal call between pairing and del', 'sqlparse/filters/reindent.py',
     "            uprev = str(prev_)\n", "            uprev = str(prev_)\n            self._process_where(tlist)\n"),
    ('del of another list', 'sqlparse/filters/reindent.py',
     "                del tlist.tokens[pidx]\n                tidx -= 1\n\n            if not",
     "                del tlist.parent.tokens[pidx]\n                tidx -= 1\n\n            if not"),
    ('pop index differs from guard', 'sqlparse/filters/others.py',
     "        while tlist.tokens[1].is_whitespace:\n            tlist.tokens.pop(1)",
     "        while tlist.tokens[1].is_whitespace:\n            tlist.tokens.pop(2)"),
    ('pop not first in body', 'sqlparse/filters/others.py',
     "        while tlist.tokens[1].is_whitespace:\n            tlist.tokens.pop(1)",
     "        while tlist.tokens[1].is_whitespace:\n            tlist.tokens.insert(1, sql.Token(T.Whitespace, ' '))\n            tlist.tokens.pop(1)"),
    ('value set without guard', 'sqlparse/filters/others.py',
     "            if token.is_whitespace:\n                token.value =", "            if token.is_group or True:\n                token.value ="),
    ('value set to non-whitespace', 'sqlparse/filters/others.py',
     "token.value = '' if last_was_ws or is_first_char else ' '", "token.value = '' if last_was_ws or is_first_char else '_'"),
    ('remove of unconditioned token', 'sqlparse/filters/others.py',
     "            last_nl = token if token.is_whitespace else None", "            last_nl = token"),
    ('insert of a comma', 'sqlparse/filters/others.py',
     "tlist.insert_before(tidx, sql.Token(T.Whitespace, ' '))", "tlist.insert_before(tidx, sql.Token(T.Punctuation, ','))"),
    ('insert of non-whitespace text', 'sqlparse/filters/reindent.py',
     "            self.n + self.char * max(0, self.leading_ws + offset))", "            self.n + '--' + self.char * max(0, self.leading_ws + offset))"),
    ('insert of an existing token', 'sqlparse/filters/reindent.py',
     "        tlist.insert_before(0, self.nl())\n        tidx, token = tlist.token_next_by(i=sql.Parenthesis)",
     "        tlist.insert_before(0, tlist[0])\n        tidx, token = tlist.token_next_by(i=sql.Parenthesis)"),
    ('element replaced', 'sqlparse/filters/aligned_indent.py',
     "        self._split_kwds(tlist)\n        # process any sub-sub statements",
     "        self._split_kwds(tlist)\n        tlist.tokens[0] = tlist.tokens[-1]\n        # process any sub-sub statements"),
    ('ttype assigned', 'sqlparse/filters/aligned_indent.py',
     "            tlist.insert_before(token, self.nl(token_indent))", "            token.ttype = T.Whitespace\n            tlist.insert_before(token, self.nl(token_indent))"),
    ('tokens list replaced', 'sqlparse/filters/aligned_indent.py',
     "        self._process(stmt)\n        return stmt", "        self._process(stmt)\n        stmt.tokens = stmt.tokens[:1]\n        return stmt"),
    ('aliased list mutated', 'sqlparse/filters/aligned_indent.py',
     "        self._process(stmt)\n        return stmt", "        self._process(stmt)\n        x = stmt.tokens\n        x.pop()\n        return stmt"),
    ('unknown method called', 'sqlparse/filters/aligned_indent.py',
     "        self._process(stmt)\n        return stmt", "        self._process(stmt)\n        stmt.get_token_at_offset(0)\n        return stmt"),
    ('setattr called', 'sqlparse/filters/aligned_indent.py',
     "        self._process(stmt)\n        return stmt", "        self._process(stmt)\n        setattr(stmt.tokens[0], 'value', 'x')\n        return stmt"),
    ('group_tokens is tolerated but a foreign class ctor is not', 'sqlparse/filters/aligned_indent.py',
     "        self._process(stmt)\n        return stmt", "        self._process(stmt)\n        sql.Statement(stmt.tokens)\n        return stmt"),
    ('field char reassigned', 'sqlparse/filters/reindent.py',
     "        self._curr_stmt = stmt\n        self._process(stmt)", "        self._curr_stmt = stmt\n        self.char = 'x'\n        self._process(stmt)"),
    ('n passed by build_filter_stack', 'sqlparse/formatter.py',
     "                compact=options['compact'],))", "                compact=options['compact'], n=options.get('nl', 'x')))"),
    ('indent_char not constant', 'sqlparse/formatter.py',
     "        options['indent_char'] = ' '", "        options['indent_char'] = options.get('indent_char', ' ')"),
    ('extra statement filter under a layout option', 'sqlparse/formatter.py',
     "    if options.get('reindent_aligned', False):\n        stack.enable_grouping()",
     "    if options.get('reindent_aligned', False):\n        stack.stmtprocess.append(filters.StripCommentsFilter())\n        stack.enable_grouping()"),
    ('layout option switches on strip_comments', 'sqlparse/formatter.py',
     "    elif reindent:\n        options['strip_whitespace'] = True",
     "    elif reindent:\n        options['strip_whitespace'] = True\n        options['strip_comments'] = True"),
    ('insert_before helper changed', 'sqlparse/sql.py',
     "        token.parent = self\n        self.tokens.insert(where, token)", "        token.parent = self\n        self.tokens[where] = token"),
    ('Token gets __eq__', 'sqlparse/sql.py',
     "    def __str__(self):\n        return self.value\n", "    def __str__(self):\n        return self.value\n\n    def __eq__(self, other):\n        return True\n"),
    ('inherited filter class', 'sqlparse/filters/others.py',
     "class SpacesAroundOperatorsFilter:", "class SpacesAroundOperatorsFilter(StripCommentsFilter):"),
]


def _coq_eval_inventory(sitev):
    """evaluate the obligations of Inst/C06.v on a given SiteInv.v text (coqtop, no file written
    into the development)"""
    body = '\n'.join(line for line in sitev.splitlines())
    script = body + '\n' + \
        'Eval vm_compute in (forallb ws_only_site layout_sites, forallb (fun s => negb (is_unknown s)) layout_sites, ' \
        'forallb field_fact_ws layout_field_facts, str_incl layout_stmt_filters covered_classes).\n'
    p = subprocess.run(['timeout', '120', 'coqtop', '-R', os.path.join(vlib.COQ, 'theories'), 'SqlModel', '-w',
                        '-notation-overridden'], input=script, stdout=subprocess.PIPE, stderr=subprocess.STDOUT, text=True)
    m = re.search(r'=\s*\((true|false),\s*(true|false),\s*(true|false),\s*(true|false)\)', p.stdout)
    if not m:
        return None, p.stdout[-400:]
    return tuple(x == 'true' for x in m.groups()), ''


def translator_selftest(verbose=False):
    """-> {'seeded': n, 'rejected': n, 'accepted': [names], 'baseline_ok': bool}"""
    res = {'seeded': len(SEEDED), 'rejected': 0, 'accepted': [], 'how': {}, 'baseline_ok': False}
    tmp = tempfile.mkdtemp(prefix='c06_seeded_')
    try:
        dst = os.path.join(tmp, 'repo')
        shutil.copytree(REPO, dst, ignore=shutil.ignore_patterns('.git', '__pycache__', 'tests', 'docs', '*.pyc'))
        gen = os.path.join(vlib.VERIF, 'tools', 'regen', 'gen_sites.py')
        env = dict(os.environ, PYTHONPATH=dst, VERIF_REPO=dst, PYTHONHASHSEED='0', PYTHONDONTWRITEBYTECODE='1')

        def run_translator():
            code = ('import sys, json; sys.path.insert(0, %r); import gen_sites; '
                    'files, side = gen_sites.generate(); print(json.dumps(files))' % os.path.dirname(gen))
            p = subprocess.run([sys.executable, '-c', code], env=env, stdout=subprocess.PIPE, stderr=subprocess.PIPE,
                               text=True, timeout=120)
            if p.returncode != 0:
                last = p.stderr.strip().splitlines()[-1] if p.stderr.strip() else 'failed'
                return None, last
            return json.loads(p.stdout.strip().splitlines()[-1])['SiteInv.v'], ''

        v, err = run_translator()
        if v is not None:
            flags, _ = _coq_eval_inventory(v)
            res['baseline_ok'] = flags == (True, True, True, True)
        res['baseline_error'] = err
        for name, rel, old, new in SEEDED:
            path = os.path.join(dst, rel)
            with open(path, encoding='utf-8') as f:
                src = f.read()
            if src.count(old) < 1:
                res['accepted'].append(name + ' (SEED DOES NOT APPLY)')
                continue
            with open(path, 'w', encoding='utf-8') as f:
                f.write(src.replace(old, new, 1))
            try:
                v, err = run_translator()
                if v is None:
                    res['rejected'] += 1
                    res['how'][name] = 'translator: ' + err[:160]
                else:
                    flags, log = _coq_eval_inventory(v)
                    if flags is None or flags != (True, True, True, True):
                        res['rejected'] += 1
                        res['how'][name] = 'Coq obligations (ws_only, no_unknown, fields_ws, stack_covered) = %s' % (flags,)
                    else:
                        res['accepted'].append(name)
            finally:
                with open(path, 'w', encoding='utf-8') as f:
                    f.write(src)
            if verbose:
                print(' seeded %-55s %s' % (name, res['how'].get(name, 'ACCEPTED')))
    finally:
        shutil.rmtree(tmp, ignore_errors=True)
    return res


# ---- the instrumentation must notice bad edits: seeded mutations that keep the line numbers -------
INSTR_SEEDED = [
    # (name, file, old, new, expected violation kinds)
    ('comma inserted at an InsWs site', 'sqlparse/filters/others.py',
     "tlist.insert_before(tidx, sql.Token(T.Whitespace, ' '))", "tlist.insert_before(tidx, sql.Token(T.Punctuation, ','))"),
    ('unguarded deletion at a DelWsGuarded site', 'sqlparse/filters/reindent.py',
     "            if prev_ and prev_.is_whitespace:\n                del tlist.tokens[pidx]\n                tidx -= 1\n\n            if not",
     "            if prev_:\n                del tlist.tokens[pidx]\n                tidx -= 1\n\n            if not"),
    ('non-whitespace value at the SetWsValue site', 'sqlparse/filters/others.py',
     "token.value = '' if last_was_ws or is_first_char else ' '", "token.value = '' if last_was_ws or is_first_char else '_'"),
    ('list reversed on a line that is no site', 'sqlparse/filters/aligned_indent.py',
     "            tidx += 1\n            tidx, token = self._next_token(tlist, tidx)",
     "            tidx += 1; tlist.tokens.reverse(); tlist.tokens.reverse()\n            tidx, token = self._next_token(tlist, tidx)"),
    ('ttype assigned on a line that is no site', 'sqlparse/filters/aligned_indent.py',
     "            tidx += 1\n            tidx, token = self._next_token(tlist, tidx)",
     "            tidx += 1; token.ttype = T.Keyword\n            tidx, token = self._next_token(tlist, tidx)"),
    ('existing token re-inserted at an InsWs site', 'sqlparse/filters/others.py',
     "tlist.insert_before(tidx, sql.Token(T.Whitespace, ' '))", "tlist.insert_before(tidx, tlist.tokens[0])"),
    ('value of a non-whitespace token set through object.__setattr__', 'sqlparse/filters/aligned_indent.py',
     "            tidx += 1\n            tidx, token = self._next_token(tlist, tidx)",
     "            tidx += 1; object.__setattr__(token, 'value', token.value.lower())\n            tidx, token = self._next_token(tlist, tidx)"),
]


def instrumentation_selftest(n=400, verbose=False):
    """every seeded mutation of a COPY of the library must make the instrumented and/or the traced
    run (against the inventory of the UNCHANGED library) report violations"""
    res = {'seeded': len(INSTR_SEEDED), 'detected': 0, 'missed': [], 'how': {}}
    tmp = tempfile.mkdtemp(prefix='c06_instr_')
    try:
        dst = os.path.join(tmp, 'repo')
        shutil.copytree(REPO, dst, ignore=shutil.ignore_patterns('.git', '__pycache__', 'tests', 'docs', '*.pyc'))
        env = dict(os.environ, PYTHONPATH=dst, VERIF_REPO=dst, PYTHONHASHSEED='0', PYTHONDONTWRITEBYTECODE='1')
        code = ('import sys; sys.path.insert(0, %r); import vlib; from props import C06_sites as M; '
                'M.main_json(%d)' % (os.path.join(vlib.VERIF, 'tools'), n))
        for name, rel, old, new in INSTR_SEEDED:
            path = os.path.join(dst, rel)
            with open(path, encoding='utf-8') as f:
                src = f.read()
            if src.count(old) < 1:
                res['missed'].append(name + ' (SEED DOES NOT APPLY)')
                continue
            with open(path, 'w', encoding='utf-8') as f:
                f.write(src.replace(old, new, 1))
            try:
                p = subprocess.run([sys.executable, '-c', code], env=env, stdout=subprocess.PIPE, stderr=subprocess.PIPE,
                                   text=True, timeout=900)
                try:
                    out = json.loads(p.stdout.strip().splitlines()[-1])
                except Exception:  # noqa
                    out = {'error': (p.stderr or p.stdout)[-300:]}
                res['how'][name] = out
                if out.get('instrumented') or out.get('traced'):
                    res['detected'] += 1
                else:
                    res['missed'].append(name)
            finally:
                with open(path, 'w', encoding='utf-8') as f:
                    f.write(src)
            if verbose:
                print(' instr-seeded %-60s %s' % (name, res['how'].get(name)))
    finally:
        shutil.rmtree(tmp, ignore_errors=True)
    return res


def main_json(n):
    """(used by instrumentation_selftest in a subprocess) violation kinds of a small run"""
    import random
    rng = random.Random('C06_sites:instr')
    cases = []
    for _ in range(n):
        s, kind, opts = gens_sites.case(rng, junk_share=0.0)
        cases.append((s[:1500], opts, kind))
    inv = load_inventory()
    rep = instrumented(cases, inv)
    rep2 = traced(cases[:max(20, n // 8)], inv)
    print(json.dumps({'instrumented': dict(collections.Counter(v['kind'] for v in rep['violations'])),
                      'traced': dict(collections.Counter(v['kind'] for v in rep2['violations']))}))


# ==================================================================================================
# stages
# ==================================================================================================
def gen_cases(ctx, n):
    out = []
    dist = collections.Counter()
    for _ in range(n):
        s, kind, opts = gens_sites.case(ctx.rng)
        out.append((s[:ctx.n(600, 3000)], opts, kind))
        dist[kind] += 1
    return out, dist


def option_hist(cases):
    h = collections.Counter()
    for _, o, *_k in cases:
        if not o:
            h['<none>'] += 1
        for k, v in o.items():
            if v is not False:
                h[k] += 1
    return dict(h)


def selftest_stage(ctx, cases):
    inv = load_inventory()
    rep = instrumented(cases, inv)
    ntrace = ctx.n(150, 1500)
    rep2 = traced(cases[:ntrace], inv)
    all_sites = ['%s:%d' % (s['file'], s['line']) for s in inv['sites']]
    never = [s for s in all_sites if not rep['site_hits'].get(s)]
    never_trace = [s for s in all_sites if not rep2['trace_site_hits'].get(s) and
                   not any(x['file'] + ':%d' % x['line'] == s and x['kind'] == 'Rewrap' for x in inv['sites'])]
    return {
        'inventory_sites': len(all_sites),
        'runs': rep['runs'], 'filter_calls': rep['filter_calls'], 'mutation_events': rep['events'],
        'filters_run': dict(rep['filters_run']), 'exceptions': dict(rep['exceptions']),
        'site_hits': dict(rep['site_hits']), 'sites_never_exercised': never,
        'violations': rep['violations'],
        'trace_runs': rep2['runs'], 'trace_changes': rep2['trace_changes'],
        'trace_site_hits': dict(rep2['trace_site_hits']), 'trace_sites_never_exercised': never_trace,
        'trace_violations': rep2['violations'],
    }


def oracle_stage(cases, max_per_class=3):
    by_class = collections.OrderedDict()
    counts = collections.Counter()
    for text, opts, *k in cases:
        f = oracle_case(text, opts)
        if f:
            origin = 'grammar' if k and not k[0].startswith('mixed') else 'junk'
            f['origin'] = origin
            for c in f['classes']:
                counts[c + '@' + origin] += 1
            for c in f['classes']:
                lst = by_class.setdefault(c, [])
                g = dict(f)
                g['class'] = c
                if origin == 'grammar' and lst and lst[0].get('origin') != 'grammar':
                    lst.insert(0, g)          # prefer a witness from the verification grammar
                elif len(lst) < max_per_class:
                    lst.append(g)
    return by_class, counts


def run(ctx):
    cases, dist = gen_cases(ctx, ctx.n(3000, 30000))
    st = selftest_stage(ctx, cases)
    res = {'disagreements': [], 'failures': []}
    res['failures'] += common.threshold_failures('C06', ctx.quick())
    for v in st['violations'][:20] + st['trace_violations'][:20]:
        res['disagreements'].append({'stage': 'site-inventory-selftest', 'detail': v.get('kind') + ': ' + str(v.get('detail'))[:300],
                                     'input': v.get('input'), 'options': v.get('options')})
    ts = translator_selftest() if not ctx.quick() or os.environ.get('C06_SEEDED') else None
    if ts is not None and (ts['accepted'] or not ts['baseline_ok']):
        res['disagreements'].append({'stage': 'translator-selftest', 'detail': 'seeded mutations accepted: %r baseline_ok=%r'
                                     % (ts['accepted'], ts['baseline_ok'])})
    by_class, counts = oracle_stage(cases)
    notes = []
    for c, fl in by_class.items():
        g = shrink_case(fl[0])
        g['origin'] = fl[0].get('origin')
        if fl[0].get('origin') == 'grammar':
            res['failures'].append(g)
        else:
            # only seen on junk / unicode soup: outside the quantifier of C06 (scripts of the grammar)
            notes.append('outside the grammar: class %s on %r %r (known: %s)' %
                         (c, ''.join(map(chr, g['input'])), g['options'], classify(g, PROPOSED_KNOWN)))
    res['notes'] = notes
    res.update({
        'evaluations': len(cases) * 2 + st['trace_runs'],
        'distinct_nontrivial': len([s for s in st['site_hits'] if st['site_hits'][s]]),
        'rule': 'cases = grammar scripts (random layout, comments in whitespace slots, GO separators, procedural '
                'scripts, 10% junk) x random layout option sets; each case is formatted under instrumentation (every '
                'tree mutation must be an inventoried whitespace-only edit) and checked by the sig oracle; '
                'distinct_nontrivial = inventoried sites exercised',
        'samples': [c[0][:100] + '  ' + json.dumps(c[1]) for c in cases[:5]],
        'traces_validated_against_impl': st['runs'] + st['trace_runs'],
        'distribution': {'generator': dict(dist), 'options': option_hist(cases), 'selftest': {k: v for k, v in st.items()
                         if k not in ('violations', 'trace_violations')}, 'oracle_classes': dict(counts),
                         'translator_selftest': ts},
    })
    return res


def run_oracle_only(ctx):
    cases, dist = gen_cases(ctx, ctx.n(3000, 30000))
    by_class, counts = oracle_stage(cases)
    return {'failures': [shrink_case(fl[0]) for fl in by_class.values()], 'evaluations': len(cases),
            'distinct_nontrivial': 0, 'rule': 'oracle only', 'samples': [c[0][:100] for c in cases[:3]],
            'distribution': {'oracle_classes': dict(counts)}}


def oracle(text, opts=None):
    if opts is None:
        # a text alone: try the main switches
        for o in ({'strip_whitespace': True}, {'reindent': True}, {'reindent_aligned': True},
                  {'use_space_around_operators': True}, {}):
            f = oracle_case(text, o)
            if f:
                return f
        return None
    return oracle_case(text, opts)


def _open_known():
    return [k for k in vlib.load_known_findings() if k.get('property') == 'C06' and k.get('status') == 'open']


SEARCH_OPTS = [{'reindent': True}, {'reindent_aligned': True}, {'strip_whitespace': True},
               {'use_space_around_operators': True}, {'reindent_aligned': True, 'use_space_around_operators': True}]


def search(ctx, hints):
    fails = []
    tried = 0
    # the disagreeing inputs of the correspondence and the by-construction shapes, under each layout option
    for d in hints.get('disagreements', []):
        if 'input' not in d or fails:
            continue
        s = ''.join(map(chr, d['input']))
        for o in ([d['options']] if isinstance(d.get('options'), dict) else SEARCH_OPTS):
            tried += 1
            try:
                f = oracle_case(s, o)
            except Exception:  # noqa
                f = None
            if f and classify(f, _open_known()) is None:
                fails.append(f)
                break
    t0 = time.time()
    while time.time() - t0 < ctx.n(60, 600) and not fails:
        s, kind, opts = gens_sites.case(ctx.rng)
        tried += 1
        f = oracle_case(s, opts)
        if f and classify(f, _open_known()) is None:
            fails.append(f)
    return {'failures': fails[:1], 'tried': tried}


def shrink(f):
    return shrink_case(f) if f and 'input' in f and 'class' in f else f


def replay(payload):
    _f = payload.get('failure') or {}
    if _f.get('threshold_input'):
        return common.threshold_replay('C06', _f)
    f = payload.get('failure')
    if not f or 'input' not in f:
        return {'fails': False, 'note': 'no concrete input'}
    g = oracle_case(''.join(map(chr, f['input'])), f.get('options', {}))
    return {'fails': bool(g), 'observed': g}


def rederive_known(k):
    w = k.get('witness')
    if not w:
        return None
    return oracle_case(w['text'], w['options'], k.get('witness_class'))


# ==================================================================================================
if __name__ == '__main__':
    import argparse
    import random
    ap = argparse.ArgumentParser()
    ap.add_argument('--n', type=int, default=3000)
    ap.add_argument('--trace', type=int, default=300)
    ap.add_argument('--seed', default='0')
    ap.add_argument('--seeded', action='store_true')
    ap.add_argument('--no-oracle', action='store_true')
    args = ap.parse_args()

    class _Ctx:
        tier = 'quick'
        rng = random.Random('C06_sites:' + args.seed)

        def n(self, q, t):
            return q

        def quick(self):
            return True
    ctx = _Ctx()
    cases = []
    dist = collections.Counter()
    for _ in range(args.n):
        s, kind, opts = gens_sites.case(ctx.rng)
        cases.append((s[:3000], opts, kind))
        dist[kind] += 1
    print('cases', len(cases), dict(dist))
    print('options', option_hist(cases))
    t0 = time.time()
    inv = load_inventory()
    rep = instrumented(cases, inv)
    print('instrumented: runs %d filter calls %d mutation events %d exceptions %s  %.1fs' %
          (rep['runs'], rep['filter_calls'], rep['events'], dict(rep['exceptions']), time.time() - t0))
    print(' filters run', dict(rep['filters_run']))
    print(' violations', len(rep['violations']))
    seen = set()
    for v in rep['violations']:
        key = (v['kind'], str(v.get('detail'))[:80])
        if key not in seen and len(seen) < 15:
            seen.add(key)
            print('  ', v['kind'], str(v.get('detail'))[:300], v.get('site', ''))
            print('     input=%r options=%r' % (''.join(map(chr, v.get('input', [])))[:200], v.get('options')))
    for s in inv['sites']:
        key = '%s:%d' % (s['file'], s['line'])
        print('   %-45s %-14s hits %d' % (key, s['kind'], rep['site_hits'].get(key, 0)))
    t0 = time.time()
    rep2 = traced(cases[:args.trace], inv)
    print('traced: runs %d tree changes %d violations %d  %.1fs' % (rep2['runs'], rep2['trace_changes'],
                                                                   len(rep2['violations']), time.time() - t0))
    for v in rep2['violations'][:10]:
        print('  ', v['kind'], v['detail'], ''.join(map(chr, v.get('input', [])))[:100], v.get('options'))
    print(' trace sites hit', len(rep2['trace_site_hits']), 'of', len(inv['sites']))
    if args.seeded:
        t0 = time.time()
        it = instrumentation_selftest(n=150, verbose=True)
        print('instrumentation self-test: seeded %d detected %d missed %r  %.1fs' %
              (it['seeded'], it['detected'], it['missed'], time.time() - t0))
        t0 = time.time()
        ts = translator_selftest(verbose=True)
        print('translator self-test: baseline_ok=%s seeded %d rejected %d accepted %r  %.1fs' %
              (ts['baseline_ok'], ts['seeded'], ts['rejected'], ts['accepted'], time.time() - t0))
    if not args.no_oracle:
        t0 = time.time()
        by_class, counts = oracle_stage(cases)
        print('oracle: classes', dict(counts), ' %.1fs' % (time.time() - t0))
        for c, fl in by_class.items():
            g = shrink_case(fl[0])
            print(' known=%s' % classify(g, PROPOSED_KNOWN))
            print(' class %-38s origin=%s text=%r options=%r' % (c, fl[0].get('origin'), ''.join(map(chr, g['input'])), g['options']))
            print('        %s' % g['observed'][:200])
            print('        output=%r' % g['output'][:120])
