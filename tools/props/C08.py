"""C08 - targeted filters change exactly their target tokens and nothing else (token filters + strip_comments)."""
from props import composite, C08_tok, C08_sc

composite.make(globals(), [('tok', C08_tok), ('sc', C08_sc)])
THEOREMS = ['Props/C08.v: C08_case_relex (ASCII re-casing never fuses/splits tokens nor changes a type: Inst/CaseInv.v, '
            'relational invariance of the regex semantics + closure of every regenerated atom under ASCII case)'] + THEOREMS  # noqa: F821
