"""C12 - identifier accessors return the written name, qualifier and alias."""
import collections

import vlib
from props import common
from props import acc_common as A

THEOREMS = ['Acc/AccFacts.v: C12_reference (for ALL name/qualifier/alias texts and ALL non-empty whitespace runs: on the Identifier '
            'shapes the grouping produces -- 3 quotings x optional qualifier x {no alias, AS alias, implicit alias} -- get_real_name, '
            'get_parent_name, get_alias, has_alias, get_name return the written parts with the quotes removed), C12_get_alias, '
            'C12_has_alias, C12_get_real_name, C12_get_parent_name, C12_get_name, alias_as_general / alias_implicit_general / '
            'alias_none_general (any head, incl. function and parenthesis targets), C12_function_target',
            'C12_shape_plain / _quoted_as / _implicit / _function / C12_reference_ex: cur_parse of concrete texts yields exactly '
            'these shapes (closed vm_compute)',
            'Inst/C12Fin.v: C12_pipeline_fin / C12_pipeline_fin_member (finite, bound in the statement: 11 contexts x 3 qualifiers x 4 '
            'quotings x 5 alias forms through the whole model pipeline: an Identifier with exactly the written text on which the five '
            'accessors return the written parts)',
            'C12_insert_implicit_alias_refuted (finding: `insert into n a (p1) ...` groups the alias with the column list)',
            'Inst/CaseInv.v + Lexer/NameWords.v: a non-dictionary word lexes as one Name token in every letter case']
TRUSTED = ['the exact accessor models (Acc/Accessors.v) are tied to the code by the `acc` correspondence: every accessor on every '
           'node of every generated tree; that the pipeline produces the canonical shapes in every syntactic context is checked by '
           'the direct oracle below over contexts x quotings x alias forms x whitespace (not yet a theorem)']
ASSUMPTIONS = ['identifier spellings that are dictionary words (int, date, user, key, ...) are outside the quantifier '
               '("every non-keyword identifier spelling") and are skipped (counted)']


def _out_of_scope(inst):
    return any(inst[k] and inst[k]['style'] == 'plain' and inst[k]['body'] in A.TRICKY_PLAIN for k in ('name', 'qualifier', 'alias'))


def _class(inst, d):
    if inst['qualifier'] and inst['name']['style'] == 'plain' and ('#' in inst['name']['body'] or '$' in inst['name']['body']):
        return 'qualified-name-with-hash-or-dollar'
    if inst['context'] == 'insert_target_cols' and inst['alias'] and not inst['as']:
        return 'insert-target-implicit-alias-before-column-list'
    ctx = inst['context'].split(':')[0]
    return 'deviation:%s:%s' % (ctx, d.get('why', '')[:40])


def _failure(inst, d):
    return {'input': [ord(c) for c in d['input']], 'inst': inst, 'class': _class(inst, d), 'expected': d.get('expected'),
            'observed': (d.get('why', '') + ': ' + str(d.get('observed'))[:300])}


def classify(f, known):
    for k in known:
        if k.get('class') == f.get('class') and not f.get('class', '').startswith('deviation:'):
            return k['id']
    return None


def rederive_known(k):
    inst = k.get('witness', {}).get('inst')
    if not inst:
        return None
    d = A.c12_check(inst)
    if d:
        f = _failure(inst, d)
        if classify(f, [k]) == k['id']:
            return f
    return None


def sweep(rng, n):
    fails, dist, skipped = [], collections.Counter(), 0
    seen = set()
    for _ in range(n):
        inst = A.c12_instance(rng)
        if _out_of_scope(inst):
            skipped += 1
            continue
        dist[inst['context'].split(':')[0]] += 1
        dist['quoting:' + '/'.join((inst[k]['style'] if inst[k] else '-') for k in ('qualifier', 'name', 'alias'))] += 1
        d = A.c12_check(inst)
        if d:
            f = _failure(inst, d)
            if f['class'] not in seen:
                seen.add(f['class'])
                fails.append(f)
    return fails, dist, skipped


def run(ctx):
    n = ctx.n(2500, 30000)
    fails, dist, skipped = sweep(ctx.rng, n)
    fails = fails + common.threshold_failures('C12', ctx.quick())
    c = A.corr(ctx.rng, ctx.n(1200, 12000))
    return {'failures': fails, 'disagreements': c['disagreements'][:20],
            'evaluations': n + c['evaluations'], 'distinct_nontrivial': c['distinct_nontrivial'],
            'rule': 'C12 instances = (qualifier?, name, alias?, quoting of each, AS?, whitespace, syntactic context: select list '
                    'first/middle/last/sole, FROM list, every JOIN spelling with/without ON, UPDATE/INSERT/DELETE target, subquery in '
                    'FROM/WHERE, operands, call argument): the parse tree must contain an Identifier whose five accessors return the '
                    'written parts; acc correspondence: every accessor on every node of generated trees, model vs implementation; '
                    'distinct_nontrivial = distinct (accessor, result shape) pairs other than None/False/empty',
            'samples': [A.c12_text(A.c12_instance(ctx.rng)) for _ in range(4)],
            'traces_validated_against_impl': c['evaluations'],
            'distribution': {'contexts_and_quotings': dict(dist), 'skipped_dictionary_words': skipped, 'acc': c['distribution'],
                             'acc_exceptions': c['exceptions']}}


def run_oracle_only(ctx):
    fails, dist, skipped = sweep(ctx.rng, ctx.n(2500, 30000))
    return {'failures': fails, 'evaluations': sum(v for k, v in dist.items() if not k.startswith('quoting')), 'distinct_nontrivial': 0,
            'rule': 'oracle only', 'samples': []}


def search(ctx, hints):
    import time
    known = [k for k in vlib.load_known_findings() if k.get('property') == 'C12' and k.get('status') == 'open']
    t0, tried = time.time(), 0
    while time.time() - t0 < ctx.n(60, 600):
        fails, _, _ = sweep(ctx.rng, 300)
        tried += 300
        new = [f for f in fails if classify(f, known) is None]
        if new:
            return {'failures': new[:1], 'tried': tried}
    return {'failures': [], 'tried': tried}


def shrink(f):
    inst = f.get('inst')
    if not inst:
        return f
    sinst, sd = A.shrink_instance(inst, A.c12_check, A.c12_simplify, lambda i, d: _class(i, d))
    return _failure(sinst, sd) if sd else f


def replay(payload):
    _f = payload.get('failure') or {}
    if _f.get('threshold_input'):
        return common.threshold_replay('C12', _f)
    f = payload.get('failure')
    if not f or 'inst' not in f:
        return {'fails': False, 'note': 'no concrete instance: ' + str(payload.get('no_longer_checks'))}
    d = A.c12_check(f['inst'])
    return {'fails': bool(d), 'observed': d}
