"""C08 (token-stream part) - keyword_case / identifier_case / truncate_strings.

"keyword_case and identifier_case change only the letter case of all keyword tokens, respectively all
identifiers not in double quotes; truncate_strings shortens only single-quoted literals longer than the
limit to their first N characters plus the marker.  Every other token comes out unchanged and in order,
no two tokens are fused or split by the edit, and applying the same filter to its own output changes
nothing."

run(ctx): correspondence of the extracted model (Filters/TokFilters.v) with sqlparse/filters/tokens.py
  str      str.upper/lower/capitalize                       vs  conv_fn
  one      lexer.tokenize(text) through ONE filter object   vs  cur_preprocess with one option
  stack    the preprocess list built by build_filter_stack  vs  cur_preprocess
  raw      filter objects on arbitrary token lists           vs  preprocess
  e2e      sqlparse.format(text, **opts)  ==  real splitter + serializer applied to the MODEL's stream
plus a direct oracle of the property on the implementation (no model involved).

A failure is {'input': code points, 'options': {...}, 'kind': ..., 'observed': ...}; kinds:
  order      length / token types / order changed
  untouched  a token outside the filter's target set changed
  case-only  a converted value differs from the original by more than letter case
  truncate   a truncated literal is not quote + first N + marker + quote, or a short one changed
  idempotent applying the same filter(s) to the output changes it
  literal    keyword_case changed text between single quotes inside a keyword token (Keyword.TZCast)
  idempotent-text  filtering the re-tokenized output text changes it again
  lexinv     a lexed Name / String.Symbol token is blank, or a String.Single token is not quoted (the
             hypotheses id_safe / singles_quoted of the theorems, as facts about the lexer)
  relex      the output text does not tokenize back to the filtered stream (tokens fused or split)
Every failure also carries 'cls', a finer class used to match the list of known findings (KNOWN_CLASSES).
"""
import collections
import itertools

import vlib
import impl
import impl_tokfilters as impf
import gens
import gens_tokfilters as gtf
from props import common

from sqlparse import lexer, tokens as T
import sqlparse

THEOREMS = ['Filters/TokFiltersFacts.v: kwcase_spec, idcase_spec, truncate_spec (exact characterisation of each filter as '
            'a map over the stream); *_types (map fst preserved); *_untouched; kwcase_idem / idcase_idem for upper and '
            'lower (from vm_compute checks of the regenerated tables); capitalize_idem_iff + *_capitalize_idem_refuted '
            '(U+0149); truncate_idem (width >= 1, literals starting with a quote) + truncate_idem_refuted']
TRUSTED = ['str.upper/lower/capitalize are modelled from tables regenerated from the running interpreter '
           '(tools/regen/gen_lexer.py, gen_case2.py); the Final_Sigma algorithm is hand-modelled and tied by the '
           'translator self-test and the `str` correspondence stage',
           'the three filter loops are hand-modelled and tied by the `one`, `stack`, `raw` correspondence stages']
ASSUMPTIONS = ['re-lexing of the output (no fusion/splitting) is checked by the oracle only, not proved']

CONVS = ['upper', 'lower', 'capitalize']
# option triples the oracle sweeps when none is given
STD_OPTS = [(k, '-', '-') for k in CONVS] + [('-', k, '-') for k in CONVS] + \
           [('-', '-', '3:91,46,46,46,93'), ('-', '-', '2:-'), ('-', '-', '5:39')]

ALL_KINDS = ('order', 'untouched', 'case-only', 'truncate', 'literal', 'idempotent', 'idempotent-text', 'relex')

# classes of failures that follow from the design of the filters in the pinned revision; witness = (text, opts)
KNOWN_CLASSES = {
    'capitalize-idem-0149': ("'capitalize' is not idempotent on a value starting with U+0149: its title-case is "
                             "U+02BC 'N' and the next application lower-cases the 'N'", ('\u0149', ('-', 'capitalize', '-'))),
    'truncate-doubled-quote': ("a literal whose content starts with an escaped quote ('''abc...') is taken to be "
                               "delimited by two quotes on each side: measured 2 short, loses its last character, gets "
                               "an extra closing quote", ("'''abcdefgh'", ('-', '-', '3:91,46,46,46,93'))),
    'kw-tzcast-literal': ("keyword_case re-cases the string literal inside an AT TIME ZONE '...' keyword token",
                          ("x at time zone 'Europe/Berlin'", ('lower', '-', '-'))),
    'relex-truncate': ("truncation cuts through an escaped quote / inserts a marker containing a quote: the output "
                       "re-tokenizes into different tokens", ("'ab''cd'", ('-', '-', '3:91,46,46,46,93'))),
    'relex-case': ('case conversion of non-ASCII letters changes how the text tokenizes',
                   ('.\ufb06art', ('upper', '-', '-'))),
    'idem-text-truncate': ('format(format(s)) differs from format(s): the unbalanced quotes left by a truncation are '
                           'read as different literals the second time', ("'''abcdefgh'", ('-', '-', '3:91,46,46,46,93'))),
    'idem-text-case': ('format(format(s)) differs from format(s): the re-cased text tokenizes differently and is '
                       're-cased differently', ('\u0390E', ('-', 'capitalize', '-'))),
}



def ckey(s):
    """Letters up to case: invariant under str.upper/lower/capitalize for every code point (checked
    exhaustively for single characters); distinguishes any other change."""
    return s.upper().casefold()


def _fail(text, opts, kind, observed, cls=None):
    return {'input': [ord(c) for c in text], 'options': {'kw': opts[0], 'id': opts[1], 'tr': opts[2]},
            'kind': kind, 'cls': cls or kind, 'observed': observed[:300]}


def _quoted_parts(v):
    import re
    return re.findall(r"'[^']*'", v)


def oracle(text, opts=None, kinds=ALL_KINDS):
    """Direct check of the property on the implementation.  opts = (kw, id, tr) in the driver's
    spelling ('-' = option absent); None sweeps STD_OPTS."""
    if opts is None:
        for o in STD_OPTS:
            f = oracle(text, o, kinds)
            if f:
                return f
        return None
    if isinstance(opts, dict):
        opts = (opts.get('kw', '-'), opts.get('id', '-'), opts.get('tr', '-'))
    kw, idc, tr = opts
    try:
        src = list(lexer.tokenize(text))
        fopts = impf.options_of(kw, idc, tr)
        out = impf.tokfmt_stream(fopts, iter(src))
    except Exception as e:  # noqa  (totality is C07's business)
        return None
    if len(src) != len(out) or [a for a, _ in src] != [a for a, _ in out]:
        return _fail(text, opts, 'order', 'token types before %r after %r' % ([str(a) for a, _ in src][:20], [str(a) for a, _ in out][:20])) \
            if 'order' in kinds else None
    width, char = impf.parse_trunc(tr) if tr != '-' else (None, None)
    for (tt, v), (_, w) in zip(src, out):
        is_kw = kw != '-' and tt in T.Keyword
        is_id = idc != '-' and (tt is T.Name or tt is T.String.Symbol) and not v.strip().startswith('"')
        is_str = tr != '-' and tt is T.String.Single
        if not (is_kw or is_id or is_str):
            if v != w and 'untouched' in kinds:
                return _fail(text, opts, 'untouched', '%s token %r became %r' % (tt, v, w))
            continue
        if is_kw or is_id:
            if ckey(v) != ckey(w) and 'case-only' in kinds:
                return _fail(text, opts, 'case-only', '%s token %r became %r' % (tt, v, w))
            if is_kw and 'literal' in kinds and _quoted_parts(v) != _quoted_parts(w):
                # the listed finding is about the rule (AT|WITH')\s+TIME\s+ZONE\s+'[^']+': a keyword token that starts with
                # AT or with WITH' (sic).  Any other keyword token with a quoted part is something else.
                return _fail(text, opts, 'literal', '%s token %r became %r' % (tt, v, w),
                             'kw-tzcast-literal' if v.lstrip().upper().startswith(('AT', "WITH'")) else 'kw-literal-other')
        if is_str and 'truncate' in kinds:
            inner = v[1:-1]
            if len(inner) > width:
                want = "'" + inner[:width] + char + "'"
                if w != want:
                    return _fail(text, opts, 'truncate', 'literal %r became %r, expected %r' % (v, w, want),
                                 'truncate-doubled-quote' if v[:2] == "''" else 'truncate-other')
            elif w != v:
                return _fail(text, opts, 'truncate', 'short literal %r became %r' % (v, w))
    if 'idempotent' in kinds:
        try:
            again = impf.tokfmt_stream(fopts, iter(out))
        except Exception as e:  # noqa
            return _fail(text, opts, 'idempotent', 'second application raises %s' % type(e).__name__)
        if again != out:
            d = next((a, b) for a, b in zip(out, again) if a != b)
            f = _fail(text, opts, 'idempotent', 'second application turns %r into %r' % (d[0][1], d[1][1]))
            if 'capitalize' in (kw, idc) and d[0][1].startswith('\u02bcN'):
                f['cls'] = 'capitalize-idem-0149'
            return f
    if 'relex' in kinds or 'idempotent-text' in kinds:
        joined = ''.join(v for _, v in out)
        try:
            re_toks = list(lexer.tokenize(joined))
            again = impf.tokfmt_stream(fopts, iter(re_toks))
        except Exception as e:  # noqa
            return None
        if 'idempotent-text' in kinds:
            j2 = ''.join(v for _, v in again)
            if j2 != joined:
                cls = 'idem-text-truncate' if tr != '-' else 'idem-text-case'
                if 'capitalize' in (kw, idc) and '\u02bcN' in joined:
                    cls = 'capitalize-idem-0149'
                elif tr != '-' and (kw, idc) != ('-', '-'):
                    g = oracle(text, (kw, idc, '-'), ('idempotent-text',))
                    if g:
                        cls = g['cls']
                return _fail(text, opts, 'idempotent-text', 'output %r filtered again gives %r' % (joined[:80], j2[:80]), cls)
        if re_toks != out and 'relex' in kinds:
            i = next((k for k, (a, b) in enumerate(zip(out, re_toks)) if a != b), min(len(out), len(re_toks)))
            return _fail(text, opts, 'relex', 'output %r: filtered stream has %r at token %d, re-tokenized %r'
                         % (joined[:60], out[i:i + 2], i, re_toks[i:i + 3]),
                         'relex-truncate' if (tr != '-' and out[i][0] is T.String.Single or
                                              (i > 0 and tr != '-' and out[i - 1][0] is T.String.Single)) else 'relex-case')
    return None


# the failures that are consequences of the filters' design rather than of a defect in this revision;
# every one is re-derived by the oracle on each run (see FINDINGS in the report)
CORE_KINDS = ('order', 'untouched', 'case-only', 'truncate', 'idempotent')


def classify(failure, known):
    """id of the known finding (entries of known_findings.json carrying 'cls') this failure belongs to."""
    for k in known:
        if k.get('cls') and k.get('cls') == failure.get('cls'):
            return k['id']
    return None


def rederive_known(k):
    """Re-run the oracle on the witness of a known class."""
    w = KNOWN_CLASSES.get(k.get('cls'))
    if not w:
        return None
    text, opts = w[1]
    for kind in ALL_KINDS:
        f = oracle(text, opts, (kind,))
        if f and f.get('cls') == k.get('cls'):
            return f
    return None



def e2e_check(text, opts, model_reply):
    """format(text, **options) must equal the real splitter+serializer applied to the model's stream."""
    fopts = impf.options_of(*opts)
    try:
        want = sqlparse.format(text, **fopts)
    except Exception as e:  # noqa
        want = 'ERR ' + type(e).__name__
    toks = impf.parse_model_toks(model_reply)
    if toks is None:
        got = model_reply
    else:
        try:
            got = impf.finish_format(toks)
        except Exception as e:  # noqa
            got = 'ERR ' + type(e).__name__
    return want, got


def _texts(ctx, n):
    out = []
    dist = collections.Counter()
    maxlen = ctx.n(300, 1500)
    for _ in range(n):
        s, kind = gtf.filter_text(ctx.rng)
        out.append(s[:maxlen])
        dist[kind] += 1
    return out, dist


def long_filter_failure(kind, text, span):
    """format(keyword_case, identifier_case, truncate_strings) on a script with one very long region: the region's body is
    untouched by the case options; a long single-quoted literal is cut to quote + first N + marker + quote."""
    a, b = span
    region = text[a:b]

    def fail(obs):
        return {'input': [ord(c) for c in text[:200]], 'options': {}, 'kind': 'long', 'class': 'long-input',
                'long_input': {'kind': kind, 'length': len(text)}, 'observed': 'long input (%s, %d characters): %s' % (kind, len(text), obs)}
    try:
        out = sqlparse.format(text, keyword_case='upper', identifier_case='upper')
    except Exception as e:  # noqa
        return fail('format raised ' + type(e).__name__)
    if region not in out:
        return fail('keyword_case/identifier_case changed the body of the region')
    if ''.join(out.replace(region, '').lower().split()) != ''.join(text.replace(region, '').lower().split()):
        return fail('case options changed more than letter case outside the region')
    if kind == 'long-string':
        try:
            out = sqlparse.format(text, truncate_strings=10)
        except Exception as e:  # noqa
            return fail('format(truncate_strings=10) raised ' + type(e).__name__)
        want = text[:a] + region[:11] + '[...]' + "'" + text[b:]
        if ''.join(out.split()) != ''.join(want.split()):
            return fail('truncate_strings=10 did not cut the literal to its first 10 characters + marker (output length %d, expected %d)'
                        % (len(out), len(want.rstrip())))
    return None


def run(ctx):
    r = ctx.rng
    res = {'disagreements': [], 'failures': []}
    dist = collections.Counter()
    evals = 0

    # ---- stage str: the three str methods
    strs = [gtf.case_text(r) for _ in range(ctx.n(3000, 30000))]
    strs += [chr(c) + t for c in (0x149, 0x3a3, 0xdf, 0x130, 0x1c5, 0xfb01) for t in ('', 'a', 'Σ', 'AΣ', 'Σ.a')]
    reqs, keys = [], []
    for s in strs:
        for cv in CONVS:
            reqs.append(f'strconv {cv} {vlib.cps(s)}')
            keys.append((cv, s))
    replies = vlib.run_model(reqs)
    nonascii = 0
    for (cv, s), rep in zip(keys, replies):
        mine = impf.strconv_dump(cv, s)
        if any(ord(c) > 127 for c in s):
            nonascii += 1
        if mine != rep:
            res['disagreements'].append({'stage': 'str.' + cv, 'input': [ord(c) for c in s], 'impl': mine[:300], 'model': rep[:300]})
    evals += len(reqs)
    dist['str'] = len(reqs)
    dist['str_nonascii'] = nonascii

    # ---- stages one / stack / e2e on lexed texts
    texts, tdist = _texts(ctx, ctx.n(2500, 25000))
    texts = common.corpus('lex')[:ctx.n(200, 2000)] + texts
    reqs, keys = [], []
    for s in texts:
        # one filter, constructed directly (any width)
        kind = r.choice(['kw', 'id', 'tr'])
        if kind == 'tr':
            param = gtf.options(r, valid_only=r.random() < 0.6)[2]
            if param == '-':
                param = '3:91,46,46,46,93'
        else:
            param = r.choice(CONVS)
        reqs.append(f'tokfilter {kind} {param} {vlib.cps(s)}')
        keys.append(('one', kind, param, s))
        o = gtf.options(r, valid_only=True)
        reqs.append(f'tokfmt {o[0]} {o[1]} {o[2]} {vlib.cps(s)}')
        keys.append(('stack', o, None, s))
    replies = vlib.run_model(reqs)
    edited = collections.Counter()
    for k, rep in zip(keys, replies):
        if k[0] == 'one':
            _, kind, param, s = k
            mine = impf.tokfilter_dump(kind, param, s)
            if mine != rep:
                res['disagreements'].append({'stage': f'one.{kind}.{param}', 'input': [ord(c) for c in s], 'impl': mine[:300], 'model': rep[:300]})
            if mine != impl.lex_dump(s):
                edited[kind] += 1
        else:
            _, o, _, s = k
            mine = impf.tokfmt_dump(o[0], o[1], o[2], s)
            if mine != rep:
                res['disagreements'].append({'stage': 'stack.%s.%s.%s' % o, 'input': [ord(c) for c in s], 'impl': mine[:300], 'model': rep[:300]})
            want, got = e2e_check(s, o, rep)
            if want != got:
                res['disagreements'].append({'stage': 'e2e.%s.%s.%s' % o, 'input': [ord(c) for c in s], 'impl': want[:300], 'model': got[:300]})
    evals += len(reqs) + len(texts)
    dist.update({'text_' + k: v for k, v in tdist.items()})
    dist.update({'edited_by_' + k: v for k, v in edited.items()})

    # ---- the two facts about lexer output that the theorems take as hypotheses (id_safe, singles_quoted)
    ninv = 0
    for s in texts:
        try:
            toks = list(lexer.tokenize(s))
        except Exception:  # noqa
            continue
        for tt, v in toks:
            if tt is T.Name or tt is T.String.Symbol:
                ninv += 1
                if v.strip() == '':
                    res['failures'].append(_fail(s, ('-', 'upper', '-'), 'lexinv', 'blank %s token %r' % (tt, v)))
            elif tt is T.String.Single:
                ninv += 1
                if len(v) < 2 or v[0] != "'" or v[-1] != "'":
                    res['failures'].append(_fail(s, ('-', '-', '3:-'), 'lexinv', 'String.Single token %r is not quoted' % v))
    dist['lexinv_tokens_checked'] = ninv

    # ---- long literal (oracle only): thresholds on token size must not change what the filters touch
    for kind, text, span in gens.long_cases(ctx.quick()):
        if kind not in ('long-string', 'long-dq-name', 'long-block-comment'):
            continue
        dist['long:' + kind] += 1
        f = long_filter_failure(kind, text, span)
        if f:
            res['failures'].append(f)
    # ---- stage raw: arbitrary token lists (not lexer-produced), any width
    reqs, keys = [], []
    for _ in range(ctx.n(2500, 20000)):
        ts = gtf.raw_tokens(r)
        o = gtf.options(r, valid_only=False)
        reqs.append(f'tokfilterraw {o[0]} {o[1]} {o[2]} {ts}')
        keys.append((o, ts))
    replies = vlib.run_model(reqs)
    nerr = 0
    for (o, ts), rep in zip(keys, replies):
        mine = impf.tokfilterraw_dump(o[0], o[1], o[2], ts)
        if mine.startswith('ERR'):
            nerr += 1
        if mine != rep:
            res['disagreements'].append({'stage': 'raw.%s.%s.%s' % o, 'tokens': ts, 'impl': mine[:300], 'model': rep[:300]})
    evals += len(reqs)
    dist['raw'] = len(reqs)
    dist['raw_IndexError'] = nerr

    # ---- direct oracle on the implementation
    otexts = [w[1][0] for w in KNOWN_CLASSES.values()] + texts[:ctx.n(1500, 15000)]
    oopts = [w[1][1] for w in KNOWN_CLASSES.values()]
    by_cls = collections.Counter()
    for i, s in enumerate(otexts):
        o = oopts[i] if i < len(oopts) else gtf.options(r, valid_only=True)
        # one failure per kind: a relex failure must not hide a core one
        for kinds in (CORE_KINDS, ('literal',), ('idempotent-text',), ('relex',)):
            f = oracle(s, o, kinds)
            if f:
                by_cls[f['cls']] += 1
                if by_cls[f['cls']] <= 3:
                    res['failures'].append(f)
    evals += len(otexts)
    dist.update({'oracle_fail_' + k: v for k, v in by_cls.items()})
    res.update({
        'evaluations': evals,
        'distinct_nontrivial': sum(edited.values()),
        'rule': 'str: model conv_fn vs str.upper/lower/capitalize on case-special texts; one: lexer + one filter object; '
                'stack: lexer + build_filter_stack(...).preprocess; e2e: sqlparse.format == real splitter/serializer on the '
                "model's stream; raw: filter objects on arbitrary token lists incl. width <= 1; oracle: property checked "
                'directly on the implementation; distinct_nontrivial = lexed inputs actually edited by the single filter',
        'samples': [t[:120] for t in texts[-5:]],
        'traces_validated_against_impl': evals - len(otexts),
        'distribution': {'generator': dict(dist), 'length_histogram': common.length_hist(texts)},
    })
    return res


def run_oracle_only(ctx):
    texts, dist = _texts(ctx, ctx.n(2500, 25000))
    fails = []
    for s in texts:
        f = oracle(s, gtf.options(ctx.rng), CORE_KINDS)
        if f:
            fails.append(f)
    return {'failures': fails, 'evaluations': len(texts), 'distinct_nontrivial': 0,
            'rule': 'oracle only (model unavailable)', 'samples': texts[:3]}


E2E_OPTS = [{'keyword_case': 'upper'}, {'identifier_case': 'upper'}, {'keyword_case': 'lower', 'strip_comments': True}]


def oracle_e2e(text, only=None):
    """The whole of sqlparse.format (serializer included) with a targeted option: every quoted token of the input (single-
    and double-quoted, back-ticked) comes out with the value it was written with, in order.  Used by the search stage on
    its candidate inputs (the stream-level oracle above does not run the serializer)."""
    def quoted(s):
        return [(str(tt), v) for tt, v in lexer.tokenize(s)
                if (tt in T.String or tt is T.Name) and v[:1] in ("'", '"', '`') and len(v) >= 2 and v[-1] == v[0]]
    for fo in ([only] if only else E2E_OPTS):
        try:
            src = quoted(text)
            out = sqlparse.format(text, **fo)
            got = quoted(out)
        except Exception:  # noqa  (totality is C07's business)
            continue
        if 'identifier_case' in fo:
            src = [x for x in src if x[1][0] != '`']
            got = [x for x in got if x[1][0] != '`']
        if src != got:
            bad = next((a for a, b in zip(src, got) if a != b), src[-1] if len(src) > len(got) else got[-1] if got else None)
            return {'input': [ord(c) for c in text], 'options': fo, 'kind': 'e2e_quoted', 'cls': 'e2e_quoted',
                    'observed': 'format(%r): quoted tokens written %r come out as %r (first difference at %r)'
                                % (fo, [v for _, v in src][:4], [v for _, v in got][:4], bad)}
    return None


def search(ctx, hints):
    return common.generic_search(ctx, hints, common.new_only('C08', lambda s: oracle(s, None, CORE_KINDS), classify),
                                 gen=lambda rng: gtf.filter_text(rng)[0], cand_oracle=oracle_e2e)


def shrink(f):
    if not f or 'input' not in f or f.get('long_input'):
        return f
    s = ''.join(map(chr, f['input']))
    opts = f.get('options')
    if f.get('kind') == 'e2e_quoted':
        _, best = common.shrink_text(s, lambda t: oracle_e2e(t, opts))
        return best or f
    kind = (f.get('kind'),) if f.get('kind') else ALL_KINDS
    def still(t):
        g = oracle(t, opts, kind)
        return g if g and g.get('cls') == f.get('cls', g.get('cls')) else None
    _, best = common.shrink_text(s, still)
    return best or f


def replay(payload):
    f = payload.get('failure')
    if not f or 'input' not in f:
        return {'fails': False, 'note': 'no concrete input in replay file: ' + str(payload.get('no_longer_checks'))}
    if f.get('long_input'):
        lc = common.long_case_text(f)
        if lc:
            g = long_filter_failure(*lc)
            return {'fails': bool(g), 'observed': g}
    if f.get('kind') == 'e2e_quoted':
        g = oracle_e2e(''.join(map(chr, f['input'])), f.get('options'))
        return {'fails': bool(g), 'observed': g}
    kind = (f.get('kind'),) if f.get('kind') else ALL_KINDS
    g = oracle(''.join(map(chr, f['input'])), f.get('options'), kind)
    return {'fails': bool(g), 'observed': g}


if __name__ == '__main__':
    import random
    import sys
    import json

    class _Ctx:
        def __init__(self, tier, seed):
            self.tier = tier
            self.rng = random.Random(f'C08_tok:{seed}')

        def n(self, quick, thorough):
            return quick if self.tier == 'quick' else thorough

    tier = sys.argv[1] if len(sys.argv) > 1 else 'quick'
    out = run(_Ctx(tier, sys.argv[2] if len(sys.argv) > 2 else '0'))
    print(json.dumps({k: v for k, v in out.items() if k not in ('disagreements', 'failures')},
                     ensure_ascii=True, indent=1)[:3000])
    print('disagreements', len(out['disagreements']))
    for d in out['disagreements'][:10]:
        print(json.dumps(d, ensure_ascii=True)[:600])
    print('failures', len(out['failures']), collections.Counter(f['cls'] for f in out['failures']))
    seen = set()
    for f in out['failures'][len(KNOWN_CLASSES):]:
        if f['cls'] not in seen:
            seen.add(f['cls'])
            print(json.dumps(shrink(f), ensure_ascii=True)[:700])
