"""C13 - clause nodes cover exactly the clause as written.

Direct oracles on the REAL library over generated instances of the verification grammar whose expected structure
is known by construction (gens_C13: the query is an AST; the renderer records the character spans of every
written WHERE condition, list item, call argument, CASE part, comparison operand and typed literal).
Every deviation gets a MECHANISM signature (`sig`) computed from what the tree actually looks like at that place
(the class / token type of the node that breaks the expected structure), is shrunk on the AST, and is classified
against the known findings by narrow predicates on that signature."""
import collections
import copy
import json
import random

import vlib
import impl
import gens
import gens_C13 as G
from props import common

THEOREMS = [
    'Group/ClauseFacts.v: f_where_spec / group_where_spec (group_where = where_spec / where_rec on every tree with the '
    'bracket shape), f_functions_spec / group_functions_spec, group_loop_join / group_driver_join (_group with '
    'post=(pidx|tidx,nidx) = join_spec / join_rec) instantiated: typed1_loop_spec, typed2_loop_spec, '
    'comparison_loop_spec, identifier_list_loop_spec, group_typed_literal_spec, group_comparison_spec, '
    'group_identifier_list_spec',
    'identifier_list_one_group (a0 , a1 , ... any number of items = ONE IdentifierList), comparison_chain (nests left), '
    'where_extent / where_extent_end / where_swallows_where, function_call, typed1_literal, typed2_extend, '
    'join_first_not_grouped',
    'Inst/C13Fin.v: C13_where_fin (6 conditions x 11 followers x 3 nestings), C13_idlist_fin, C13_function_fin, '
    'C13_function_args_fin, C13_typed_fin, C13_comparison_fin (closed evaluation of the whole pipeline)']
TRUSTED = ['hand-written models of group_where / group_functions / _group (tied by the parse correspondence after every pass)',
           'the accessors get_identifiers / get_parameters / get_cases / left / right are exercised on the implementation '
           'by the oracle below (their model is a separate slice)']
ASSUMPTIONS = ['the deviations listed as known findings F20.. (see propose_known())']

LISTABLE_CLS = ('Function', 'Case', 'Identifier', 'Comparison', 'IdentifierList', 'Operation')
CMP_CLS = ('Parenthesis', 'Function', 'Identifier', 'Operation', 'TypedLiteral')


# ------------------------------------------------------------------------------------------------------------
# the tree with character spans
# ------------------------------------------------------------------------------------------------------------
class Tree:
    def __init__(self, text):
        import sqlparse
        self.text = text
        self.stmts = sqlparse.parse(text)
        self.nodes = []          # (start, end, node, parent, depth)
        pos = 0
        for st in self.stmts:
            pos = self._walk(st, None, pos, 0)
        self.total = pos
        self.by_span = collections.defaultdict(list)
        self.by_start = collections.defaultdict(list)
        for rec in self.nodes:
            self.by_span[(rec[0], rec[1])].append(rec)
            self.by_start[rec[0]].append(rec)
        self.span_of = {id(rec[2]): (rec[0], rec[1]) for rec in self.nodes}
        self.parent_of = {id(rec[2]): rec[3] for rec in self.nodes}

    def _walk(self, n, parent, pos, depth):
        start = pos
        idx = len(self.nodes)
        self.nodes.append(None)
        if n.is_group:
            for k in n.tokens:
                pos = self._walk(k, n, pos, depth + 1)
        else:
            pos += len(n.value)
        self.nodes[idx] = (start, pos, n, parent, depth)
        return pos

    def exact(self, s, e, cls=None):
        """nodes spanning exactly [s, e), outermost first"""
        return [r[2] for r in self.by_span.get((s, e), []) if cls is None or type(r[2]).__name__ == cls]

    def starting(self, s, cls):
        return [r[2] for r in self.by_start.get(s, []) if type(r[2]).__name__ == cls]

    def leaf_at(self, off):
        for r in self.by_start.get(off, []):
            if not r[2].is_group:
                return r[2]
        return None

    def smallest_containing(self, s, e):
        best = None
        for r in self.nodes:
            if r[0] <= s and e <= r[1] and r[2].is_group:
                if best is None or (r[1] - r[0], -r[4]) <= (best[1] - best[0], -best[4]):
                    best = r
        return best[2] if best else None

    def span(self, n):
        return self.span_of[id(n)]


def kind_of(n):
    if n is None:
        return 'None'
    if n.is_group:
        return type(n).__name__
    return str(n.ttype).replace('Token.', '')


def describe_piece(tr, s, e):
    """how the written piece [s, e) sits in the tree: 'one:<kind>' if it is exactly one node, otherwise
    'split:<kinds of the maximal nodes it is made of>' (a trailing '!' when one of its parts shares a node with
    text outside the piece)."""
    ex = tr.exact(s, e)
    if ex:
        return 'one:' + kind_of(ex[0]), ex[0]
    host = tr.smallest_containing(s, e)
    if host is None:
        return 'split:?', None
    parts = []
    crossing = [False]

    def cover(n):
        for k in n.tokens:
            ks, ke = tr.span(k)
            if ke <= s or ks >= e:
                continue
            if ks >= s and ke <= e:
                if k.is_whitespace:
                    continue
                if not k.is_group and k.is_keyword:
                    parts.append('kw:' + k.normalized.upper())
                else:
                    parts.append(kind_of(k))
            elif k.is_group:
                crossing[0] = True
                cover(k)
            else:
                crossing[0] = True
                parts.append('part-of:' + kind_of(k))
    cover(host)
    short = []
    for p in parts:
        if not short or short[-1] != p:
            short.append(p)
    desc_has_arrow[0] = '->' in tr.text[s:e]
    desc_arrow_rhs[0] = _arrow_rhs(tr.text[s:e]) if desc_has_arrow[0] else None
    import re
    desc_has_sign[0] = bool(re.search(r'\S\s*[-+]\.?\d', tr.text[s:e]))
    desc_has_index[0] = bool(re.search(r'[\w"`\]]\[', tr.text[s:e]))
    return 'split:' + ' '.join(short[:6]) + ('!' if crossing[0] else ''), None


VALID_OP = {'Identifier', 'Function', 'Parenthesis', 'Operation', 'TypedLiteral', 'SquareBrackets',
            'Literal.Number.Integer', 'Literal.Number.Float', 'Literal.Number', 'Literal.String.Single',
            'Literal.String.Symbol', 'Literal.String', 'Name', 'Name.Placeholder', 'kw:CURRENT_DATE',
            'kw:CURRENT_TIMESTAMP', 'kw:CURRENT_TIME'}
PRED_KW = ('AND', 'OR', 'IS', 'BETWEEN', 'IN', 'EXISTS', 'NOT', 'NOT NULL')


desc_has_arrow = [False]
desc_arrow_rhs = [None]      # kind of what is written right of the first -> / ->> whose right operand is no name/string


def _arrow_rhs(txt):
    import re
    for m in re.finditer(r'->>?\s*', txt):
        rest = txt[m.end():]
        if re.match(r'(?i)(date|timestamp|interval)\b', rest):
            return 'TypedLiteral'
        if re.match(r'(?i)case\b', rest):
            return 'Case'
        if re.match(r'(?i)(true|false|null|current_date|current_timestamp|current_time)\b', rest):
            return 'kw:' + re.match(r'\w+', rest).group(0).upper()
        if re.match(r'\d*\.\d|\d+[eE]', rest):
            return 'Literal.Number.Float'
        if re.match(r'0[xX]', rest):
            return 'Literal.Number.Hexadecimal'
        if re.match(r'\d', rest):
            return 'Literal.Number.Integer'
        if rest[:1] == '(':
            return 'Parenthesis'
        if re.match(r'[%?:$]', rest):
            return 'Name.Placeholder'
        if re.match(r'\w+\(', rest):
            return 'Function'
        if rest[:2] == '$$' or re.match(r'\$\w*\$', rest):
            return 'Literal'
    return None
desc_has_sign = [False]
desc_has_index = [False]


def split_cause(desc):
    """the first reason why the parts of a written piece were not glued into one node (from 'split:<kinds>')"""
    parts = desc[len('split:'):].rstrip('!').split(' ')
    parts = [p for p in parts if p]
    joined = ' '.join(parts)
    if 'Error' in parts:
        return 'lexer-error-token'
    for p in parts:
        if p.startswith('kw:') and p[3:] in PRED_KW:
            return 'predicate-keyword:' + p[3:]
    if len(parts) >= 2 and parts[0] == 'Operator' and parts[1] == 'Identifier':
        return 'sigil-name'
    for i, p in enumerate(parts):
        if p not in ('Operator', 'Wildcard', 'Operator.Comparison') and not p.startswith('kw:') and \
                i + 1 < len(parts) and parts[i + 1].startswith('Literal.Number') and desc_has_sign[0]:
            return 'sign-fused-with-number'
    if desc_has_sign[0] and parts and all(p.startswith('Literal.Number') for p in parts):
        # only the signed number is left of the written piece (`1.5-1e10` lexes as 1.5, -1e10 and the list starts at -1e10)
        return 'sign-fused-with-number'
    opnd = [not (p in ('Operator', 'Wildcard', 'Operator.Comparison') or p.startswith('kw:') and p[3:] in PRED_KW)
            for p in parts]
    if desc_has_sign[0] and any(opnd[i] and opnd[i + 1] and parts[i + 1] != 'SquareBrackets' and
                                (parts[i + 1].startswith('Literal.Number') or parts[i + 1] in ('Operation', 'Identifier'))
                                for i in range(len(parts) - 1)) and not desc_has_index[0]:
        return 'sign-fused-with-number'
    for i, p in enumerate(parts):
        if p == 'SquareBrackets' and i > 0:
            return 'array-index-not-grouped'
    if desc_has_index[0] and (desc.endswith('!') or set(parts) <= {'Identifier', 'SquareBrackets'}):
        return 'array-index-not-grouped'
    if parts and parts[0] == 'Identifier' and desc.endswith('!') and len(parts) == 1:
        return 'array-index-not-grouped'
    for i, p in enumerate(parts):
        if p in ('Operator', 'Wildcard', 'Operator.Comparison') and 0 < i < len(parts) - 1:
            for q in (parts[i - 1], parts[i + 1]):
                if q not in VALID_OP:
                    return ('operation' if p != 'Operator.Comparison' else 'comparison') + '-operand:' + q
            return 'operator-other:' + p
    if 'Wildcard' in parts and len(parts) >= 2 and parts[-1] != 'Identifier':
        return 'operation-operand:Wildcard'
    if len(parts) == 2 and parts[0] in ('Identifier', 'Operation') and desc_has_arrow[0]:
        return 'arrow-right-operand:' + parts[1]
    if len(parts) == 1 and parts[0] in ('Identifier', 'Operation') and desc_has_arrow[0] and desc_arrow_rhs[0]:
        # the item is cut right after the arrow (the rest lies outside the list): `a->>TIMESTAMP '..'`
        return 'arrow-right-operand:' + desc_arrow_rhs[0]
    if len(parts) >= 2 and parts[-1] == 'Identifier':
        if len(parts) >= 3 and parts[-2] == 'kw:AS':
            return 'alias-after:' + parts[-3]
        return 'alias-after:' + parts[-2]
    return 'other:' + joined


def listable(n):
    from sqlparse import tokens as T
    if n.is_group:
        return type(n).__name__ in LISTABLE_CLS
    if n.match(T.Keyword, ('null', 'role')):
        return True
    return n.ttype in (T.Number, T.Number.Integer, T.Number.Float, T.String, T.String.Single, T.String.Symbol,
                       T.Name, T.Name.Placeholder, T.Keyword, T.Comment, T.Wildcard)


def cmp_operand_ok(n):
    from sqlparse import tokens as T
    if n.is_group:
        return type(n).__name__ in CMP_CLS
    if n.is_keyword and n.normalized == 'NULL':
        return True
    return n.ttype in (T.Number, T.Number.Integer, T.Number.Float, T.String, T.String.Single, T.String.Symbol,
                       T.Name, T.Name.Placeholder)


# ------------------------------------------------------------------------------------------------------------
# the checks; each returns a list of (sig, detail)
# ------------------------------------------------------------------------------------------------------------
def check_where(tr, c):
    s = c['kw'][0]
    ws = tr.starting(s, 'Where')
    if not ws:
        leaf = tr.leaf_at(s)
        par = tr.parent_of.get(id(leaf)) if leaf is not None else None
        if leaf is None or not (leaf.is_keyword and leaf.normalized == 'WHERE'):
            return [('where:keyword-not-lexed:' + kind_of(leaf), '')]
        if type(par).__name__ == 'Where':
            ps, pe = tr.span(par)
            mid = tr.text[ps:s]
            import re
            setops = re.findall(r'\b(INTERSECT|MINUS)\b', mid, re.I)
            resp = re.findall(r'\b(ORDER|GROUP|UNION)(\s\s+|[\t\r\n]\s*)(BY|ALL)\b', mid, re.I)
            why = ':after-' + setops[-1].upper() if setops else ':after-closer-with-inner-whitespace' if resp else ''
            return [('where:no-node:inside-earlier-where' + why,
                     'WHERE at %d lies inside the Where node %r' % (s, tr.text[ps:pe][:60]))]
        return [('where:no-node:parent-' + kind_of(par), '')]
    w = ws[0]
    e = tr.span(w)[1]
    if e == c['end']:
        return []
    if e < c['end'] and c['end'] == len(tr.text) and tr.text[e:].strip() == '':
        return []          # the whitespace after the last statement terminator belongs to no statement
    if e > c['end']:
        leaf = tr.leaf_at(c['end'])
        import re
        if c.get('closer') and leaf is not None and leaf.is_keyword and leaf.normalized != c['closer'] and \
                re.sub(r'\s+', ' ', leaf.normalized) == c['closer']:
            return [('where:overrun:closer-inner-whitespace:' + c['closer'].replace(' ', '_'),
                     'the keyword token %r has normalized %r; Where node is %r' % (leaf.value, leaf.normalized, tr.text[s:e][:60]))]
        if c.get('closer') and leaf is not None and not (leaf.is_keyword and leaf.normalized == c['closer']):
            return [('where:overrun:closer-%s-lexed-as:%s:%s' % (c['closer'].replace(' ', '_'), kind_of(leaf),
                                                                 leaf.normalized.upper() if leaf.is_keyword else ''),
                     'Where node is %r' % tr.text[s:e][:80])]
        return [('where:overrun:past-' + (c.get('closer') or 'end').replace(' ', '_'),
                 'Where node is %r' % tr.text[s:e][:80])]
    leaf = tr.leaf_at(e)
    return [('where:underrun:stops-before:%s:%s' % (kind_of(leaf), (leaf.normalized.upper()[:12] if leaf is not None else '')),
             'Where node is %r, expected %r' % (tr.text[s:e][:60], tr.text[s:c['end']][:80]))]


def diag_items(tr, items):
    """why the written items are not the children of one IdentifierList"""
    nodes = []
    for it in items:
        d, n = describe_piece(tr, it[0], it[1])
        if n is None:
            return 'item-split:' + split_cause(d)
        nodes.append(n)
    for n in nodes:
        if not listable(n):
            return 'item-not-listable:' + kind_of(n)
    pars = [tr.parent_of.get(id(n)) for n in nodes]
    for i in range(len(nodes) - 1):
        if pars[i] is not pars[i + 1] or type(pars[i]).__name__ != 'IdentifierList':
            return 'not-joined:%s,%s:parents-%s,%s' % (kind_of(nodes[i]), kind_of(nodes[i + 1]),
                                                       kind_of(pars[i]), kind_of(pars[i + 1]))
    return None


def check_idlist(tr, c):
    items = c['items']
    s, e = items[0][0], items[-1][1]
    ls = tr.exact(s, e, 'IdentifierList')
    want = [(it[0], it[1]) for it in items]
    if ls:
        got = [tr.span(t) for t in ls[0].get_identifiers()]
        if got == want:
            return []
        d = diag_items(tr, items)
        return [('idlist:%s:identifiers-differ:%s' % (c['role'], d or 'other'),
                 'get_identifiers() = %r' % [tr.text[a:b] for a, b in got][:6])]
    d = diag_items(tr, items)
    if d is None:
        par = tr.parent_of.get(id(tr.exact(items[0][0], items[0][1])[0]))
        ps, pe = tr.span(par)
        side = ('left' if ps < s else '') + ('right' if pe > e else '')
        nxt = tr.leaf_at(e) if pe > e else None
        return [('idlist:%s:list-larger:%s' % (c['role'], side), 'IdentifierList is %r' % tr.text[ps:pe][:80])]
    return [('idlist:%s:%s' % (c['role'], d), 'written items %r' % [tr.text[a:b] for a, b in want][:6])]


def check_function(tr, c):
    s, e = c['span']
    fs = tr.exact(s, e, 'Function')
    if not fs:
        st = tr.starting(s, 'Function')
        if st:
            return [('function:span-differs', 'Function node is %r' % str(st[0])[:60])]
        leaf = tr.leaf_at(s)
        return [('function:no-node:name-lexed-as:' + kind_of(leaf), 'name %r' % c['name'])]
    f = fs[0]
    want = [(a[0], a[1]) for a in c['args']]
    try:
        got = [tr.span(t) for t in f.get_parameters()]
    except Exception as ex:  # noqa
        return [('params:exception:' + type(ex).__name__, str(ex)[:80])]
    if got == want:
        return []
    detail = 'get_parameters() = %r, written %r' % ([tr.text[a:b] for a, b in got][:6],
                                                    [tr.text[a:b] for a, b in want][:6])
    if len(want) == 1:
        d, n = describe_piece(tr, want[0][0], want[0][1])
        if n is None:
            return [('params:sole-arg:item-split:' + split_cause(d), detail)]
        if not got:
            return [('params:sole-arg-dropped:' + kind_of(n), detail)]
        return [('params:sole-arg-differs:' + kind_of(n), detail)]
    d = diag_items(tr, c['args'])
    if d is None:
        return [('params:differs:other', detail)]
    return [('params:list:' + d, detail)]


def check_case(tr, c):
    s, e = c['span']
    cs = tr.exact(s, e, 'Case')
    if not cs:
        return [('case:no-node', '')]
    try:
        raw = cs[0].get_cases()
    except Exception as ex:  # noqa
        return [('case:exception:' + type(ex).__name__, str(ex)[:80])]

    def txt(toks):
        return None if toks is None else ''.join(str(t) for t in toks)
    got = [(txt(a), txt(b)) for a, b in raw]
    want = [(None if a is None else tr.text[a[0]:a[1]], tr.text[b[0]:b[1]]) for a, b in c['parts']]

    def norm(l):
        return [(None if a is None else a.strip(), b.strip()) for a, b in l]
    if norm(got) == norm(want):
        return []
    out = []
    work = list(got)
    if work and work[0][0] is not None and work[0][0].strip() == '' and work[0][1] == '':
        out.append(('case:leading-whitespace-pseudo-case', 'get_cases()[0] = %r' % (work[0],)))
        work = work[1:]
    elif c.get('operand') and work and work[0][1] == '' and work[0][0] is not None and \
            work[0][0].strip() == tr.text[c['operand'][0]:c['operand'][1]]:
        out.append(('case:operand-pseudo-case', 'get_cases()[0] = %r' % (work[0],)))
        work = work[1:]
    if norm(work) != norm(want):
        out.append(('case:parts-differ', 'get_cases() = %r, written %r' % (norm(work)[:4], norm(want)[:4])))
    return out


def check_cmp(tr, c):
    if c.get('ambiguous'):
        return []
    s, e = c['l'][0], c['r'][1]
    cs = tr.exact(s, e, 'Comparison')
    if cs:
        n = cs[0]
        if tr.span(n.left) == tuple(c['l']) and tr.span(n.right) == tuple(c['r']):
            return []
        return [('cmp:left-right-differ', 'left %r right %r' % (str(n.left)[:30], str(n.right)[:30]))]
    op = tr.leaf_at(c['op'][0])
    from sqlparse import tokens as T
    if op is not None and tr.span(op)[1] > c['op'][1]:
        return [('cmp:operator-fused-with-operand:%s:%s' % (kind_of(op), op.value), 'written operator ' + c['opv'])]
    if op is None or op.ttype != T.Operator.Comparison or tr.span(op) != tuple(c['op']):
        return [('cmp:operator-lexed-as:%s:%s' % (kind_of(op), c['opv']), '')]
    for side in ('l', 'r'):
        d, n = describe_piece(tr, c[side][0], c[side][1])
        if n is None:
            return [('cmp:no-node:operand-split:' + split_cause(d), 'tag %s, parts %s' % (c[side + 'tag'], d))]
        if not cmp_operand_ok(n):
            return [('cmp:no-node:operand-not-accepted:' + kind_of(n), 'tag ' + c[side + 'tag'])]
    st = [x for x in tr.starting(s, 'Comparison')]
    if st:
        return [('cmp:span-differs', 'Comparison node is %r' % str(st[0])[:60])]
    return [('cmp:no-node:other', '')]


def check_typed(tr, c):
    s, e = c['span']
    if tr.exact(s, e, 'TypedLiteral'):
        return []
    st = tr.starting(s, 'TypedLiteral')
    if st:
        se = tr.span(st[0])[1]
        if se < e:
            return [('typed:unit-not-absorbed:' + str(c.get('unit')), 'node %r' % str(st[0]))]
        return [('typed:overrun', 'node %r' % str(st[0])[:60])]
    leaf = tr.leaf_at(s)
    par = tr.parent_of.get(id(leaf)) if leaf is not None else None
    first = None
    if par is not None:
        for k in par.tokens:
            if not k.is_whitespace:
                first = k
                break
    if first is leaf:
        return [('typed:no-node:first-token-of-' + kind_of(par), '')]
    return [('typed:no-node:opener-lexed-as:%s:%s' % (kind_of(leaf), c['kw']), '')]


CHECKERS = {'where': check_where, 'idlist': check_idlist, 'function': check_function, 'case': check_case,
            'cmp': check_cmp, 'typed': check_typed}


def region(c):
    k = c['kind']
    if k == 'where':
        return c['kw'][0], c['level_end']
    if k == 'idlist':
        return max(0, c['items'][0][0] - 12), c['items'][-1][1] + 16
    if k == 'cmp':
        return c['l'][0], c['r'][1] + 2
    return c['span'][0], c['span'][1] + 2


def lex_anomalies(tr, kws):
    """keywords the renderer wrote that did not come out of the lexer as one keyword-ish token:
    (start, end, canonical, cause)"""
    from sqlparse import tokens as T
    import re
    out = []
    for s, e, canon in kws:
        leaf = tr.leaf_at(s)
        ok = leaf is not None and leaf.ttype not in (T.Name, T.Name.Placeholder) and leaf.ttype not in T.Error \
            and (tr.span(leaf) == (s, e) or (' ' in canon and canon not in G.CLOSERS and tr.span(leaf)[1] < e))
        if ok:
            continue
        rest = tr.text[e:e + 8]
        written = tr.text[s:e]
        if ' ' in canon and re.sub(r'\s+', ' ', written).upper() == canon and written.upper() != canon:
            cause = 'inner-whitespace-respelled'
        elif re.match(r'\s*\.', rest) and leaf is not None and leaf.ttype is T.Name:
            cause = 'before-dot'
        elif rest.startswith('(') and leaf is not None and leaf.ttype is T.Name:
            cause = 'before-paren'
        else:
            cause = 'as-' + kind_of(leaf)
        out.append((s, e, canon, cause))
    return out


def run_checks(text, checks, kws=()):
    """all deviations of the real library on one text: list of failure dicts"""
    try:
        tr = Tree(text)
    except Exception as ex:  # noqa   (totality is C07's business; still reported)
        return [{'sig': 'parse:exception:' + type(ex).__name__, 'check': None, 'detail': str(ex)[:100]}]
    out = []
    if tr.total != len(text) and text[tr.total:].strip() != '':
        return [{'sig': 'parse:text-not-preserved', 'check': None, 'detail': ''}]
    anomalies = lex_anomalies(tr, kws)
    from sqlparse import tokens as T
    leaves = [r for r in tr.nodes if not r[2].is_group]
    for i, r in enumerate(leaves):
        n = r[2]
        if n.ttype in T.Error:
            anomalies.append((r[0], r[1], 'error-token', 'error-token'))
        elif n.ttype is T.Operator and n.value in ('@', '#', '##') and i + 1 < len(leaves) and \
                leaves[i + 1][2].ttype is T.Name:
            anomalies.append((r[0], r[1], 'sigil-name', 'sigil-name'))
        elif n.ttype is T.Name and n.value.endswith('#') and len(n.value) > 1:
            anomalies.append((r[0], r[1], 'hash-ends-name', 'hash-ends-name'))
        elif n.ttype in T.Comment:
            anomalies.append((r[0], len(text), 'unwritten-comment', 'unwritten-comment'))   # no comment was written
    anomalies.sort()
    leaf_starts = {r[0] for r in leaves}
    for c in checks:
        for sig, detail in CHECKERS[c['kind']](tr, c):
            lo, hi = region(c)
            lex = [a for a in anomalies if lo <= a[0] < hi or (a[3] == 'unwritten-comment' and a[0] < hi)]
            if not lex:
                starts = [c['span'][0]] if 'span' in c else [c['l'][0], c['op'][0], c['r'][0]] if c['kind'] == 'cmp' \
                    else [it[0] for it in c['items']] if c['kind'] == 'idlist' else [c['kw'][0]]
                starts += [a[0] for a in c.get('args', [])]
                bad = [x for x in starts if x not in leaf_starts]
                if bad:
                    lex = [(bad[0], bad[0] + 1, 'piece-starts-inside-token', 'piece-starts-inside-token')]
            used = [k for k in kws if lo <= k[0] < hi]
            if lex:
                a = lex[0]
                what = ('keyword-%s:%s' % (a[3], a[2].replace(' ', '_'))) if a[2] != a[3] else a[3]
                sig2 = 'lex:%s|%s' % (what, c['kind'] + (':' + c['role'] if 'role' in c else ''))
                detail = 'text %r at %d is not lexed as written (%s); symptom: %s %s' % (text[a[0]:a[1]], a[0], a[3], sig, detail)
                sig = sig2
            out.append({'sig': sig, 'check': c, 'detail': detail, 'kws': used})
    return out


# ------------------------------------------------------------------------------------------------------------
# cases
# ------------------------------------------------------------------------------------------------------------
def make_case(ast, layout, recase, seed, tail, family):
    text, checks, kws = G.render_case(ast, layout, recase, seed, tail)
    return {'ast': ast, 'layout': layout, 'recase': recase, 'seed': seed, 'tail': tail, 'family': family,
            'text': text, 'checks': checks, 'kws': kws}


def gen_case(rng):
    g = G.AstGen(rng, max_depth=rng.choice([1, 2, 2, 3]))
    r = rng.random()
    label = None
    if r < 0.40:
        ast, family = g.statement(), 'grammar'
    elif r < 0.65:
        ast, family = g.where_family(), 'where-family'
    else:
        ast, label = g.kinds_family()
        family = 'kinds:' + label.split(':')[0]
    layout = rng.choice(['canon', 'canon', 'random'])
    recase = rng.choice([None, 'upper', 'lower', 'random'])
    tail = rng.choice(['', '', ';', ' ;', ';\n', ' '])
    case = make_case(ast, layout, recase, rng.randrange(1 << 30), tail, family)
    case['label'] = label
    return case


def failures_of(case):
    out = []
    for d in run_checks(case['text'], case['checks'], case['kws']):
        out.append({'input': [ord(ch) for ch in case['text']], 'text': case['text'], 'sig': d['sig'],
                    'observed': (d['sig'] + ' -- ' + d['detail'])[:300], 'check': d['check'], 'kws': d.get('kws', []),
                    'case': {k: case[k] for k in ('ast', 'layout', 'recase', 'seed', 'tail', 'family')}})
    return out


def oracle(text, checks=None, kws=()):
    """first deviation on a text with recorded checks (replay form)"""
    if checks is None:
        return None
    ds = run_checks(text, checks, kws)
    if not ds:
        return None
    d = ds[0]
    return {'input': [ord(ch) for ch in text], 'sig': d['sig'], 'observed': (d['sig'] + ' -- ' + d['detail'])[:300],
            'check': d['check']}


def sig_class(sig):
    """the part of the signature that identifies the mechanism (roles and sides are kept; free text is not)"""
    return sig


def shrink(f):
    """AST-level shrinking: the smallest tree (canonical layout first) that still shows the same signature"""
    case = f.get('case')
    if not case:
        return f
    sig = f['sig']

    def fails(ast, layout, recase, seed, tail):
        c = make_case(ast, layout, recase, seed, tail, case.get('family'))
        for g in failures_of(c):
            if g['sig'] == sig:
                return g
        return None
    best = f
    cur = dict(case)
    # layout / case / tail first
    for layout, recase, tail in (('canon', None, ''), ('canon', cur['recase'], ''), ('canon', cur['recase'], cur['tail']),
                                 (cur['layout'], None, '')):
        g = fails(cur['ast'], layout, recase, cur['seed'], tail)
        if g:
            cur.update(layout=layout, recase=recase, tail=tail)
            best = g
            break
    changed = True
    rounds = 0
    while changed and rounds < 200:
        changed = False
        rounds += 1
        for cand in G.candidates(cur['ast']):
            try:
                g = fails(cand, cur['layout'], cur['recase'], cur['seed'], cur['tail'])
            except Exception:  # noqa
                g = None
            if g:
                cur['ast'] = cand
                best = g
                changed = True
                break
    return best


# ------------------------------------------------------------------------------------------------------------
# classes of the known findings: NARROW predicates on the mechanism signature
# ------------------------------------------------------------------------------------------------------------
import re as _re

KINDS_UNLISTABLE = r'(Literal|Literal\.Number\.Hexadecimal|Parenthesis|TypedLiteral)'
LISTS = r'(idlist:(select|from|group-by|order-by)|params:list|params:sole-arg)'
# class -> (regex on the mechanism signature, inside the property's wording?, what fails)
CLASSES = collections.OrderedDict([
    ('case-get_cases-leading-whitespace-entry',
     (r'^case:leading-whitespace-pseudo-case$', True,
      "Case.get_cases() (default skip_ws=False) yields a first entry ([whitespace], []) that is no written WHEN/THEN/ELSE "
      "part: the whitespace after CASE is appended in CONDITION mode before any WHEN was seen")),
    ('case-get_cases-operand-entry',
     (r'^case:operand-pseudo-case$', True,
      "for CASE <operand> WHEN ..., get_cases() yields the operand as a first (condition, []) entry")),
    ('params-sole-argument-dropped',
     (r'^params:sole-arg-dropped:(Case|Comparison|Keyword|Name\.Placeholder|Operation|Parenthesis|Wildcard)$', True,
      "Function.get_parameters() returns [] for a sole argument that is not an Identifier/Function/TypedLiteral node or "
      "a Literal token (a+1, NULL, *, (a), a=1, CASE..END, ?)")),
    ('list-cut-at-unlistable-item',
     (r'^' + LISTS + r':item-not-listable:' + KINDS_UNLISTABLE + r'$', True,
      "group_identifier_list does not accept Parenthesis, TypedLiteral, hexadecimal numbers and dollar-quoted literals "
      "as list items: the written list is not one IdentifierList and get_identifiers()/get_parameters() lose items")),
    ('predicate-item-not-one-node',
     (r'^' + LISTS + r':item-split:predicate-keyword:(AND|OR|IS|BETWEEN|IN|EXISTS|NOT|NOT NULL)$', True,
      "an item/argument that is a predicate (a AND b, a IS NULL, a BETWEEN .., a IN (..), EXISTS (..)) is never grouped "
      "into one node; the comma grouping then joins only its last/first token with the neighbouring item")),
    ('alias-after-unaliasable-item',
     (r'^idlist:[\w-]+:item-split:alias-after:(Literal|Literal\.String\.Single|Name\.Placeholder|TypedLiteral|Wildcard|'
      r'kw:(CURRENT_DATE|CURRENT_TIMESTAMP|FALSE|NULL|TRUE))$', True,
      "group_aliased/group_as do not attach an alias to a TypedLiteral, string, dollar literal, placeholder or keyword "
      "literal: `DATE '2020-01-01' d, a` yields the items [.., `d`, `a`] instead of the written ones")),
    ('array-index-below-top-level',
     (r':(item-split|operand-split):array-index-not-grouped$', True,
      "group_arrays runs with recurse=False: name[index] below the statement's top level stays Identifier + "
      "SquareBrackets, so it is neither one list item / argument nor a comparison operand")),
    ('comparison-operand-class-not-accepted',
     (r'^cmp:no-node:operand-not-accepted:(Case|Comparison|Keyword|Literal|Literal\.Number\.Hexadecimal|Wildcard)$', False,
      "group_comparison builds no Comparison when an operand is a Case, a keyword literal other than NULL (TRUE, FALSE, "
      "CURRENT_DATE), a hexadecimal number, a dollar-quoted literal or *")),
    ('operation-operand-class-not-accepted',
     (r':(item-split|operand-split):((operation|comparison)-operand:(Case|Comparison|Literal|Literal\.Number\.Hexadecimal|'
      r'Wildcard|kw:(FALSE|NULL|TRUE))|operator-other:(Operator(\.Comparison)?|Wildcard))$', True,
      "group_operator / group_comparison do not accept the operand, so the written expression is several sibling nodes")),
    ('arrow-operator-right-operand-not-name',
     (r':(item-split|operand-split):arrow-right-operand:(Literal|Name\.Placeholder|TypedLiteral|kw:\w+|Case|Literal\.Number\.\w+|Parenthesis|Function)$', True,
      "group_period treats -> and ->> like the dot: with a right operand that is no name/string the arrow is glued to "
      "the left operand alone (Identifier `a->`) and the written expression is two sibling nodes")),
    ('where-inside-where-after-INTERSECT-MINUS',
     (r'^where:no-node:inside-earlier-where:after-(INTERSECT|MINUS)$', True,
      "INTERSECT / MINUS are not in Where.M_CLOSE and group_where continues after the group it made: the WHERE of the "
      "right-hand query lies inside the first Where node and gets no node of its own")),
    ('where-closer-keyword-with-inner-whitespace',
     (r'^where:(overrun:closer-inner-whitespace:(ORDER_BY|GROUP_BY|UNION_ALL)|no-node:inside-earlier-where:after-closer-with-inner-whitespace)$',
      True,
      "ORDER BY / GROUP BY / UNION ALL written with anything but one blank inside is ONE keyword token whose normalized "
      "value keeps that whitespace; Token.match against Where.M_CLOSE fails and the Where node runs on")),
    ('lex-keyword-before-dot-number',
     (r'^lex:keyword-before-dot:', True,
      "SQL_REGEX rule [A-ZÀ-Ü]\\w*(?=\\s*\\.) lexes any word followed by optional whitespace and a dot as Name: a keyword "
      "before a number written .5 (WHERE .5, LIMIT .5, THEN .5, LIKE .5) is no keyword")),
    ('lex-keyword-directly-before-paren',
     (r'^lex:keyword-before-paren:(EXISTS|OVER)\|', True,
      "EXISTS( and OVER( without whitespace are lexed as Name (function-call rule): f() OVER(...) is two Functions, "
      "EXISTS(...) is a Function")),
    ('lex-sigil-name', (r'(^lex:sigil-name\||sigil-name$)', True,
                        "@x, #x, ##x are lexed as Operator + Name")),
    ('lex-sign-fused-with-number', (r'sign-fused-with-number$', True,
                                    "a-1 is lexed a, -1 (signed number): no Operation")),
    ('lex-error-token', (r'(^lex:error-token\||lexer-error-token$)', True,
                         "a dollar-quoted literal whose body contains $ is not one token (Error tokens)")),
    ('grammar-ambiguous-text', (r'^(cmp:operator-fused-with-operand:Operator:<@|lex:hash-ends-name\||lex:keyword-as-Name:|'
                                r'lex:unwritten-comment\||lex:piece-starts-inside-token\|)', False,
                                "the rendered text is lexically ambiguous (a<@x, a#>b, FALSE#>a, a--1 starts a comment, "
                                "a%sum() contains the placeholder %s): not a defect")),
])
CLASS_PRED = {name: (lambda sig, rx=_re.compile(v[0]): bool(rx.search(sig))) for name, v in CLASSES.items()}


def _piece(f):
    """The written text of the piece the failing check is about (union of the spans named in the check)."""
    text = f.get('text') or ''.join(map(chr, f.get('input', [])))
    chk = f.get('check')
    if isinstance(chk, str):
        try:
            import ast as _ast
            chk = _ast.literal_eval(chk)
        except Exception:  # noqa
            chk = None
    spans = []

    def walk(x):
        if isinstance(x, (list, tuple)):
            if len(x) >= 2 and isinstance(x[0], int) and isinstance(x[1], int):
                spans.append((x[0], x[1]))
            else:
                for y in x:
                    walk(y)
        elif isinstance(x, dict):
            for y in x.values():
                walk(y)
    walk(chk)
    if not spans:
        return text
    a, b = min(a for a, _ in spans), max(b for _, b in spans)
    # a little left context: an arrow operator directly in front of the piece (`v->>count(a)`) belongs to its mechanism
    left = text[max(0, a - 4):a]
    m = _re.search(r'->>?\s*$', left)
    return (left[m.start():] if m else '') + text[a:b]


# Mechanism features of the WRITTEN piece, for failures of the kind "the written piece is not one node" whose signature
# is a combination not seen before: the piece is attributed to a listed finding only when it contains the construct
# that finding is about (pieces of the core grammar -- names, numbers, strings, + - * / ||, calls, parentheses, CASE,
# comparisons -- have none of these features and are never attributed).
FEATURES = [
    ('grammar-ambiguous-text', lambda p: _re.search(r'<@|#>|@>|%\s*[%(s?:]|--', p) is not None),
    ('lex-sigil-name', lambda p: _re.search(r'(?<![\w"`\]\)])[@#]{1,2}\w', p) is not None),
    ('arrow-operator-right-operand-not-name', lambda p: '->' in p and _arrow_rhs(p) is not None),
    ('array-index-below-top-level', lambda p: _re.search(r'[\w"`\]]\s*\[', p) is not None),
    ('lex-sign-fused-with-number', lambda p: _re.search(r'\S\s*[-+]\.?\d', p) is not None),
    ('operation-operand-class-not-accepted',
     lambda p: _re.search(r'(?i)\bcase\b|\b(true|false|null|current_\w+)\b|\b0x[0-9a-f]+|\$\w*\$|(^|[^\w)\]])\*|\*\s*($|[^\w(\[])', p) is not None),
    ('predicate-item-not-one-node', lambda p: _re.search(r'(?i)\b(and|or|is|between|in|exists|not)\b', p) is not None),
]
SPLIT_KINDS = _re.compile(r':(item-split|operand-split|item-not-listable|sole-arg-dropped)\b|^cmp:no-node:|:alias-after:')


def classify(f, known):
    sig = f.get('sig') or ''
    for k in known:
        p = CLASS_PRED.get(k.get('class'))
        if p and p(sig):
            want = k.get('sig_prefixes')
            if want and not any(sig.startswith(w) for w in want):
                continue
            return k['id']
    if SPLIT_KINDS.search(sig):
        piece = _piece(f)
        ids = {k.get('class'): k['id'] for k in known}
        for cls, pred in FEATURES:
            try:
                if cls in ids and pred(piece):
                    return ids[cls]
            except Exception:  # noqa
                pass
    return None


def rederive_known(k):
    w = k['witness']
    text = ''.join(map(chr, w['input']))
    ds = run_checks(text, w['checks'], w.get('kws', []))
    for d in ds:
        p = CLASS_PRED.get(k.get('class'))
        if p and p(d['sig']):
            return {'input': w['input'], 'observed': d['sig'] + ' -- ' + d['detail']}
    return None


def replay(payload):
    _f = payload.get('failure') or {}
    if _f.get('threshold_input'):
        return common.threshold_replay('C13', _f)
    f = payload.get('failure')
    if not f or 'input' not in f:
        return {'fails': False, 'note': 'no concrete input in replay file: ' + str(payload.get('no_longer_checks'))}
    text = ''.join(map(chr, f['input']))
    checks = [f['check']] if f.get('check') else []
    g = oracle(text, checks, f.get('kws', []))
    return {'fails': bool(g), 'observed': g}


# ------------------------------------------------------------------------------------------------------------
def sweep(ctx, n):
    dist = collections.Counter()
    nchecks = collections.Counter()
    by_sig = collections.OrderedDict()
    count_sig = collections.Counter()
    texts = []
    shapes = set()
    for _ in range(n):
        case = gen_case(ctx.rng)
        texts.append(case['text'])
        dist[case['family']] += 1
        dist['layout:' + case['layout']] += 1
        for c in case['checks']:
            nchecks[c['kind'] + (':' + c['role'] if 'role' in c else '')] += 1
            if c['kind'] == 'where':
                nchecks['where-closer:' + str(c.get('closer'))] += 1
        shapes.add(json.dumps([(c['kind'], c.get('role'), len(c.get('items', c.get('args', c.get('parts', []))) or []))
                               for c in case['checks']]))
        for f in failures_of(case):
            count_sig[f['sig']] += 1
            if f['sig'] not in by_sig:
                by_sig[f['sig']] = f
    return texts, dist, nchecks, by_sig, count_sig, shapes


# the words the lexer keeps keywords in front of a parenthesis (rule (CASE|IN|VALUES|USING|FROM|AS)\b): pinned here, the
# Coq family Inst/C13FnWords.v has the same list
NEVER_FUNCTION = {'AS', 'CASE', 'FROM', 'IN', 'USING', 'VALUES'}


def fnword_failures(ctx):
    """`a call f(a, b) is a Function whose get_parameters() yields the written arguments` for f ranging over the alphabetic
    words of the keyword dictionaries (if, left, replace, date, ...), in a random letter case"""
    from sqlparse.lexer import Lexer
    words = sorted({w for d in Lexer.get_default_instance()._keywords for w in d if w.isalpha() and w.isascii()})
    out, n = [], 0
    for w in words:
        if w in NEVER_FUNCTION:
            continue
        name = ''.join(ch.lower() if ctx.rng.random() < 0.7 else ch for ch in w)
        text = 'select %s(a, b) from t' % name
        s0 = 7
        e0 = s0 + len(name) + 6
        a0 = s0 + len(name) + 1
        chk = {'kind': 'function', 'span': [s0, e0], 'args': [[a0, a0 + 1], [a0 + 3, a0 + 4]], 'name': name}
        n += 1
        for d in run_checks(text, [chk], ()):
            out.append({'input': [ord(ch) for ch in text], 'text': text, 'sig': 'fnword:' + d['sig'],
                        'observed': ('dictionary word as function name: ' + d['sig'] + ' -- ' + d['detail'])[:300],
                        'check': chk, 'kws': []})
            break
    return out, n


def run(ctx):
    n = ctx.n(6000, 60000)
    texts, dist, nchecks, by_sig, count_sig, shapes = sweep(ctx, n)
    res = {'disagreements': [], 'failures': []}
    res['failures'] += common.threshold_failures('C13', ctx.quick())
    fw, nfw = fnword_failures(ctx)
    res['failures'] += fw[:3]
    nchecks['fnword'] = nfw
    # the model agrees with the implementation on these texts (complete trees after parse)
    sample = texts[:ctx.n(1500, 12000)]
    dis, _ = common.corr_stage('parse', sample, impl.parse_dump, 'parse', extra='all ')
    res['disagreements'] += dis
    # one shrunk witness per mechanism signature
    for sig, f in by_sig.items():
        res['failures'].append(f)
    res.update({
        'evaluations': sum(v for k, v in nchecks.items() if not k.startswith('where-closer')) + len(sample),
        'distinct_nontrivial': len(shapes),
        'rule': 'queries of the verification grammar as ASTs (gens_C13.AstGen: the productions and weights of '
                'gens.SqlGen) + the Conditions x Followers x Nesting family + the piece-kind x role family; the renderer '
                'records the spans of every written WHERE/list item/argument/CASE part/operand/typed literal; oracle on '
                'the real library: Where node = WHERE .. just before the next closing keyword of the property at the same '
                'level, else end of parenthesis/statement; get_identifiers()/get_parameters()/get_cases()/left/right = '
                'the written pieces; one TypedLiteral per typed literal; distinct_nontrivial = distinct check-shape '
                'sequences; evaluations = checks evaluated + trees compared with the model',
        'samples': texts[:5],
        'traces_validated_against_impl': len(sample),
        'distribution': {'families': dict(dist), 'checks': dict(nchecks),
                         'deviations_by_signature': dict(count_sig),
                         'length_histogram': common.length_hist(texts)},
    })
    return res


def run_oracle_only(ctx):
    n = ctx.n(6000, 60000)
    texts, dist, nchecks, by_sig, count_sig, shapes = sweep(ctx, n)
    return {'failures': list(by_sig.values()), 'evaluations': sum(nchecks.values()), 'distinct_nontrivial': len(shapes),
            'rule': 'oracle only (model unavailable)', 'samples': texts[:3],
            'distribution': {'deviations_by_signature': dict(count_sig)}}


def search(ctx, hints):
    import time
    t0 = time.time()
    tried = 0
    while time.time() - t0 < ctx.n(60, 600):
        case = gen_case(ctx.rng)
        tried += 1
        fs = failures_of(case)
        known = [k for k in vlib.load_known_findings() if k.get('property') == 'C13' and k.get('status') == 'open']
        fs = [f for f in fs if classify(f, known) is None]
        if fs:
            return {'failures': fs[:1], 'tried': tried}
    return {'failures': [], 'tried': tried}


# ------------------------------------------------------------------------------------------------------------
# stand-alone report:  python tools/props/C13.py [n] [seed]   (shrunk witness per signature, class table)
# ------------------------------------------------------------------------------------------------------------
def report(n=20000, seed=0):
    class Ctx:
        rng = random.Random(f'C13:{seed}')

        def n(self, a, b):
            return a
    texts, dist, nchecks, by_sig, count_sig, shapes = sweep(Ctx(), n)
    rows = []
    for sig, f in by_sig.items():
        g = shrink(f)
        cls = [c for c, p in CLASS_PRED.items() if p(sig)]
        rows.append({'sig': sig, 'count': count_sig[sig], 'class': cls[0] if cls else None,
                     'witness': g['text'], 'observed': g['observed'], 'check': g['check'], 'kws': g.get('kws', [])})
    return {'families': dict(dist), 'checks': dict(nchecks), 'shapes': len(shapes), 'rows': rows, 'cases': n}


def propose_known(rep, first_id=20):
    """known-finding entries, one per class: the shortest shrunk witness, all signatures seen"""
    out = []
    byc = collections.OrderedDict()
    for r in rep['rows']:
        if r['class']:
            byc.setdefault(r['class'], []).append(r)
    i = first_id
    for cls in CLASSES:
        rs = byc.get(cls)
        if not rs:
            continue
        w = min(rs, key=lambda r: (len(r['witness']), r['witness']))
        out.append({'id': 'F%d' % i, 'property': 'C13', 'status': 'open', 'class': cls,
                    'inside_wording': CLASSES[cls][1],
                    'witness': {'input': [ord(ch) for ch in w['witness']], 'text': w['witness'],
                                'checks': [w['check']], 'kws': w['kws'], 'sig': w['sig']},
                    'signatures_seen': sorted(r['sig'] for r in rs),
                    'occurrences': sum(r['count'] for r in rs),
                    'what_fails': CLASSES[cls][2]})
        i += 1
    return out


if __name__ == '__main__':
    import sys
    rep = report(int(sys.argv[1]) if len(sys.argv) > 1 else 20000, int(sys.argv[2]) if len(sys.argv) > 2 else 0)
    print(json.dumps({'cases': rep['cases'], 'families': rep['families'], 'checks': rep['checks'], 'shapes': rep['shapes']}))
    for r in sorted(rep['rows'], key=lambda r: (str(r['class']), r['sig'])):
        print('%6d  %-66s  %-44s  %r' % (r['count'], r['sig'][:66], str(r['class'])[:44], r['witness'][:100]))
    if len(sys.argv) > 3:
        with open(sys.argv[3], 'w') as f:
            json.dump(propose_known(rep), f, indent=1, ensure_ascii=True)
