"""C07 (totality part): parse(), split(), format() with valid option sets and every accessor on every node return
normally or raise SQLParseError.  Direct oracle on the implementation + parse correspondence (the model's parse never
fails: Inst/TotalParse.v cur_parse_total)."""
import collections
import random
import re

import vlib
import impl
import gens
from props import common

THEOREMS = ['Inst/TotalParse.v: cur_parse_total (forall t, exists stmts, cur_parse t = Ok stmts), cur_parse_upto_total, '
            'cur_split_stream_total -- from C01 (lexer total) and Group/TotalFacts.v group_total: each Err branch of each of the '
            '25 passes is unreachable (index invariants of _group with the Z-valued offset, progress of every while-loop, the '
            'bracket-shape invariant that group_where needs through passes 1-9)',
            'Group/TotalFacts.v: group_total_needs_shape_refuted / group_where_diverges_without_shape_refuted: on hand-built '
            'trees that no text produces group_where raises IndexError / does not terminate -- the shape invariant is necessary',
            'Filters/StripCommentsFacts.v sc_total; Filters/ReindentFuel.v rprocess_total (reindent total on rx_safe trees); '
            'Filters/ReindentInstFacts.v reindent_paren_as_fixed ("(as)": raised IndexError in strip_whitespace until the fix commit 6a54b84)']
TRUSTED = ['accessors and filters other than the modelled ones are covered by the direct oracle only']
ASSUMPTIONS = ['recursion depth is C15; option validation is the C07 options part']

ACCESSORS = ['get_type', 'get_name', 'get_alias', 'get_real_name', 'get_parent_name', 'has_alias', 'get_identifiers',
             'get_parameters', 'get_window', 'get_cases', 'get_typecast', 'get_ordering', 'is_wildcard',
             'get_array_indices', 'get_sublists', 'flatten', 'get_token_at_offset', 'token_first', '_get_first_name']
PROPS = ['left', 'right']


def valid_options(rng):
    o = {}
    if rng.random() < 0.3:
        o['keyword_case'] = rng.choice(['upper', 'lower', 'capitalize'])
    if rng.random() < 0.3:
        o['identifier_case'] = rng.choice(['upper', 'lower', 'capitalize'])
    if rng.random() < 0.25:
        o['strip_comments'] = True
    if rng.random() < 0.3:
        o['strip_whitespace'] = True
    if rng.random() < 0.2:
        o['use_space_around_operators'] = True
    if rng.random() < 0.2:
        o['truncate_strings'] = rng.choice([2, 3, 10])
        if rng.random() < 0.5:
            o['truncate_char'] = rng.choice(['[...]', '', "'", '…'])
    r = rng.random()
    if r < 0.3:
        o['reindent'] = True
        if rng.random() < 0.3:
            o['indent_width'] = rng.choice([1, 2, 4, 8])
        if rng.random() < 0.2:
            o['indent_tabs'] = True
        if rng.random() < 0.2:
            o['indent_after_first'] = True
        if rng.random() < 0.2:
            o['indent_columns'] = True
        if rng.random() < 0.3:
            o['wrap_after'] = rng.choice([0, 1, 10, 40])
        if rng.random() < 0.25:
            o['comma_first'] = True
        if rng.random() < 0.15:
            o['compact'] = True
    elif r < 0.42:
        o['reindent_aligned'] = True
    if rng.random() < 0.12:
        o['output_format'] = rng.choice(['python', 'php', 'sql'])
    return o


def _call_all(node, out, text):
    from sqlparse.exceptions import SQLParseError
    for name in ACCESSORS:
        f = getattr(node, name, None)
        if f is None:
            continue
        try:
            if name == 'get_token_at_offset':
                f(0)
                f(max(0, len(str(node)) - 1))
            else:
                r = f()
                if hasattr(r, '__next__') or name in ('get_identifiers', 'get_cases', 'get_parameters', 'get_array_indices',
                                                      'get_sublists', 'flatten'):
                    list(r)
        except SQLParseError:
            pass
        except RecursionError:
            pass
        except Exception as e:  # noqa
            out.append((type(node).__name__, name, type(e).__name__))
    for name in PROPS:
        if hasattr(type(node), name):
            try:
                getattr(node, name)
            except Exception as e:  # noqa
                out.append((type(node).__name__, name, type(e).__name__))


def oracle(text, opts=None, accessors=True):
    """None, or {'input','options','observed','class'} for an escaping exception other than SQLParseError."""
    import sqlparse
    from sqlparse.exceptions import SQLParseError
    inp = [ord(c) for c in text]
    for name, call in (('parse', lambda: sqlparse.parse(text)), ('split', lambda: sqlparse.split(text)),
                       ('split_strip', lambda: sqlparse.split(text, strip_semicolon=True))):
        try:
            r = call()
        except SQLParseError:
            r = None
        except Exception as e:  # noqa
            return {'input': inp, 'options': {}, 'call': name, 'class': 'exception:' + type(e).__name__ + ':' + name,
                    'observed': f'{name}() raised {type(e).__name__}: {str(e)[:120]}'}
        if name == 'parse' and r is not None and accessors:
            bad = []
            stack = list(r)
            while stack:
                n = stack.pop()
                if n.is_group:
                    _call_all(n, bad, text)
                    stack.extend(n.tokens)
            if bad:
                cls, acc, exc = bad[0]
                return {'input': inp, 'options': {}, 'call': f'{cls}.{acc}', 'class': f'accessor:{cls}.{acc}:{exc}',
                        'observed': f'{cls}.{acc}() raised {exc} on a node of parse(text)'}
    if opts is not None:
        try:
            sqlparse.format(text, **opts)
        except SQLParseError:
            pass
        except Exception as e:  # noqa
            import traceback
            tb = traceback.extract_tb(e.__traceback__)
            frames = [f'{fr.filename.rsplit("/", 1)[-1]}:{fr.name}' for fr in tb if '/sqlparse/' in fr.filename]
            site = frames[-1] if frames else '?'
            return {'input': inp, 'options': opts, 'call': 'format', 'site': site, 'frames': frames[-6:],
                    'class': 'exception:' + type(e).__name__ + ':format:' + site,
                    'observed': f'format(**{opts}) raised {type(e).__name__} at {site}: {str(e)[:100]}'}
    return None


# deep nesting: RecursionError is an exception like any other for this property -- it must come out as SQLParseError
# (the guard itself is C15's subject; here only the outcome class is checked, for depths where grouping survives but the
# filters may not, and beyond)
DEEP_OPTS = [{}, {'reindent': True}, {'strip_whitespace': True}, {'reindent_aligned': True},
             {'use_space_around_operators': True}, {'reindent': True, 'indent_columns': True, 'comma_first': True},
             {'strip_comments': True}, {'output_format': 'python'}]


def deep_cases(quick):
    depths = (120, 400) if quick else (100, 250, 450, 700, 950, 1500)
    out = []
    for d in depths:
        out.append(('paren', d, 'select ' + '(' * d + '1' + ')' * d))
        if not quick:
            out.append(('func', d, 'select ' + 'f(' * d + '1' + ')' * d + ' from t'))
            out.append(('case', d // 3, 'select ' + 'case when a then ' * (d // 3) + '1' + ' end' * (d // 3)))
            out.append(('brack', d, 'select a' + '[' * d + '1' + ']' * d))
    return out


def deep_sweep(quick):
    fails, n = [], 0
    for kind, d, text in deep_cases(quick):
        for o in (DEEP_OPTS[:4] if quick else DEEP_OPTS):
            n += 1
            f = oracle(text, o, accessors=False)
            if f:
                f['input'] = [ord(c) for c in text]
                f['deep'] = {'construct': kind, 'depth': d}
                fails.append(f)
                break
    return fails, n


# ---- narrow classes of the listed findings: (class name in known_findings.json) -> predicate(failure)
def _txt(f):
    return ''.join(map(chr, f.get('input', [])))


CLASS_PRED = {
    # StripWhitespaceFilter._stripws_parenthesis indexes tokens[1] of a Parenthesis whose '(' was swallowed by
    # group_as / group_typecasts together with its neighbours
    'stripws-parenthesis-swallowed': lambda f: f.get('call') == 'format' and 'IndexError' in f.get('class', '')
    and '_stripws_parenthesis' in f.get('site', '') and re.search(r'\(\s*(as\b|::|:=)', _txt(f), re.I) is not None,
    # Function.get_window(): token_next_by returns the truthy tuple (None, None)
    'get-window-no-over': lambda f: f.get('class', '') == 'accessor:Function.get_window:AttributeError',
    # AlignedIndentFilter._process_case: a Case group without a proper END / with a nested Where
    'aligned-case-end-swallowed': lambda f: f.get('call') == 'format' and 'ValueError' in f.get('class', '')
    and any(fr == 'aligned_indent.py:_process_case' for fr in f.get('frames', [f.get('site', '')]))
    and 'None is not in list' in f.get('observed', '') and f.get('options', {}).get('reindent_aligned')
    and re.search(r'\bcase\b', _txt(f), re.I) is not None,
}


def classify(f, known):
    for k in known:
        p = CLASS_PRED.get(k.get('class'))
        if p is not None:
            try:
                if p(f):
                    return k['id']
            except Exception:  # noqa
                pass
    return None


def rederive_known(k):
    if k.get('class') not in CLASS_PRED:
        return None
    w = k.get('witness', {})
    text = w.get('text') or ''.join(map(chr, w.get('input', [])))
    f = oracle(text, w.get('options') or None)
    if f and classify(f, [k]) == k['id']:
        return f
    return None


def gen_case(rng):
    r = rng.random()
    if r < 0.45:
        s, kind = gens.mixed_text(rng)
    elif r < 0.7:
        s, kind = gens.junk(rng), 'junk'
    elif r < 0.8:
        s, kind = gens.uni(rng), 'uni'
    else:
        g = gens.ProcGen(rng)
        pre, c, post = g.script_with_create()
        s, kind = gens.render(pre + c + post, rng, layout='random', comments=0.1, recase='random'), 'proc'
    return s[:600], kind, valid_options(rng)


def run(ctx):
    n = ctx.n(2500, 40000)
    res = {'disagreements': [], 'failures': []}
    res['failures'] += common.threshold_failures('C07', ctx.quick())
    dist = collections.Counter()
    optd = collections.Counter()
    texts = []
    seen_cls = set()
    for _ in range(n):
        s, kind, o = gen_case(ctx.rng)
        texts.append(s)
        dist[kind] += 1
        for k in o:
            optd[k] += 1
        f = oracle(s, o)
        if f and f['class'] not in seen_cls:
            seen_cls.add(f['class'])
            res['failures'].append(f)
    dfails, dn = deep_sweep(ctx.quick() if hasattr(ctx, 'quick') else True)
    for f in dfails:
        if f['class'] not in seen_cls:
            seen_cls.add(f['class'])
            res['failures'].append(f)
    dist['deep_nesting'] = dn
    # the model's parse never fails, and agrees with the implementation on which inputs parse
    sample = texts[:ctx.n(1500, 15000)]
    dis, dumps = common.corr_stage('parse', sample, impl.parse_dump, 'parse', extra='all ')
    res['disagreements'] += dis
    shapes = {common.tree_shape(d) for d in dumps if d.startswith('OK ')}
    res.update({
        'evaluations': n + len(sample),
        'distinct_nontrivial': len(shapes),
        'rule': 'mixed/junk/unicode/procedural texts x random VALID option sets (every documented option incl. reindent '
                'sub-options, reindent_aligned, output_format): parse, split (both strip_semicolon values), format and every '
                'accessor on every node of parse() must return or raise SQLParseError; parse correspondence of the model '
                '(which is proved total); distinct_nontrivial = distinct tree shapes',
        'samples': [texts[i][:100] for i in range(min(4, len(texts)))],
        'traces_validated_against_impl': len(sample),
        'distribution': {'generator': dict(dist), 'options_used': dict(optd), 'failure_classes': sorted(seen_cls),
                         'length_histogram': common.length_hist(texts)},
    })
    return res


def run_oracle_only(ctx):
    fails = list(deep_sweep(True)[0])
    n = ctx.n(2500, 40000)
    for _ in range(n):
        s, kind, o = gen_case(ctx.rng)
        f = oracle(s, o)
        if f:
            fails.append(f)
    return {'failures': fails[:5], 'evaluations': n, 'distinct_nontrivial': 0, 'rule': 'oracle only', 'samples': []}


def search(ctx, hints):
    import time
    t0 = time.time()
    known = [k for k in vlib.load_known_findings() if k.get('property') == 'C07' and k.get('status') == 'open']
    tried = 0
    fails = []
    for d in hints.get('disagreements', []):
        if 'input' in d:
            f = oracle(''.join(map(chr, d['input'])), {})
            tried += 1
            if f and classify(f, known) is None:
                fails.append(f)
                break
    if not fails:
        fails += [f for f in deep_sweep(False)[0] if classify(f, known) is None][:1]
    if not fails:
        # the accessors on trees that parse() returns for deeply nested input (an accessor that recurses with more frames
        # per level than the parser does escapes as RecursionError on a tree the parser accepted)
        for d in (300, 450):
            for text in ('(' * d + 'select 1' + ')' * d + ' union select 2', 'select ' + '(' * d + '1' + ')' * d):
                tried += 1
                f = oracle(text, {}, accessors=True)
                if f and classify(f, known) is None:
                    f['input'] = [ord(c) for c in text]
                    f['deep'] = {'construct': 'paren', 'depth': d}
                    fails.append(f)
                    break
            if fails:
                break
    while time.time() - t0 < ctx.n(60, 600) and not fails:
        s, kind, o = gen_case(ctx.rng)
        tried += 1
        f = oracle(s, o)
        if f and classify(f, known) is None:
            fails.append(f)
    return {'failures': fails[:1], 'tried': tried}


def shrink(f):
    if not f or 'input' not in f or f.get('deep'):
        return f
    opts = f.get('options') or None
    cls = f.get('class')

    def same(t):
        g = oracle(t, opts)
        return g if g and g.get('class') == cls else None
    s, best = common.shrink_text(_txt(f), same)
    return best or f


def replay(payload):
    _f = payload.get('failure') or {}
    if _f.get('threshold_input'):
        return common.threshold_replay('C07', _f)
    f = payload.get('failure')
    if not f or 'input' not in f:
        return {'fails': False, 'note': 'no concrete input: ' + str(payload.get('no_longer_checks'))}
    g = oracle(_txt(f), f.get('options') or None)
    return {'fails': bool(g), 'observed': g}
